/-
C13 — what `get_excluded` computes, in terms of the per-zone, per-loudspeaker test (core Lean only):
`mask[i] ⇔ some zone of the list matches loudspeaker i`; and what a fuelled `while` returns.
-/
import Earverif.Proofs.C13Zone
import Earverif.Proofs.C13CartLock

namespace Earverif.C13
open Earverif.Zone Earverif.Zone.Scalar

theorem orMask_isExcl : ∀ (a b : List Bool), a.length = b.length → ∀ i,
    isExcl (orMask a b) i = (isExcl a i || isExcl b i) := by
  intro a
  induction a with
  | nil =>
    intro b h i
    cases b with
    | nil => simp [orMask, isExcl]
    | cons y ys => simp at h
  | cons x xs ih =>
    intro b h i
    cases b with
    | nil => simp at h
    | cons y ys =>
      cases i with
      | zero => simp [orMask, isExcl]
      | succ i =>
        have := ih ys (by simpa using h) i
        simpa [orMask, isExcl] using this

theorem mapOpt_getElem?' {β γ : Type} (f : β → Option γ) : ∀ (l : List β) (out : List γ), mapOpt f l = some out →
    ∀ (k : Nat) (hk : k < l.length), ∃ y, out[k]? = some y ∧ f l[k] = some y := by
  intro l
  induction l with
  | nil => intro out _ k hk; simp at hk
  | cons x xs ih =>
    intro out h k hk
    simp only [mapOpt] at h
    cases hfx : f x with
    | none => simp [hfx] at h
    | some y0 =>
      cases hxs : mapOpt f xs with
      | none => simp [hfx, hxs] at h
      | some ys =>
        simp [hfx, hxs] at h
        subst h
        cases k with
        | zero => exact ⟨y0, by simp, by simpa using hfx⟩
        | succ k =>
          obtain ⟨y, h1, h2⟩ := ih ys hxs k (by simpa using hk)
          exact ⟨y, by simpa using h1, by simpa using h2⟩

/-- **`get_excluded`: the mask is the or over the zones of the per-loudspeaker test.** Whenever
`getExcluded` answers (no `while` ran out of fuel), loudspeaker `i` is in the mask exactly when
some zone of the list matches it (`zoneMatch`: the Cartesian box test with the `1e-6` tolerance,
or the elevation test and [pole or azimuth inside the range] for a polar zone), and every zone's
test on that loudspeaker is defined.  Any scalar type. -/
theorem getExcluded_spec {α : Type} [Scalar α] (fuel : Nat) (spks : List (Spk α)) :
    ∀ (zones : List (Zone α)) (m : List Bool), getExcluded fuel spks zones = some m →
      ∀ (i : Nat) (hi : i < spks.length),
        (isExcl m i = true ↔ ∃ z ∈ zones, zoneMatch fuel z spks[i] = some true) ∧
        ∀ z ∈ zones, (zoneMatch fuel z spks[i]).isSome := by
  intro zones
  induction zones with
  | nil =>
    intro m h i hi
    simp only [getExcluded, Option.some.injEq] at h
    subst h
    refine ⟨⟨fun h => ?_, fun ⟨z, hz, _⟩ => by simp at hz⟩, fun z hz => by simp at hz⟩
    have : isExcl (spks.map fun _ => false) i = false := by
      unfold isExcl
      simp only [List.getD, List.getElem?_map]
      cases spks[i]? <;> rfl
    rw [this] at h
    exact Bool.noConfusion h
  | cons z zs ih =>
    intro m h i hi
    simp only [getExcluded] at h
    cases h1 : mapOpt (zoneMatch fuel z) spks with
    | none => simp [h1] at h
    | some m1 =>
      cases h2 : getExcluded fuel spks zs with
      | none => simp [h1, h2] at h
      | some m2 =>
        simp [h1, h2] at h
        subst h
        have l1 := mapOpt_length _ _ _ h1
        have l2 := getExcluded_length fuel spks zs m2 h2
        obtain ⟨y, hy1, hy2⟩ := mapOpt_getElem?' _ spks m1 h1 i hi
        obtain ⟨ih1, ih2⟩ := ih m2 h2 i hi
        have hm1 : isExcl m1 i = y := by simp [isExcl, List.getD, hy1]
        rw [orMask_isExcl m1 m2 (by omega) i, hm1]
        constructor
        · constructor
          · intro hor
            rcases Bool.or_eq_true_iff.mp hor with hyt | h2t
            · exact ⟨z, by simp, by rw [hy2, hyt]⟩
            · obtain ⟨z', hz', hm⟩ := ih1.mp h2t
              exact ⟨z', by simp [hz'], hm⟩
          · rintro ⟨z', hz', hm⟩
            simp only [List.mem_cons] at hz'
            rcases hz' with rfl | hz'
            · rw [hy2] at hm; simp only [Option.some.injEq] at hm; simp [hm]
            · have := ih1.mpr ⟨z', hz', hm⟩
              simp [this]
        · intro z' hz'
          simp only [List.mem_cons] at hz'
          rcases hz' with rfl | hz'
          · rw [hy2]; rfl
          · exact ih2 z' hz'

/-- **Cartesian zone test, exact arithmetic**: the loudspeaker's nominal position is inside the
box widened by `1e-6` (the double's exact value) on every side, all comparisons strict. -/
theorem zoneMatch_cart_spec (fuel : Nat) (minX maxX minY maxY minZ maxZ : Rat) (s : Spk Rat) :
    ∃ b, zoneMatch fuel (.cart minX maxX minY maxY minZ maxZ) s = some b ∧
      (b = true ↔ (minX - Scalar.eps6 < s.x ∧ s.x < maxX + Scalar.eps6 ∧ minY - Scalar.eps6 < s.y ∧
        s.y < maxY + Scalar.eps6 ∧ minZ - Scalar.eps6 < s.z ∧ s.z < maxZ + Scalar.eps6)) := by
  refine ⟨_, rfl, ?_⟩
  simp only [rat_lt, rat_sub, rat_add, Bool.and_eq_true, decide_eq_true_eq]
  grind

/-- A fuelled `while cond(x): x = step(x)` that answers has run the body `k ≤ fuel` times, with the
condition true before each of them and false at the end. -/
theorem whileLoop_spec {α : Type} (cond : α → Bool) (step : α → α) : ∀ (fuel : Nat) (x y : α),
    whileLoop cond step fuel x = some y →
      cond y = false ∧ ∃ k, k ≤ fuel ∧ y = Nat.iterate step k x ∧ ∀ j, j < k → cond (Nat.iterate step j x) = true := by
  intro fuel
  induction fuel with
  | zero =>
    intro x y h
    simp only [whileLoop] at h
    split at h
    · simp at h
    · rename_i hc
      simp only [Option.some.injEq] at h
      subst h
      exact ⟨by simpa using hc, 0, Nat.le_refl 0, rfl, fun j hj => absurd hj (Nat.not_lt_zero j)⟩
  | succ f ih =>
    intro x y h
    simp only [whileLoop] at h
    split at h
    · rename_i hc
      obtain ⟨h1, k, hk, hy, hj⟩ := ih (step x) y h
      refine ⟨h1, k + 1, by omega, by simpa [Nat.iterate] using hy, ?_⟩
      intro j hjk
      cases j with
      | zero => simpa [Nat.iterate] using hc
      | succ j => simpa [Nat.iterate] using hj j (by omega)
    · rename_i hc
      simp only [Option.some.injEq] at h
      subst h
      exact ⟨by simpa using hc, 0, Nat.zero_le _, rfl, fun j hj => absurd hj (Nat.not_lt_zero j)⟩

end Earverif.C13
