/-
Class-level round trips of the Matrix coefficient and of the DirectSpeakers, HOA, Binaural and Matrix block
formats (`make_block_format_*_handler`, both versions).
-/
import Earverif.Proofs.C08Nested

namespace Earverif.XmlBlocks
open Earverif.XmlCodec Earverif.XmlCustom Earverif.TimeFormat

/-! ### Matrix coefficient -/

theorem find?_key_none {α} (l : List (String × α)) (k : String) (h : ∀ kv ∈ l, kv.1 ≠ k) :
    l.find? (·.1 == k) = none := by
  rw [List.find?_eq_none]; intro x hx; simpa using h x hx

/-- gain attribute (both versions) on an element that carries further attributes with other names -/
theorem gainAttribute_roundtrip' (v2 : Bool) (g : Option Int) (tag : QName) (rest : List (String × String))
    (cs : List Xml) (text : String) (hrest : ∀ kv ∈ rest, kv.1 ≠ "gain" ∧ kv.1 ≠ "gainUnit") :
    handleGainAttribute v2 (.node tag (gainAttributeToXml g ++ rest) cs text) = some (g.map .linear) := by
  have h1 := find?_key_none rest "gain" (fun kv h => (hrest kv h).1)
  have h2 := find?_key_none rest "gainUnit" (fun kv h => (hrest kv h).2)
  cases g <;> cases v2 <;>
    simp [handleGainAttribute, gainAttributeToXml, parseGain, attr?, Xml.attrs, loadsNum_dumpsNum, h1, h2]

theorem attr_key {adm arg : String} {c : Codec XV} {req : Bool} {d : XV} {o : Obj XV} {kv : String × String}
    (h : kv ∈ (Property.attr adm arg c req d).attrsOut o) : kv.1 = adm := by
  simp only [Property.attrsOut] at h
  split at h
  · split at h
    · simp at h; rw [h]
    · cases h
  · cases h

theorem coeff_keys (v2 : Bool) : KeysOK (coeffPs v2) := by
  refine ⟨?_, ?_, ?_, ?_⟩ <;>
    simp [coeffPs, Property.attrKeys, Property.elemNames, allArgs, Property.ownArgs, Property.textHandler?,
      gainAttrImpl]

/-- the attributes of a written coefficient: the gain first, then attributes with other names -/
theorem coeff_attrs (v2 : Bool) (name : String) (c : Coefficient) :
    ∃ rest, (toXml (coeffPs v2) name c.toObj).attrs = gainAttributeToXml c.gain ++ rest ∧
      ∀ kv ∈ rest, kv.1 ≠ "gain" ∧ kv.1 ≠ "gainUnit" := by
  refine ⟨((coeffPs v2).drop 2).flatMap (·.attrsOut c.toObj), ?_, ?_⟩
  · have : coeffPs v2 = (coeffPs v2).take 2 ++ (coeffPs v2).drop 2 := (List.take_append_drop 2 _).symm
    simp only [toXml, Xml.attrs]
    rw [this, List.flatMap_append]
    congr 1
    cases h : c.gain <;>
      simp [coeffPs, Property.attrsOut, gainAttrImpl, Coefficient.toObj, h, optNumV, gainAttributeToXml]
  · intro kv hkv
    obtain ⟨p, hp, hk⟩ := List.mem_flatMap.mp hkv
    simp only [coeffPs, List.drop_succ_cons, List.drop_zero, List.mem_cons, List.not_mem_nil, or_false] at hp
    rcases hp with rfl | rfl | rfl | rfl | rfl <;> (rw [attr_key hk]; decide)

theorem coeff_fields (v2 : Bool) (name : String) (c : Coefficient) :
    ∀ p ∈ coeffPs v2, FieldOK (coeffPs v2) (toXml (coeffPs v2) name c.toObj) c.toObj noneDefaults p := by
  intro p hp
  simp only [coeffPs, List.mem_cons, List.not_mem_nil, or_false] at hp
  rcases hp with rfl | rfl | rfl | rfl | rfl | rfl | rfl
  · exact ⟨.leaf (.str c.inputChannelFormat), by simp [Coefficient.toObj], lift_roundtrip _ _ (stringCodec_roundtrip _)⟩
  · refine ⟨by simp [gainAttrImpl], ?_, ?_, by simp⟩
    · intro kv hkv
      have : kv.1 = "gain" := by
        simp only [gainAttrImpl] at hkv
        split at hkv
        · simp [gainAttributeToXml] at hkv; rw [hkv]
        · cases hkv
      rw [this]
      simp [lookupAttr, coeffPs, Property.attrHandler?]
    · intro kw hnone
      have hk : kw "gain" = none := hnone _ (by simp [gainAttrImpl])
      obtain ⟨rest, hattrs, hrest⟩ := coeff_attrs v2 name c
      have hh : handleGainAttribute v2 (toXml (coeffPs v2) name c.toObj) = some (c.gain.map .linear) := by
        have := gainAttribute_roundtrip' v2 c.gain (outName name) rest
          ((coeffPs v2).flatMap (·.childrenOut c.toObj)) (textOut (coeffPs v2) c.toObj) hrest
        rw [← hattrs] at this
        exact this
      cases hg : c.gain with
      | none =>
        refine ⟨kw, by simp [gainAttrImpl, hh, hg], ?_, fun _ _ => rfl⟩
        intro a ha
        simp only [gainAttrImpl, List.mem_singleton] at ha; subst ha
        simp [gainAttrImpl, Coefficient.toObj, hg, optNumV, hk]
      | some k =>
        refine ⟨setOne kw "gain" (.leaf (.num k)), by simp [gainAttrImpl, hh, hg, gainValue], ?_, ?_⟩
        · intro a ha
          simp only [gainAttrImpl, List.mem_singleton] at ha; subst ha
          simp [gainAttrImpl, Coefficient.toObj, hg, optNumV, setOne, Kw.set]
        · intro b hb
          simp only [gainAttrImpl, List.mem_singleton] at hb
          simp [setOne, Kw.set, hb]
  · exact scalar_optNum _ _ _ c.phase (by simp [Coefficient.toObj]) rfl
  · exact scalar_optNum _ _ _ c.delay (by simp [Coefficient.toObj]) rfl
  · exact scalar_optStr _ _ _ c.gainVar (by simp [Coefficient.toObj]) rfl
  · exact scalar_optStr _ _ _ c.phaseVar (by simp [Coefficient.toObj]) rfl
  · exact scalar_optStr _ _ _ c.delayVar (by simp [Coefficient.toObj]) rfl

/-- **Matrix coefficient, class level** (either version): input channel reference, gain / phase / delay on the
grid and the three `*Var` strings in any combination -/
theorem coeff_roundtrip (v2 : Bool) (name : String) (c : Coefficient) :
    parse (coeffPs v2) noneDefaults (toXml (coeffPs v2) name c.toObj) = some c.toObj ∧
    (parse (coeffPs v2) noneDefaults (toXml (coeffPs v2) name c.toObj)).map (toXml (coeffPs v2) name)
      = some (toXml (coeffPs v2) name c.toObj) := by
  refine codec_roundtrip_full (coeffPs v2) name c.toObj noneDefaults ⟨coeff_keys v2, coeff_fields v2 name c⟩ ?_ ?_
  · intro p hp hc a ha
    simp only [coeffPs, List.mem_cons, List.not_mem_nil, or_false] at hp
    rcases hp with rfl | rfl | rfl | rfl | rfl | rfl | rfl <;> simp [Property.isCustom] at hc
    simp only [Property.ownArgs, gainAttrImpl, List.mem_singleton] at ha; subst ha
    cases h : c.gain <;> simp [Property.customEff, gainAttrImpl, Coefficient.toObj, noneDefaults, h, optNumV]
  · intro a ha
    simp only [allArgs, coeffPs, Property.ownArgs, gainAttrImpl, List.flatMap_cons, List.flatMap_nil, List.cons_append,
      List.nil_append, List.mem_cons, List.not_mem_nil, or_false, not_or] at ha
    simp [Coefficient.toObj, noneDefaults, ha]

theorem coeff_ofObj (c : Coefficient) : Coefficient.ofObj c.toObj = some c := by
  simp [Coefficient.ofObj, Coefficient.toObj, getStr, get_optNumV, get_optStrV]

theorem coeff_read (v2 : Bool) (c : Coefficient) :
    parseCoefficient v2 (toXml (coeffPs v2) "coefficient" c.toObj) = some c := by
  unfold parseCoefficient
  rw [(coeff_roundtrip v2 _ c).1]; simp [coeff_ofObj]

/-- the `matrix` element: every list of coefficients comes back -/
theorem matrix_read (v2 : Bool) (cs : List Coefficient) :
    ((xpathChildren (.node (outName "matrix") [] (cs.map fun c => toXml (coeffPs v2) "coefficient" c.toObj) "")
      "coefficient").mapM (parseCoefficient v2)) = some cs := by
  rw [xpath_all _ _ _ _ _ (fun c hc => by obtain ⟨d, _, rfl⟩ := List.mem_map.mp hc; rfl)]
  induction cs with
  | nil => rfl
  | cons c cs ih => simp [List.mapM_cons, coeff_read, ih]

/-! ### what the block formats share -/

/-- `id`, `rtime`, `duration` -/
theorem head_fields (v2 : Bool) (ps : List (Property XV)) (e : Xml) (o cd : Obj XV) (id : String)
    (rt du : Option Time) (hid : o "id" = .one (.leaf (.str id))) (hrt : o "rtime" = .one (optTime rt))
    (hdu : o "duration" = .one (optTime du)) (hc1 : cd "rtime" = .one noneLeaf) (hc2 : cd "duration" = .one noneLeaf)
    (ht1 : TimeOK v2 rt) (ht2 : TimeOK v2 du) : ∀ p ∈ blockHead v2, FieldOK ps e o cd p := by
  intro p hp
  simp only [blockHead, List.mem_cons, List.not_mem_nil, or_false] at hp
  rcases hp with rfl | rfl | rfl
  · exact scalar_reqStr _ _ _ id hid
  · exact scalar_optTime v2 _ _ _ rt hrt hc1 ht1
  · exact scalar_optTime v2 _ _ _ du hdu hc2 ht2

theorem head_tags (v2 : Bool) : ∀ q ∈ blockHead v2, TagsOK q := by
  intro q hq
  simp only [blockHead, List.mem_cons, List.not_mem_nil, or_false] at hq
  rcases hq with rfl | rfl | rfl <;> exact tagsOK_attr _ _ _ _ _

/-- `gain` (a BS.2076-2 sub-element of these block formats) -/
theorem gainV2_field (v2 : Bool) (ps : List (Property XV)) (e : Xml) (o cd : Obj XV) (k : Int)
    (hg : o "gain" = .one (.leaf (.num k))) : FieldOK ps e o cd (gainElemV2 v2) := by
  cases v2
  · exact fieldOK_noV2 _ _ _ _ _
  · exact fieldOK_gain _ _ _ _ true k hg

theorem importanceV2_field (v2 : Bool) (ps : List (Property XV)) (e : Xml) (o cd : Obj XV) (k : Int)
    (hi : o "importance" = .one (.leaf (.int k))) (hcd : cd "importance" = .one (.leaf (.int 10))) :
    FieldOK ps e o cd (importanceV2 v2) := by
  cases v2
  · exact fieldOK_noV2 _ _ _ _ _
  · exact Or.inr ⟨rfl, scalar_int _ _ _ k 10 hi hcd⟩

theorem gainV2_tags (v2 : Bool) : TagsOK (gainElemV2 v2) := by
  cases v2
  · exact tagsOK_noV2 _
  · exact tagsOK_gain true

theorem importanceV2_tags (v2 : Bool) : TagsOK (importanceV2 v2) := by
  cases v2
  · exact tagsOK_noV2 _
  · exact tagsOK_attrElement _ _ _ _ _ _

theorem gainV2_eff (v2 : Bool) (o cd : Obj XV) (k : Int) (hg : o "gain" = .one (.leaf (.num k)))
    (hd : cd "gain" = .one (.leaf (.num 100000))) :
    ∀ a ∈ (gainElemV2 v2).ownArgs, ((gainElemV2 v2).customEff o a).getD (cd a) = o a := by
  cases v2
  · intro a ha; simp [gainElemV2, Property.ownArgs, noV2Impl] at ha
  · exact customEff_gain true none false o cd k hg hd

/-- BS.2076-1 has no `gain` / `importance` sub-elements in these block formats: `to_xml` raises for
non-default values, so they are outside the domain -/
def V1Default (v2 : Bool) (gain importance : Int) : Prop := v2 = false → gain = 100000 ∧ importance = 10

/-! ### Binaural -/

structure BinauralValid (v2 : Bool) (b : BinauralBlock) : Prop where
  rtime : TimeOK v2 b.rtime
  duration : TimeOK v2 b.duration
  v1 : V1Default v2 b.gain b.importance

theorem binaural_keys (v2 : Bool) : KeysOK (binauralPs v2) := by
  cases v2 <;> refine ⟨?_, ?_, ?_, ?_⟩ <;>
    simp [binauralPs, blockHead, gainElemV2, importanceV2, Property.attrKeys, Property.elemNames, allArgs,
      Property.ownArgs, Property.textHandler?, gainImpl, noV2Impl]

theorem binaural_fields (v2 : Bool) (name : String) (b : BinauralBlock) (hv : BinauralValid v2 b) :
    ∀ p ∈ binauralPs v2,
      FieldOK (binauralPs v2) (toXml (binauralPs v2) name b.toObj) b.toObj blockDefaults p := by
  intro p hp
  simp only [binauralPs, List.mem_append, List.mem_cons, List.not_mem_nil, or_false] at hp
  rcases hp with hp | rfl | rfl
  · exact head_fields v2 _ _ _ _ b.id b.rtime b.duration (by simp [BinauralBlock.toObj]) (by simp [BinauralBlock.toObj])
      (by simp [BinauralBlock.toObj]) (by simp [blockDefaults]) (by simp [blockDefaults]) hv.rtime hv.duration p hp
  · exact gainV2_field v2 _ _ _ _ b.gain (by simp [BinauralBlock.toObj])
  · exact importanceV2_field v2 _ _ _ _ b.importance (by simp [BinauralBlock.toObj]) (by simp [blockDefaults])

/-- **AudioBlockFormatBinaural, class level** -/
theorem binauralBlock_roundtrip (v2 : Bool) (name : String) (b : BinauralBlock) (hv : BinauralValid v2 b) :
    parse (binauralPs v2) blockDefaults (toXml (binauralPs v2) name b.toObj) = some b.toObj ∧
    (parse (binauralPs v2) blockDefaults (toXml (binauralPs v2) name b.toObj)).map (toXml (binauralPs v2) name)
      = some (toXml (binauralPs v2) name b.toObj) := by
  refine codec_roundtrip_full (binauralPs v2) name b.toObj blockDefaults
    ⟨binaural_keys v2, binaural_fields v2 name b hv⟩ ?_ ?_
  · intro p hp hc
    simp only [binauralPs, blockHead, List.mem_append, List.mem_cons, List.not_mem_nil, or_false] at hp
    rcases hp with (rfl | rfl | rfl) | rfl | rfl
    · simp [Property.isCustom] at hc
    · simp [Property.isCustom] at hc
    · simp [Property.isCustom] at hc
    · exact gainV2_eff v2 _ _ b.gain (by simp [BinauralBlock.toObj]) (by simp [blockDefaults])
    · cases v2
      · intro a ha; simp [importanceV2, Property.ownArgs, noV2Impl] at ha
      · simp [importanceV2, Property.isCustom] at hc
  · intro a ha
    cases v2
    · obtain ⟨hg, hi⟩ := hv.v1 rfl
      simp only [allArgs, binauralPs, blockHead, gainElemV2, importanceV2, Property.ownArgs, noV2Impl,
        List.flatMap_cons, List.flatMap_nil, Bool.false_eq_true, if_false, List.cons_append,
        List.nil_append, List.append_nil, List.mem_cons, List.not_mem_nil, or_false, not_or] at ha
      by_cases h1 : a = "gain"
      · subst h1; simp [BinauralBlock.toObj, blockDefaults, hg]
      · by_cases h2 : a = "importance"
        · subst h2; simp [BinauralBlock.toObj, blockDefaults, hi]
        · simp [BinauralBlock.toObj, blockDefaults, ha, h1, h2]
    · simp only [allArgs, binauralPs, blockHead, gainElemV2, importanceV2, Property.ownArgs, gainImpl,
        List.flatMap_cons, List.flatMap_nil, Bool.false_eq_true, if_false, if_true,
        List.cons_append, List.nil_append, List.append_nil, List.mem_cons, List.not_mem_nil, or_false, not_or] at ha
      simp [BinauralBlock.toObj, blockDefaults, ha]

theorem binaural_ofObj (b : BinauralBlock) : BinauralBlock.ofObj b.toObj = some b := by
  simp [BinauralBlock.ofObj, BinauralBlock.toObj, getStr, getNum, getInt, get_optTime]


/-- non-vacuity -/
example : BinauralValid true ⟨"AB_00051001_00000001", none, none, 50000, 3⟩ ∧
    BinauralValid false ⟨"AB_00051001_00000001", none, none, 100000, 10⟩ :=
  ⟨⟨fun _ h => by simp at h, fun _ h => by simp at h, fun h => by simp at h⟩,
   ⟨fun _ h => by simp at h, fun _ h => by simp at h, fun _ => ⟨rfl, rfl⟩⟩⟩

/-! ### HOA -/

structure HoaValid (v2 : Bool) (b : HoaBlock) : Prop where
  rtime : TimeOK v2 b.rtime
  duration : TimeOK v2 b.duration
  v1 : V1Default v2 b.gain b.importance

theorem hoa_keys (v2 : Bool) : KeysOK (hoaPs v2) := by
  cases v2 <;> refine ⟨?_, ?_, ?_, ?_⟩ <;>
    simp [hoaPs, blockHead, gainElemV2, importanceV2, Property.attrKeys, Property.elemNames, allArgs,
      Property.ownArgs, Property.textHandler?, gainImpl, noV2Impl]

theorem hoa_fields (v2 : Bool) (name : String) (b : HoaBlock) (hv : HoaValid v2 b) :
    ∀ p ∈ hoaPs v2, FieldOK (hoaPs v2) (toXml (hoaPs v2) name b.toObj) b.toObj blockDefaults p := by
  intro p hp
  simp only [hoaPs, List.mem_append, List.mem_cons, List.not_mem_nil, or_false] at hp
  rcases hp with hp | rfl | rfl | rfl | rfl | rfl | rfl | rfl | rfl
  · exact head_fields v2 _ _ _ _ b.id b.rtime b.duration (by simp [HoaBlock.toObj]) (by simp [HoaBlock.toObj])
      (by simp [HoaBlock.toObj]) (by simp [blockDefaults]) (by simp [blockDefaults]) hv.rtime hv.duration p hp
  · exact Or.inr ⟨rfl, scalar_optStr _ _ _ b.equation (by simp [HoaBlock.toObj]) (by simp [blockDefaults])⟩
  · exact Or.inr ⟨rfl, scalar_optInt _ _ _ b.order (by simp [HoaBlock.toObj]) (by simp [blockDefaults])⟩
  · exact Or.inr ⟨rfl, scalar_optInt _ _ _ b.degree (by simp [HoaBlock.toObj]) (by simp [blockDefaults])⟩
  · exact Or.inr ⟨rfl, scalar_optStr _ _ _ b.normalization (by simp [HoaBlock.toObj]) (by simp [blockDefaults])⟩
  · exact Or.inr ⟨rfl, scalar_optNum _ _ _ b.nfcRefDist (by simp [HoaBlock.toObj]) (by simp [blockDefaults])⟩
  · exact Or.inr ⟨rfl, scalar_optBool _ _ _ b.screenRef (by simp [HoaBlock.toObj]) (by simp [blockDefaults])⟩
  · exact gainV2_field v2 _ _ _ _ b.gain (by simp [HoaBlock.toObj])
  · exact importanceV2_field v2 _ _ _ _ b.importance (by simp [HoaBlock.toObj]) (by simp [blockDefaults])

/-- **AudioBlockFormatHoa, class level** -/
theorem hoaBlock_roundtrip (v2 : Bool) (name : String) (b : HoaBlock) (hv : HoaValid v2 b) :
    parse (hoaPs v2) blockDefaults (toXml (hoaPs v2) name b.toObj) = some b.toObj ∧
    (parse (hoaPs v2) blockDefaults (toXml (hoaPs v2) name b.toObj)).map (toXml (hoaPs v2) name)
      = some (toXml (hoaPs v2) name b.toObj) := by
  refine codec_roundtrip_full (hoaPs v2) name b.toObj blockDefaults ⟨hoa_keys v2, hoa_fields v2 name b hv⟩ ?_ ?_
  · intro p hp hc
    simp only [hoaPs, blockHead, List.mem_append, List.mem_cons, List.not_mem_nil, or_false] at hp
    rcases hp with (rfl | rfl | rfl) | rfl | rfl | rfl | rfl | rfl | rfl | rfl | rfl
    any_goals (simp [Property.isCustom] at hc; done)
    · exact gainV2_eff v2 _ _ b.gain (by simp [HoaBlock.toObj]) (by simp [blockDefaults])
    · cases v2
      · intro a ha; simp [importanceV2, Property.ownArgs, noV2Impl] at ha
      · simp [importanceV2, Property.isCustom] at hc
  · intro a ha
    cases v2
    · obtain ⟨hg, hi⟩ := hv.v1 rfl
      simp only [allArgs, hoaPs, blockHead, gainElemV2, importanceV2, Property.ownArgs, noV2Impl,
        List.flatMap_cons, List.flatMap_nil, Bool.false_eq_true, if_false, List.cons_append,
        List.nil_append, List.append_nil, List.mem_cons, List.not_mem_nil, or_false, not_or] at ha
      by_cases h1 : a = "gain"
      · subst h1; simp [HoaBlock.toObj, blockDefaults, hg]
      · by_cases h2 : a = "importance"
        · subst h2; simp [HoaBlock.toObj, blockDefaults, hi]
        · simp [HoaBlock.toObj, blockDefaults, ha, h1, h2]
    · simp only [allArgs, hoaPs, blockHead, gainElemV2, importanceV2, Property.ownArgs, gainImpl,
        List.flatMap_cons, List.flatMap_nil, Bool.false_eq_true, if_false, if_true,
        List.cons_append, List.nil_append, List.append_nil, List.mem_cons, List.not_mem_nil, or_false, not_or] at ha
      simp [HoaBlock.toObj, blockDefaults, ha]

theorem hoa_ofObj (b : HoaBlock) : HoaBlock.ofObj b.toObj = some b := by
  simp [HoaBlock.ofObj, HoaBlock.toObj, getStr, getNum, getInt, get_optTime, get_optStrV, get_optIntV, get_optNumV,
    get_optBoolV]

example : HoaValid true ⟨"AB_00041001_00000001", none, none, some "eq", some 1, some (-1), some "SN3D", some 200000,
    some true, 50000, 3⟩ :=
  ⟨fun _ h => by simp at h, fun _ h => by simp at h, fun h => by simp at h⟩

/-! ### DirectSpeakers -/

theorem dumpBound_tag (c : String) (b : Bound) (s : Option String) :
    ∀ x ∈ dumpBound c b s, x.tag = outName "position" := by
  intro x hx
  simp only [dumpBound, List.mem_append, List.mem_singleton] at hx
  rcases hx with (rfl | hx) | hx
  · rfl
  · split at hx <;> simp at hx; subst hx; rfl
  · split at hx <;> simp at hx; subst hx; rfl

theorem speakerPositionToXml_tag (p : SpeakerPosition) : ∀ x ∈ speakerPositionToXml p, x.tag = outName "position" := by
  intro x hx
  cases p with
  | polar az el di sel =>
    simp only [speakerPositionToXml, List.mem_append] at hx
    rcases hx with (hx | hx) | hx
    · exact dumpBound_tag _ _ _ x hx
    · exact dumpBound_tag _ _ _ x hx
    · split at hx
      · exact dumpBound_tag _ _ _ x hx
      · cases hx
  | cartesian a b c sel =>
    simp only [speakerPositionToXml, List.mem_append] at hx
    rcases hx with (hx | hx) | hx <;> exact dumpBound_tag _ _ _ x hx

theorem speakerPositionToXml_ne (p : SpeakerPosition) : (speakerPositionToXml p).isEmpty = false := by
  cases p <;> simp [speakerPositionToXml, dumpBound]

structure DSValid (v2 : Bool) (b : DirectSpeakersBlock) : Prop where
  sel : SelOK b.position.sel
  rtime : TimeOK v2 b.rtime
  duration : TimeOK v2 b.duration
  v1 : V1Default v2 b.gain b.importance

theorem ds_keys (v2 : Bool) : KeysOK (dsPs v2) := by
  cases v2 <;> refine ⟨?_, ?_, ?_, ?_⟩ <;>
    simp [dsPs, blockHead, gainElemV2, importanceV2, Property.attrKeys, Property.elemNames, allArgs,
      Property.ownArgs, Property.textHandler?, gainImpl, noV2Impl, speakerImpl, xpathImpl]

theorem ds_tags (v2 : Bool) : ∀ q ∈ dsPs v2, TagsOK q := by
  intro q hq
  simp only [dsPs, List.mem_append, List.mem_cons, List.not_mem_nil, or_false] at hq
  rcases hq with hq | rfl | rfl | rfl | rfl
  · exact head_tags v2 q hq
  · exact tagsOK_listElement _ _ _ _ _
  · exact tagsOK_generic _ _ _ (tags_xpath _ _ _ _ (fun v x hx => by
      split at hx
      · exact speakerPositionToXml_tag _ x hx
      · cases hx))
  · exact gainV2_tags v2
  · exact importanceV2_tags v2

theorem ds_fields (v2 : Bool) (name : String) (b : DirectSpeakersBlock) (hv : DSValid v2 b) :
    ∀ p ∈ dsPs v2, FieldOK (dsPs v2) (toXml (dsPs v2) name b.toObj) b.toObj dsDefaults p := by
  intro p hp
  simp only [dsPs, List.mem_append, List.mem_cons, List.not_mem_nil, or_false] at hp
  rcases hp with hp | rfl | rfl | rfl | rfl
  · exact head_fields v2 _ _ _ _ b.id b.rtime b.duration (by simp [DirectSpeakersBlock.toObj])
      (by simp [DirectSpeakersBlock.toObj]) (by simp [DirectSpeakersBlock.toObj]) (by simp [dsDefaults, blockDefaults])
      (by simp [dsDefaults, blockDefaults]) hv.rtime hv.duration p hp
  · exact list_strs _ _ _ _ _ _ b.speakerLabel (by simp [DirectSpeakersBlock.toObj]) (by simp [dsDefaults])
  · have hv0 : b.toObj "position" = .one (.spos b.position) := by simp [DirectSpeakersBlock.toObj]
    have hx := xpath_own (dsPs v2) name b.toObj
      (blockHead v2 ++ [.listElement "speakerLabel" "speakerLabel" (liftCodec stringCodec) false false])
      [gainElemV2 v2, importanceV2 v2] (.genericElement none false speakerImpl) "position"
      (by simp [dsPs]) (ds_tags v2)
      (fun x hx => by
        simp only [Property.childrenOut, speakerImpl, xpathImpl, hv0] at hx
        exact speakerPositionToXml_tag _ x hx)
      (by cases v2 <;> simp [outNames, blockHead, gainElemV2, importanceV2])
    simp only [Property.childrenOut, speakerImpl, xpathImpl, hv0] at hx
    refine fieldOK_xpath _ _ _ _ _ _ _ _ _ hv0 (fun x hx => speakerPositionToXml_tag _ x hx) ?_ hx ?_
    · cases v2 <;>
        simp [lookupElem, dsPs, blockHead, gainElemV2, importanceV2, Property.elemHandler?, matchesName, outName]
    · simp [speakerPosition_roundtrip b.position hv.sel, speakerPositionToXml_ne]
  · exact gainV2_field v2 _ _ _ _ b.gain (by simp [DirectSpeakersBlock.toObj])
  · exact importanceV2_field v2 _ _ _ _ b.importance (by simp [DirectSpeakersBlock.toObj])
      (by simp [dsDefaults, blockDefaults])

/-- **AudioBlockFormatDirectSpeakers, class level** -/
theorem directSpeakersBlock_roundtrip (v2 : Bool) (name : String) (b : DirectSpeakersBlock) (hv : DSValid v2 b) :
    parse (dsPs v2) dsDefaults (toXml (dsPs v2) name b.toObj) = some b.toObj ∧
    (parse (dsPs v2) dsDefaults (toXml (dsPs v2) name b.toObj)).map (toXml (dsPs v2) name)
      = some (toXml (dsPs v2) name b.toObj) := by
  refine codec_roundtrip_full (dsPs v2) name b.toObj dsDefaults ⟨ds_keys v2, ds_fields v2 name b hv⟩ ?_ ?_
  · intro p hp hc
    simp only [dsPs, blockHead, List.mem_append, List.mem_cons, List.not_mem_nil, or_false] at hp
    rcases hp with (rfl | rfl | rfl) | rfl | rfl | rfl | rfl
    any_goals (simp [Property.isCustom] at hc; done)
    · exact customEff_xpath _ _ _ _ _ _ _ _ (.spos b.position) (by simp [DirectSpeakersBlock.toObj])
        (fun hw => by have := speakerPositionToXml_ne b.position; simp [hw] at this)
    · exact gainV2_eff v2 _ _ b.gain (by simp [DirectSpeakersBlock.toObj]) (by simp [dsDefaults, blockDefaults])
    · cases v2
      · intro a ha; simp [importanceV2, Property.ownArgs, noV2Impl] at ha
      · simp [importanceV2, Property.isCustom] at hc
  · intro a ha
    cases v2
    · obtain ⟨hg, hi⟩ := hv.v1 rfl
      simp only [allArgs, dsPs, blockHead, gainElemV2, importanceV2, Property.ownArgs, noV2Impl, speakerImpl, xpathImpl,
        List.flatMap_cons, List.flatMap_nil, Bool.false_eq_true, if_false, List.cons_append,
        List.nil_append, List.append_nil, List.mem_cons, List.not_mem_nil, or_false, not_or] at ha
      by_cases h1 : a = "gain"
      · subst h1; simp [DirectSpeakersBlock.toObj, dsDefaults, blockDefaults, hg]
      · by_cases h2 : a = "importance"
        · subst h2; simp [DirectSpeakersBlock.toObj, dsDefaults, blockDefaults, hi]
        · simp [DirectSpeakersBlock.toObj, dsDefaults, blockDefaults, ha, h1, h2]
    · simp only [allArgs, dsPs, blockHead, gainElemV2, importanceV2, Property.ownArgs, gainImpl, speakerImpl, xpathImpl,
        List.flatMap_cons, List.flatMap_nil, Bool.false_eq_true, if_false, if_true,
        List.cons_append, List.nil_append, List.append_nil, List.mem_cons, List.not_mem_nil, or_false, not_or] at ha
      simp [DirectSpeakersBlock.toObj, dsDefaults, blockDefaults, ha]

theorem getStrs_map (ss : List String) : getStrs (.many (ss.map fun s => .leaf (.str s))) = some ss := by
  simp only [getStrs]
  induction ss with
  | nil => rfl
  | cons s ss ih => simp [List.mapM_cons, strOf, ih]

theorem ds_ofObj (b : DirectSpeakersBlock) : DirectSpeakersBlock.ofObj b.toObj = some b := by
  simp [DirectSpeakersBlock.ofObj, DirectSpeakersBlock.toObj, getStr, getNum, getInt, get_optTime, getStrs_map]

example : DSValid true ⟨"AB_00011001_00000001", none, none, ["M+030"],
    .polar ⟨3000000, some 2500000, some 3500000⟩ ⟨0, none, none⟩ ⟨100000, none, none⟩ ⟨none, none⟩, 50000, 3⟩ :=
  ⟨⟨Or.inl rfl, Or.inl rfl⟩, fun _ h => by simp at h, fun _ h => by simp at h, fun h => by simp at h⟩

/-! ### Matrix -/

structure MatrixValid (v2 : Bool) (b : MatrixBlock) : Prop where
  rtime : TimeOK v2 b.rtime
  duration : TimeOK v2 b.duration
  v1 : V1Default v2 b.gain b.importance

theorem matrix_keys (v2 : Bool) : KeysOK (matrixPs v2) := by
  cases v2 <;> refine ⟨?_, ?_, ?_, ?_⟩ <;>
    simp [matrixPs, blockHead, gainElemV2, importanceV2, Property.attrKeys, Property.elemNames, allArgs,
      Property.ownArgs, Property.textHandler?, gainImpl, noV2Impl, matrixImpl, singleImpl]

theorem matrix_fields (v2 : Bool) (name : String) (b : MatrixBlock) (hv : MatrixValid v2 b) :
    ∀ p ∈ matrixPs v2, FieldOK (matrixPs v2) (toXml (matrixPs v2) name b.toObj) b.toObj matrixDefaults p := by
  intro p hp
  simp only [matrixPs, List.mem_append, List.mem_cons, List.not_mem_nil, or_false] at hp
  rcases hp with hp | rfl | rfl | rfl | rfl | rfl
  · exact head_fields v2 _ _ _ _ b.id b.rtime b.duration (by simp [MatrixBlock.toObj])
      (by simp [MatrixBlock.toObj]) (by simp [MatrixBlock.toObj]) (by simp [matrixDefaults, blockDefaults])
      (by simp [matrixDefaults, blockDefaults]) hv.rtime hv.duration p hp
  · exact Or.inr ⟨rfl, scalar_optStr _ _ _ b.outputChannelFormat (by simp [MatrixBlock.toObj])
      (by simp [matrixDefaults, blockDefaults])⟩
  · exact Or.inl ⟨rfl, rfl⟩
  · refine fieldOK_single _ _ _ _ _ _ _ _ _ (.coeffs b.matrix) (by simp [MatrixBlock.toObj]) ?_ ?_
    · intro x hx; simp at hx; subst hx; rfl
    · right
      exact ⟨_, rfl, by simp [matrix_read]⟩
  · exact gainV2_field v2 _ _ _ _ b.gain (by simp [MatrixBlock.toObj])
  · exact importanceV2_field v2 _ _ _ _ b.importance (by simp [MatrixBlock.toObj])
      (by simp [matrixDefaults, blockDefaults])

/-- **AudioBlockFormatMatrix, class level**: output channel reference, any list of coefficients (each with input
channel reference, gain / phase / delay or their `*Var` forms) -/
theorem matrixBlock_roundtrip (v2 : Bool) (name : String) (b : MatrixBlock) (hv : MatrixValid v2 b) :
    parse (matrixPs v2) matrixDefaults (toXml (matrixPs v2) name b.toObj) = some b.toObj ∧
    (parse (matrixPs v2) matrixDefaults (toXml (matrixPs v2) name b.toObj)).map (toXml (matrixPs v2) name)
      = some (toXml (matrixPs v2) name b.toObj) := by
  refine codec_roundtrip_full (matrixPs v2) name b.toObj matrixDefaults ⟨matrix_keys v2, matrix_fields v2 name b hv⟩ ?_ ?_
  · intro p hp hc
    simp only [matrixPs, blockHead, List.mem_append, List.mem_cons, List.not_mem_nil, or_false] at hp
    rcases hp with (rfl | rfl | rfl) | rfl | rfl | rfl | rfl | rfl
    any_goals (simp [Property.isCustom] at hc; done)
    · exact customEff_single _ _ _ _ _ _ _ _ (.coeffs b.matrix) (by simp [MatrixBlock.toObj]) (fun hw => by simp at hw)
    · exact gainV2_eff v2 _ _ b.gain (by simp [MatrixBlock.toObj]) (by simp [matrixDefaults, blockDefaults])
    · cases v2
      · intro a ha; simp [importanceV2, Property.ownArgs, noV2Impl] at ha
      · simp [importanceV2, Property.isCustom] at hc
  · intro a ha
    cases v2
    · obtain ⟨hg, hi⟩ := hv.v1 rfl
      simp only [allArgs, matrixPs, blockHead, gainElemV2, importanceV2, Property.ownArgs, noV2Impl, matrixImpl,
        singleImpl, List.flatMap_cons, List.flatMap_nil, Bool.false_eq_true, if_false, if_true, List.cons_append,
        List.nil_append, List.append_nil, List.mem_cons, List.not_mem_nil, or_false, not_or] at ha
      by_cases h1 : a = "gain"
      · subst h1; simp [MatrixBlock.toObj, matrixDefaults, blockDefaults, hg]
      · by_cases h2 : a = "importance"
        · subst h2; simp [MatrixBlock.toObj, matrixDefaults, blockDefaults, hi]
        · simp [MatrixBlock.toObj, matrixDefaults, blockDefaults, ha, h1, h2]
    · simp only [allArgs, matrixPs, blockHead, gainElemV2, importanceV2, Property.ownArgs, gainImpl, matrixImpl,
        singleImpl, List.flatMap_cons, List.flatMap_nil, Bool.false_eq_true, if_false, if_true,
        List.cons_append, List.nil_append, List.append_nil, List.mem_cons, List.not_mem_nil, or_false, not_or] at ha
      simp [MatrixBlock.toObj, matrixDefaults, blockDefaults, ha]

theorem matrix_ofObj (b : MatrixBlock) : MatrixBlock.ofObj b.toObj = some b := by
  simp [MatrixBlock.ofObj, MatrixBlock.toObj, getStr, getNum, getInt, get_optTime, get_optStrV]

example : MatrixValid true ⟨"AB_00021001_00000001", none, none, some "AC_00011001",
    [⟨"AC_00010001", some 50000, none, some 100000, none, some "phi", none⟩, ⟨"AC_00010002", none, none, none, some "g", none, none⟩],
    100000, 10⟩ :=
  ⟨fun _ h => by simp at h, fun _ h => by simp at h, fun h => by simp at h⟩

/-! ### Objects: the constructor on the object's own view -/

theorem objects_ofObj (b : ObjectsBlock) : ObjectsBlock.ofObj b.toObj = some b := by
  obtain ⟨id, rt, du, pos, cl, jp, dv, w, h, d, df, c, sr, z, g, im⟩ := b
  cases cl <;> cases dv <;>
    simp [ObjectsBlock.ofObj, ObjectsBlock.toObj, getStr, getNum, getInt, getBool, get_optTime]

end Earverif.XmlBlocks
