/-
C17 — Unfinished or truncated BW64 files are never misread.

Property theorems about the byte-level models (`unclosedFile`, `closedFile`, `readFile`).
-/
import Earverif.Proofs.C17

namespace Earverif.Bw64

/-- **C17 (unfinished files).**  The buffer left behind by a writer that was never closed — after any
history of `write` and setter calls, whatever chunks were given to the constructor or are still pending,
with fewer than 2^32 - 1 data bytes — is rejected by the reader: the `data` header still carries the
placeholder size `0xFFFFFFFF`, which ends after the end of the file. -/
theorem C17_unclosed (fmt : Fmt) (c0 : Option (List ChnaEntry)) (a0 b0 : Option Bytes) (force : Bool)
    (ops : List WOp) (hc0 : ChnaOK c0) (ha0 : BytesOK a0) (hb0 : BytesOK b0)
    (hdata : (dataOf ops).length < 2 ^ 32 - 1) :
    readFile (unclosedFile fmt c0 a0 b0 force ops) = .error .chunkEnd := by
  rw [unclosedFile_layout]
  generalize hfile : head0 fmt ++ (preB c0 a0 b0 ++ (idData ++ (ffff ++ dataOf ops))) = f
  have hds : ∀ d, (none : Option Ds64) = some d → d.table = [] := by intro d hd; cases hd
  have hf : f = (idRIFF ++ (ffff ++ idWAVE)) ++
      (encAll (junkC :: fmtC fmt :: preC c0 a0 b0) ++ (idData ++ (ffff ++ dataOf ops))) := by
    rw [← hfile, preB_eq hc0, head0, fmtChunk_eq, junkChunk_eq]; simp
  have hhead : readHead f = .ok (idRIFF, none, 12) :=
    readHead_riff (s4 := ffff)
      (rest := encAll (junkC :: fmtC fmt :: preC c0 a0 b0) ++ (idData ++ (ffff ++ dataOf ops))) (by rw [hf]; simp) rfl
  have hok : ∀ c ∈ junkC :: fmtC fmt :: preC c0 a0 b0, c.OK none := by
    intro c hc
    rcases List.mem_cons.1 hc with rfl | hc
    · exact junkC_ok
    · rcases List.mem_cons.1 hc with rfl | hc
      · exact fmtC_ok none hds fmt
      · exact preC_ok none hds hc0 ha0 hb0 c hc
  have hle := length_le_encAll _ (fun c hc => (hok c hc).idLen)
  have hfl : f.length = 12 + (encAll (junkC :: fmtC fmt :: preC c0 a0 b0)).length + 8 + (dataOf ops).length := by
    rw [hf]; simp [idRIFF, ffff, idWAVE, idData]; omega
  obtain ⟨fuel, hfuel⟩ : ∃ k, f.length + 1 = (junkC :: fmtC fmt :: preC c0 a0 b0).length + (k + 1) :=
    ⟨f.length - (junkC :: fmtC fmt :: preC c0 a0 b0).length, by omega⟩
  have hw := walk_chunks_then none _ hok _ f _ (fuel + 1) [] [] hf
  have h12 : (idRIFF ++ (ffff ++ idWAVE)).length = 12 := rfl
  rw [h12] at hw
  have hh := readChunkHeader_hdr (f := f) (pre := idRIFF ++ (ffff ++ idWAVE) ++ encAll (junkC :: fmtC fmt :: preC c0 a0 b0))
    (id := idData) (s4 := ffff) (rest := dataOf ops) none (by rw [hf]; simp) rfl rfl (by decide)
  rw [List.length_append, h12] at hh
  have hffff : fromLE ffff = 4294967295 := by decide
  have hh' : readChunkHeader f none (12 + (encAll (junkC :: fmtC fmt :: preC c0 a0 b0)).length) =
      .hdr idData 4294967295 := hh.trans (congrArg _ hffff)
  simp only [readFile, hhead, hfuel, hw]
  rw [readChunks_chunkEnd hh' (by omega) (by omega)]

/-! ### non-vacuity and concrete behaviour of the model on unfinished / truncated files -/

example : (dataOf [.write exData, .setBext (some exBext)]).length < 2 ^ 32 - 1 := by decide

set_option maxRecDepth 100000 in
/-- an unfinished file (odd axml at open, one write, bext pending) is rejected -/
example : readFile (unclosedFile exFmt none (some exAxml) none true [.write exData, .setBext (some exBext)])
    = .error .chunkEnd := by decide +kernel

/-- a finalised RIFF file: 12 + 36 + 24, axml 8+3+1 at open, data 8+9+1, bext 8+5+1 late: 116 bytes -/
def exFile : Bytes := closedFile exFmt none (some exAxml) none false [.write exData, .setBext (some exBext)]

set_option maxRecDepth 100000 in
example : exFile.length = 116 := by decide +kernel

set_option maxRecDepth 100000 in
/-- cut inside the late bext chunk: rejected; cut right after the data chunk's pad byte: accepted with the
original frames and without bext; cut before the data chunk's pad byte: accepted with a warning;
cut inside the data: rejected; cut inside the bext header: accepted without bext; cut inside the data header: rejected (no data chunk);
cut inside the RIFF header: rejected -/
example :
    readFile (exFile.take 110) = .error .chunkEnd ∧
    readFile (exFile.take 102) = .ok (⟨idRIFF, ⟨1, 3, 48000, 24⟩, 1, exData, none, some exAxml, none⟩, []) ∧
    readFile (exFile.take 101) = .ok (⟨idRIFF, ⟨1, 3, 48000, 24⟩, 1, exData, none, some exAxml, none⟩, [.dataPad]) ∧
    readFile (exFile.take 100) = .error .chunkEnd ∧
    readFile (exFile.take 106) = .ok (⟨idRIFF, ⟨1, 3, 48000, 24⟩, 1, exData, none, some exAxml, none⟩, []) ∧
    readFile (exFile.take 90) = .error .missingChunk ∧
    readFile (exFile.take 10) = .error .struct := by decide +kernel

end Earverif.Bw64
