"""C01 — generator of the property's quantifier (Objects metadata blocks x layouts) and the direct predicate.

A *case* is a JSON-serialisable dict (so every failing input is replayable):
  {"layout": name, "real": None | {channel name: [az, el]},
   "cartesian": bool, "position": [a, b, c], "edge": [horizontal|None, vertical|None],
   "width", "height", "depth", "diffuse", "gain", "screenRef",
   "lock": None | [maxDistance|None], "div": None | [value, azimuthRange|None, positionRange|None],
   "zones": [["p", minEl, maxEl, minAz, maxAz] | ["c", minX, minY, minZ, maxX, maxY, maxZ]],
   "ogain", "mute", "offset": None | [a, b, c], "refscreen": None | ["p", aspect, az, el, d, widthAz]
                                                             | ["c", aspect, x, y, z, widthX],
   "version": None | 1 | 2}
Everything is drawn inside the ADM value ranges (BS.2076): azimuth [-180,180], elevation [-90,90],
distance [0,1], X/Y/Z [-1,1], width/height [0,360] (polar) or [0,1] (Cartesian), depth [0,1], diffuse [0,1],
divergence [0,1], azimuthRange [0,180], positionRange [0,1], gains >= 0.
"""
import math
import warnings

import numpy as np

LAYOUTS = ["0+2+0", "0+5+0", "2+5+0", "4+5+0", "4+5+1", "3+7+0", "4+9+0", "9+10+3", "0+7+0", "4+7+0"]


# --------------------------------------------------------------------------------------
# building the real objects


def build_layout(name, real=None):
    from ear.core import bs2051
    from ear.core.geom import PolarPosition
    from ear.core.layout import RealLayout, Speaker

    lay = bs2051.get_layout(name)
    if real:
        speakers = [
            Speaker(channel=i, names=[c.name], polar_position=PolarPosition(real[c.name][0], real[c.name][1], 1.0))
            for i, c in enumerate(lay.channels)
            if c.name in real
        ]
        # channels not listed keep nominal positions; with_speakers needs every channel index present
        listed = {s.names[0] for s in speakers}
        speakers += [Speaker(channel=i, names=[c.name]) for i, c in enumerate(lay.channels) if c.name not in listed]
        lay, _upmix = lay.with_real_layout(RealLayout(speakers=speakers, screen=lay.screen))
        errs = []
        lay.check_positions(callback=errs.append)
        if errs:
            raise AssertionError("generator produced a layout outside the permitted ranges: %r" % (errs,))
    return lay


def build_meta(case):
    from ear.common import CartesianScreen, PolarScreen
    from ear.core.geom import CartesianPosition, PolarPosition
    from ear.core.metadata_input import ExtraData, ObjectTypeMetadata
    from ear.fileio.adm.elements import (
        AudioBlockFormatObjects,
        CartesianPositionOffset,
        CartesianZone,
        ChannelLock,
        ObjectCartesianPosition,
        ObjectDivergence,
        ObjectPolarPosition,
        PolarPositionOffset,
        PolarZone,
        ScreenEdgeLock,
    )
    from ear.fileio.adm.elements.version import BS2076Version

    a, b, c = (float(x) for x in case["position"])
    edge = ScreenEdgeLock(horizontal=case["edge"][0], vertical=case["edge"][1])
    # polar coordinates are used with cartesian=False and X/Y/Z with cartesian=True (the combinations the
    # standard defines; gain_calc.coord_trans is keyed on the position type)
    if case["cartesian"]:
        pos = ObjectCartesianPosition(X=a, Y=b, Z=c, screenEdgeLock=edge)
    else:
        pos = ObjectPolarPosition(azimuth=a, elevation=b, distance=c, screenEdgeLock=edge)
    zones = []
    for z in case["zones"]:
        if z[0] == "p":
            zones.append(PolarZone(minElevation=z[1], maxElevation=z[2], minAzimuth=z[3], maxAzimuth=z[4]))
        else:
            zones.append(CartesianZone(minX=z[1], minY=z[2], minZ=z[3], maxX=z[4], maxY=z[5], maxZ=z[6]))
    div = None
    if case["div"] is not None:
        div = ObjectDivergence(case["div"][0], azimuthRange=case["div"][1], positionRange=case["div"][2])
    lock = None if case["lock"] is None else ChannelLock(maxDistance=case["lock"][0])
    bf = AudioBlockFormatObjects(
        position=pos,
        cartesian=case["cartesian"],
        width=case["width"],
        height=case["height"],
        depth=case["depth"],
        diffuse=case["diffuse"],
        gain=case["gain"],
        channelLock=lock,
        objectDivergence=div,
        screenRef=case["screenRef"],
        zoneExclusion=zones,
    )
    kw = dict(object_gain=float(case["ogain"]), object_mute=bool(case["mute"]))
    if case["offset"] is not None:
        o = [float(x) for x in case["offset"]]
        kw["object_positionOffset"] = (
            CartesianPositionOffset(X=o[0], Y=o[1], Z=o[2])
            if case["cartesian"]
            else PolarPositionOffset(azimuth=o[0], elevation=o[1], distance=o[2])
        )
    rs = case["refscreen"]
    if rs is not None:
        if rs[0] == "p":
            kw["reference_screen"] = PolarScreen(
                aspectRatio=rs[1], centrePosition=PolarPosition(rs[2], rs[3], rs[4]), widthAzimuth=rs[5]
            )
        else:
            kw["reference_screen"] = CartesianScreen(
                aspectRatio=rs[1], centrePosition=CartesianPosition(rs[2], rs[3], rs[4]), widthX=rs[5]
            )
    if case["version"] is not None:
        kw["document_version"] = BS2076Version(case["version"])
    return ObjectTypeMetadata(block_format=bf, extra_data=ExtraData(**kw))


_GC = {}


def gain_calc(layout_name, real=None):
    """GainCalc per layout (cached; construction costs ~1 s because of the spreading panner)."""
    from ear.core.objectbased.gain_calc import GainCalc

    key = (layout_name, repr(sorted(real.items())) if real else None)
    if key not in _GC:
        lay = build_layout(layout_name, real)
        _GC[key] = (GainCalc(lay), lay)
        if len(_GC) > 40:
            _GC.pop(next(iter(_GC)))
    return _GC[key]


# --------------------------------------------------------------------------------------
# generator


def _snap(rng, lo, hi, specials, p_special=0.35):
    if rng.random() < p_special:
        return float(rng.choice(specials))
    return round(rng.uniform(lo, hi), rng.choice([0, 1, 3, 6]))


def gen_case(rng, layout_name, real=None, boundary=False):
    cart = rng.random() < 0.45
    case = {"layout": layout_name, "real": real, "cartesian": cart}
    pb = 0.7 if boundary else 0.35
    if cart:
        sp = [-1.0, 0.0, 1.0, 0.5, -0.5]
        case["position"] = [_snap(rng, -1, 1, sp, pb) for _ in range(3)]
    else:
        case["position"] = [
            _snap(rng, -180, 180, [0.0, 30.0, -30.0, 90.0, -90.0, 110.0, -110.0, 180.0, -180.0, 135.0, 45.0], pb),
            _snap(rng, -90, 90, [0.0, 30.0, -30.0, 90.0, -90.0, 45.0, 89.999999, -89.999999], pb),
            _snap(rng, 0, 1, [1.0, 1.0, 1.0, 0.0, 0.5, 1e-9], 0.6 if not boundary else 0.8),
        ]
    case["edge"] = [None, None]
    if rng.random() < 0.15:
        case["edge"] = [rng.choice([None, "left", "right"]), rng.choice([None, "top", "bottom"])]
    # extent
    for k in ("width", "height", "depth"):
        case[k] = 0.0
    if rng.random() < 0.45:
        if cart:
            sp = [0.0, 0.0, 0.1, 0.2, 0.5, 1.0, 0.01]
            case["width"] = _snap(rng, 0, 1, sp)
            case["height"] = _snap(rng, 0, 1, sp)
            case["depth"] = _snap(rng, 0, 1, sp)
        else:
            sp = [0.0, 0.0, 5.0, 10.0, 360.0, 180.0, 90.0, 1e-9, 9.999999]
            case["width"] = _snap(rng, 0, 360, sp, 0.6)
            case["height"] = _snap(rng, 0, 360, sp, 0.6)
            case["depth"] = _snap(rng, 0, 1, [0.0, 0.0, 0.0, 1.0, 0.5, 2.0 * case["position"][2]], 0.7)
            case["depth"] = min(max(case["depth"], 0.0), 1.0)
    case["diffuse"] = _snap(rng, 0, 1, [0.0, 0.0, 1.0, 0.5], 0.6)
    case["gain"] = float(rng.choice([1.0, 1.0, 0.5, 2.0, round(10 ** rng.uniform(-3, 1), 4)]))
    case["ogain"] = float(rng.choice([1.0, 1.0, 1.0, 0.25, 3.0, round(10 ** rng.uniform(-3, 1), 4)]))
    if rng.random() < 0.03:
        case[rng.choice(["gain", "ogain"])] = 0.0
    case["mute"] = rng.random() < 0.08
    case["screenRef"] = rng.random() < 0.2
    case["lock"] = None
    if rng.random() < 0.2:
        case["lock"] = [rng.choice([None, None, 0.0, 0.1, 0.5, 1.0, 2.0, round(rng.uniform(0, 2), 3)])]
    case["div"] = None
    if rng.random() < 0.35:
        v = float(rng.choice([0.0, 0.5, 1.0, 1.0, 0.5, round(rng.uniform(0, 1), 3), 1e-9]))
        ar = rng.choice([None, 0.0, 30.0, 45.0, 90.0, 180.0, round(rng.uniform(0, 180), 2)])
        pr = rng.choice([None, 0.0, 0.5, 1.0, round(rng.uniform(0, 1), 3)])
        # the attribute of the other coordinate system only produces a warning; mostly leave it out
        if cart and rng.random() < 0.9:
            ar = None
        if not cart and rng.random() < 0.9:
            pr = None
        case["div"] = [v, ar, pr]
    zones = []
    if rng.random() < 0.3:
        for _ in range(rng.choice([1, 1, 1, 2, 3])):
            if rng.random() < 0.55:
                k = rng.random()
                if k < 0.25:  # a whole layer
                    el = rng.choice([0.0, 30.0, -30.0, 90.0, 45.0])
                    zones.append(["p", el, el, -180.0, 180.0])
                elif k < 0.5:  # elevation band
                    lo = rng.choice([-90.0, -30.0, -10.0, 0.0, 10.0, 30.0])
                    hi = rng.choice([x for x in [-30.0, 0.0, 10.0, 30.0, 45.0, 90.0] if x >= lo])
                    zones.append(["p", lo, hi, -180.0, 180.0])
                elif k < 0.75:  # azimuth sector, all elevations (anticlockwise from min to max)
                    a0 = rng.choice([-180.0, -135.0, -110.0, -90.0, -30.0, 0.0, 30.0, 90.0, 110.0])
                    a1 = rng.choice([-110.0, -30.0, 0.0, 30.0, 90.0, 110.0, 135.0, 180.0])
                    zones.append(["p", -90.0, 90.0, a0, a1])
                else:
                    lo, hi = sorted([round(rng.uniform(-90, 90), 1), round(rng.uniform(-90, 90), 1)])
                    zones.append(["p", lo, hi, round(rng.uniform(-180, 180), 1), round(rng.uniform(-180, 180), 1)])
            else:
                k = rng.random()
                if k < 0.5:  # a half space / slab
                    z = ["c", -1.0, -1.0, -1.0, 1.0, 1.0, 1.0]
                    ax = rng.randrange(3)
                    if rng.random() < 0.5:
                        z[1 + ax] = rng.choice([-0.5, 0.0, 0.5, 0.9])
                    else:
                        z[4 + ax] = rng.choice([-0.9, -0.5, 0.0, 0.5])
                    zones.append(z)
                else:
                    lo = [round(rng.uniform(-1, 1), 2) for _ in range(3)]
                    hi = [round(rng.uniform(l, 1), 2) for l in lo]
                    zones.append(["c"] + lo + hi)
    case["zones"] = zones
    case["offset"] = None
    if rng.random() < 0.12:
        if cart:
            case["offset"] = [round(rng.uniform(-0.5, 0.5), 2) for _ in range(3)]
        else:
            case["offset"] = [round(rng.uniform(-60, 60), 1), round(rng.uniform(-30, 30), 1), round(rng.uniform(-0.3, 0.3), 2)]
    case["refscreen"] = None
    if case["screenRef"] and rng.random() < 0.6:
        if rng.random() < 0.7:
            case["refscreen"] = ["p", rng.choice([1.78, 1.33, 2.35]), round(rng.uniform(-20, 20), 1),
                                 round(rng.uniform(-10, 10), 1), 1.0, round(rng.uniform(20, 80), 1)]
        else:
            case["refscreen"] = ["c", rng.choice([1.78, 1.33]), round(rng.uniform(-0.2, 0.2), 2), 1.0,
                                 round(rng.uniform(-0.1, 0.1), 2), round(rng.uniform(0.4, 1.2), 2)]
    case["version"] = rng.choice([None, None, 1, 2])
    return case


def complement_zone_cases(layout_name, real=None):
    """Deterministic: Cartesian blocks whose zone list boxes in every loudspeaker but one (so the allocentric row rule
    of `get_excluded` decides between 'one loudspeaker left' and 'nothing left: ignore the exclusion'), and every
    loudspeaker but two; point and sized objects. (Seed C01_6: the all-excluded reset tested before the row rule.)"""
    from ear.core import bs2051, allocentric
    lay = bs2051.get_layout(layout_name).without_lfe
    # Cartesian zones are tested against the NOMINAL unit-sphere positions (ZoneExclusionHandler.positions); the row
    # rule then works on the allocentric positions of the same loudspeakers
    pos = [[float(x) for x in p] for p in lay.nominal_positions]
    base = {
        "layout": layout_name, "real": real, "cartesian": True, "position": [0.3, 0.2, 0.0], "edge": [None, None],
        "width": 0.0, "height": 0.0, "depth": 0.0, "diffuse": 0.0, "gain": 0.5, "screenRef": False, "lock": None,
        "div": None, "zones": [], "ogain": 2.0, "mute": False, "offset": None, "refscreen": None, "version": None,
    }

    def box(p):
        lo = [max(-1.0, round(v - 0.01, 4)) for v in p]
        hi = [min(1.0, round(v + 0.01, 4)) for v in p]
        return ["c"] + lo + hi

    out = []
    n = len(pos)
    keeps = [(k,) for k in range(n)] + [(k, (k + 1) % n) for k in range(n)]
    for i, keep in enumerate(keeps):
        zones = [box(p) for j, p in enumerate(pos) if j not in keep]
        size = 0.3 if i % 2 else 0.0
        out.append(dict(base, zones=zones, width=size, height=size, depth=size,
                        position=[0.3, 0.2, 0.0] if i % 3 else [-0.5, 0.75, 0.25]))
    return out


def boundary_cases(layout_name, real=None):
    """Deterministic boundary blocks: distance 0, poles, cube faces/corners/centre, extent 0/5/10/360,
    divergence 0/0.5/1, diffuse 0/1, with and without zones."""
    base = {
        "layout": layout_name, "real": real, "cartesian": False, "position": [0.0, 0.0, 1.0], "edge": [None, None],
        "width": 0.0, "height": 0.0, "depth": 0.0, "diffuse": 0.0, "gain": 1.0, "screenRef": False, "lock": None,
        "div": None, "zones": [], "ogain": 1.0, "mute": False, "offset": None, "refscreen": None, "version": None,
    }
    out = []
    polar_pos = [[0.0, 0.0, 1.0], [0.0, 0.0, 0.0], [0.0, 90.0, 1.0], [0.0, -90.0, 1.0], [180.0, 0.0, 1.0],
                 [-180.0, 0.0, 1.0], [90.0, 0.0, 0.5], [45.0, 90.0, 0.0], [30.0, 30.0, 1.0], [-110.0, -30.0, 1.0]]
    for p in polar_pos:
        for w, h, d in [(0, 0, 0), (5, 5, 0), (10, 0, 0), (0, 360, 0), (360, 360, 0), (5, 10, 1), (0, 0, 0.5), (20, 90, 0.2)]:
            for div in [None, [0.5, 30.0, None], [1.0, 90.0, None], [1.0, 180.0, None]]:
                c = dict(base, position=p, width=float(w), height=float(h), depth=float(d), div=div)
                out.append(c)
    cart_pos = [[0.0, 0.0, 0.0], [1.0, 1.0, 1.0], [-1.0, -1.0, -1.0], [1.0, 0.0, 0.0], [0.0, 1.0, 0.0], [0.0, 0.0, 1.0],
                [0.0, 0.0, -1.0], [-1.0, 1.0, 0.0], [0.5, -1.0, 1.0], [0.3, 0.2, 0.1]]
    for p in cart_pos:
        for w, h, d in [(0, 0, 0), (0.1, 0, 0), (0, 0, 0.3), (1, 1, 1), (0.2, 0.5, 0)]:
            for div in [None, [0.5, None, 0.5], [1.0, None, 1.0], [1.0, None, 0.0]]:
                c = dict(base, cartesian=True, position=p, width=float(w), height=float(h), depth=float(d), div=div)
                out.append(c)
    extra = []
    for c in out[:: 7]:
        extra.append(dict(c, zones=[["p", 0.0, 0.0, -180.0, 180.0]], diffuse=0.5))
        extra.append(dict(c, zones=[["c", -1.0, 0.0, -1.0, 1.0, 1.0, 1.0]], diffuse=1.0, gain=2.0, ogain=0.25))
        extra.append(dict(c, mute=True))
        extra.append(dict(c, lock=[None]))
    return out + extra


# --------------------------------------------------------------------------------------
# lattice stream: positions on the 5-degree / 1-degree grid (the spreading panner's virtual sources sit on a
# 5-degree grid, so coincidences with the object's local axes only occur there) and on the 0.25 / 0.1 Cartesian grid

LATTICE_ELS = [85, -85, 80, -80, 45, -45, 40, -40, 30, -30, 0]
EXT_WIDE = [(360.0, 20.0), (270.0, 90.0), (360.0, 0.0), (180.0, 20.0)]
EXT_TALL = [(90.0, 180.0), (5.0, 360.0), (20.0, 360.0), (0.0, 180.0)]
EXT_ALL = [(0.0, 0.0), (5.0, 5.0), (20.0, 20.0), (90.0, 90.0), (180.0, 180.0), (270.0, 270.0), (360.0, 360.0),
           (20.0, 90.0), (90.0, 5.0), (5.0, 20.0), (180.0, 90.0), (360.0, 90.0), (0.0, 20.0)] + EXT_WIDE + EXT_TALL


def _lat_base(layout_name, real):
    return {
        "layout": layout_name, "real": real, "cartesian": False, "position": [0.0, 0.0, 1.0], "edge": [None, None],
        "width": 0.0, "height": 0.0, "depth": 0.0, "diffuse": 0.0, "gain": 1.0, "screenRef": False, "lock": None,
        "div": None, "zones": [], "ogain": 1.0, "mute": False, "offset": None, "refscreen": None, "version": None,
    }


def lattice_cases(rng, layout_name, real=None, full=False):
    """Deterministic-by-rng list of lattice blocks.  `full`: the whole 5-degree lattice (thorough tier); otherwise the
    rows el in LATTICE_ELS.  Every row gets the extents that are wide and flat at high |elevation| and tall at
    mid elevations, plus a rotating pick of the other extents."""
    base = _lat_base(layout_name, real)
    out = []
    els = list(range(-90, 91, 5)) if full else LATTICE_ELS
    for el in els:
        for ai, az in enumerate(range(-180, 180, 5)):
            exts = []
            if abs(el) >= 75:
                exts += EXT_WIDE[:3]
            elif 30 <= abs(el) <= 50:
                exts += EXT_TALL[:2]
            k = (ai + (el + 90) // 5) % len(EXT_ALL)
            exts.append(EXT_ALL[k])
            if full:
                exts.append(EXT_ALL[(k * 7 + 3) % len(EXT_ALL)])
                exts.append(rng.choice(EXT_ALL))
            else:
                exts.append(rng.choice(EXT_ALL))
            for w, h in exts:
                c = dict(base, position=[float(az), float(el), 1.0], width=w, height=h)
                r = rng.random()
                if r < 0.1:
                    c["depth"] = 0.5
                elif r < 0.2:
                    c["div"] = [rng.choice([0.5, 1.0]), rng.choice([30.0, 45.0, 90.0]), None]
                elif r < 0.25:
                    c["position"] = [float(az), float(el), rng.choice([0.5, 0.75])]
                elif r < 0.3:
                    c["diffuse"], c["gain"], c["ogain"] = 0.5, 2.0, 0.25
                out.append(c)
    # 1-degree lattice (sampled)
    for _ in range(600 if full else 150):
        w, h = rng.choice(EXT_ALL)
        out.append(dict(base, position=[float(rng.randint(-180, 180)), float(rng.randint(-90, 90)), 1.0], width=w, height=h,
                        depth=rng.choice([0.0, 0.0, 0.0, 0.5])))
    # Cartesian lattice: multiples of 0.25 (all 729 when full) and of 0.1 (sampled), Cartesian extents
    cext = [0.0, 0.0, 0.1, 0.25, 0.5, 1.0]
    q = [-1.0, -0.75, -0.5, -0.25, 0.0, 0.25, 0.5, 0.75, 1.0]
    pts = [[x, y, z] for x in q for y in q for z in q]
    if not full:
        pts = rng.sample(pts, 120)
    for pt in pts:
        out.append(dict(base, cartesian=True, position=pt, width=rng.choice(cext), height=rng.choice(cext),
                        depth=rng.choice(cext)))
    for _ in range(300 if full else 60):
        pt = [rng.randint(-10, 10) / 10.0 for _ in range(3)]
        c = dict(base, cartesian=True, position=pt, width=rng.choice(cext), height=rng.choice(cext), depth=rng.choice(cext))
        if rng.random() < 0.15:
            c["div"] = [rng.choice([0.5, 1.0]), None, rng.choice([0.1, 0.25, 0.5])]
        out.append(c)
    for c in out:
        c["lattice"] = True
    return out

# --------------------------------------------------------------------------------------
# sequences: several blocks on ONE GainCalc instance (render must be a function of the block alone)

_PRISTINE = {}


def pristine_gain_calc(layout_name):
    """A GainCalc that is never rendered on; callers deep-copy it (1-2 ms) to get fresh instances."""
    from ear.core.objectbased.gain_calc import GainCalc

    if layout_name not in _PRISTINE:
        _PRISTINE[layout_name] = GainCalc(build_layout(layout_name))
    return _PRISTINE[layout_name]


SEQ_ZONES = [
    [["p", 0.0, 0.0, -180.0, 180.0]],                       # the whole mid layer
    [["p", -90.0, 90.0, 30.0, 180.0]],                      # the left side
    [["p", -90.0, 90.0, -110.0, -30.0]],                    # right side speakers (Cartesian path extends along rows)
    [["c", -1.0, -1.0, -1.0, 1.0, 0.0, 1.0]],               # the back half
    [["c", 0.5, -1.0, -1.0, 1.0, 1.0, 1.0]],                # right wall
    [["c", -1.0, -1.0, -1.0, -0.5, 1.0, 1.0], ["p", 30.0, 90.0, -180.0, 180.0]],   # left wall + upper layer
    [["p", -90.0, 90.0, -180.0, 180.0]],                    # everything (both paths fall back to no exclusion)
    [["p", 0.0, 0.0, -30.0, 30.0]],                         # front three
    [["p", -90.0, 90.0, 90.0, 90.0], ["p", -90.0, 90.0, -90.0, -90.0]],           # exactly the side speakers
]


def gen_sequence(rng, layout_name):
    """2-6 blocks for one shared instance: alternating polar/Cartesian, extent on/off, lock on/off, divergence on/off,
    with one zone list recurring across most blocks (and an occasional different or empty one)."""
    k = rng.randint(2, 6)
    zones = rng.choice(SEQ_ZONES) if rng.random() < 0.8 else gen_case(rng, layout_name)["zones"]
    other = rng.choice(SEQ_ZONES)
    start_cart = rng.random() < 0.5
    seq = []
    for i in range(k):
        c = gen_case(rng, layout_name, boundary=(i % 2 == 0))
        want_cart = (i % 2 == 0) == start_cart if rng.random() < 0.85 else rng.random() < 0.5
        if c["cartesian"] != want_cart:
            for _ in range(20):
                c = gen_case(rng, layout_name, boundary=(i % 2 == 0))
                if c["cartesian"] == want_cart:
                    break
        r = rng.random()
        c["zones"] = zones if r < 0.75 else other if r < 0.9 else []
        if rng.random() < 0.5:
            c["width"] = c["height"] = c["depth"] = 0.0
        if rng.random() < 0.3 and c["lock"] is None:
            c["lock"] = [rng.choice([None, 0.5, 1.0])]
        c["offset"] = None  # keep every block inside the quantifier so that the sequence is rendered in full
        seq.append(c)
    return seq

def fixed_sequences(layout_name):
    """Deterministic (seed-independent) sequences for one shared instance: ONE block with an extent repeated 2-4 times
    with identical panning parameters while only block gain / object gain / mute / diffuse vary (gain automation on a
    static sized object), polar and Cartesian, with and without depth / divergence / zones / lock, and with a point
    block interleaved.  render must be a function of the block alone, so block k must equal the fresh-instance render
    and obey the power law whatever gains the earlier blocks of the run had."""
    base = _lat_base(layout_name, None)
    sized = [
        ("polar extent", dict(base, position=[30.0, 10.0, 1.0], width=45.0, height=20.0)),
        ("polar extent+depth", dict(base, position=[-70.0, 0.0, 0.8], width=20.0, height=90.0, depth=0.3)),
        ("polar extent+div+zones", dict(base, position=[0.0, 30.0, 1.0], width=90.0, height=5.0,
                                        div=[0.5, 30.0, None], zones=SEQ_ZONES[1])),
        ("cart extent", dict(base, cartesian=True, position=[0.3, 0.2, 0.1], width=0.4, height=0.3, depth=0.2)),
        ("cart width only", dict(base, cartesian=True, position=[-1.0, 1.0, 0.0], width=0.25)),
        ("cart extent+div+zones+lock", dict(base, cartesian=True, position=[0.5, -0.5, 0.5], width=0.1, height=0.5, depth=1.0,
                                            div=[1.0, None, 0.25], zones=SEQ_ZONES[3], lock=[None])),
    ]
    point = {False: dict(base, position=[10.0, 0.0, 1.0]), True: dict(base, cartesian=True, position=[0.1, 0.9, 0.0])}
    runs = [
        ("gain 0.5,0.5,1.0", [dict(gain=0.5), dict(gain=0.5), dict(gain=1.0)]),
        ("object gain 0.7 twice", [dict(ogain=0.7), dict(ogain=0.7)]),
        ("mute then un-mute", [dict(mute=True), dict(mute=False)]),
        ("gain 2, diffuse 0.5, gain 0.25 x object gain 3, plain", [dict(gain=2.0), dict(diffuse=0.5), dict(gain=0.25, ogain=3.0), {}]),
    ]
    out = []
    for label, blk in sized:
        for rlabel, steps in runs:
            out.append(("%s: %s" % (label, rlabel), [dict(blk, **st) for st in steps]))
        # a point block between two identical sized blocks (does the first sized block's gain survive it?)
        out.append(("%s: gain 0.5, point block, gain 0.5" % label,
                    [dict(blk, gain=0.5), dict(point[blk["cartesian"]], gain=0.3), dict(blk, gain=0.5)]))
    # two different sized blocks alternating with non-unit gains
    out.append(("alternating polar/Cartesian sized blocks, gain 0.5",
                [dict(sized[0][1], gain=0.5), dict(sized[3][1], gain=0.5), dict(sized[0][1], gain=0.5), dict(sized[3][1], gain=0.5)]))
    return out


# --------------------------------------------------------------------------------------
# admissible real-position layouts (thorough tier)


def _norm_az(a):
    while a > 180.0:
        a -= 360.0
    while a < -180.0:
        a += 360.0
    return a


def gen_real_layout(rng, layout_name):
    """A left/right symmetric assignment of real positions inside each channel's az/el range that keeps the
    nominal azimuth order within each layer and leaves no horizontal gap >= 180 degrees; screen loudspeakers
    stay inside 5-25 or 35-60 degrees.  Returns {name: [az, el]} or None when the layout has no freedom."""
    from ear.core import bs2051
    from ear.core.geom import inside_angle_range

    lay = bs2051.get_layout(layout_name).without_lfe
    chans = {c.name: c for c in lay.channels}

    def layer_of(c):
        el = c.polar_nominal_position.elevation
        return 0 if el < -10 else 1 if el < 10 else 2 if el < 75 else 3

    for _attempt in range(200):
        real = {}
        ok = True
        for name, c in chans.items():
            naz = c.polar_nominal_position.azimuth
            if name in real:
                continue
            a0, a1 = c.az_range
            e0, e1 = c.el_range
            width = (a1 - a0) % 360.0 if a1 != a0 else 0.0
            if name[1] == "-":
                continue  # mirrored from the + side
            if name[1] == "+" and naz not in (0.0, 180.0, -180.0) and name.replace("+", "-", 1) in chans:
                az = _norm_az(a0 + rng.choice([0.0, 1.0, rng.random(), rng.random()]) * width)
                if name == "M+SC":
                    az = rng.choice([rng.uniform(5, 25), rng.uniform(35, 60), 5.0, 25.0, 35.0, 60.0])
                el = e0 + rng.choice([0.0, 1.0, rng.random()]) * (e1 - e0)
                az, el = round(az, 3), round(el, 3)
                if not inside_angle_range(az, a0, a1) or not (e0 <= el <= e1):
                    az, el = naz, c.polar_nominal_position.elevation
                real[name] = [az, el]
                real[name.replace("+", "-", 1)] = [-az, el]
            else:
                # centre-line channels keep their azimuth; elevation may move inside the range
                el = e0 + rng.choice([0.0, 1.0, rng.random()]) * (e1 - e0)
                real[name] = [naz, round(el, 3)]
        # nominal azimuth order within each layer (by azimuth in [0,360) from the front, left side only needed)
        for L in range(4):
            names = [n for n, c in chans.items() if layer_of(c) == L]
            nom = sorted(names, key=lambda n: chans[n].polar_nominal_position.azimuth % 360.0)
            re_ = sorted(names, key=lambda n: real[n][0] % 360.0)
            nom_az = [chans[n].polar_nominal_position.azimuth % 360.0 for n in nom]
            re_az = [real[n][0] % 360.0 for n in re_]
            if len(set(re_az)) != len(re_az) and len(set(nom_az)) == len(nom_az):
                ok = False
            if [chans[n].polar_nominal_position.azimuth % 360.0 for n in re_] != nom_az:
                ok = False
        # no horizontal gap of 180 degrees or more in the mid layer
        mids = sorted(real[n][0] % 360.0 for n, c in chans.items() if layer_of(c) == 1)
        if len(mids) > 1:
            gaps = [(b - a) for a, b in zip(mids, mids[1:])] + [mids[0] + 360.0 - mids[-1]]
            if max(gaps) >= 180.0 - 1e-9:
                ok = False
        if ok:
            if all(real[n] == [chans[n].polar_nominal_position.azimuth, chans[n].polar_nominal_position.elevation]
                   for n in real):
                return None
            return real
    return None


# --------------------------------------------------------------------------------------
# the direct predicate (written from the property text; independent of the Lean model)

POWER_RTOL = 1e-6


def predicate(case, is_lfe, direct, diffuse):
    """Returns None if the property holds on this output, else (what, detail, tags)."""
    direct = np.asarray(direct, dtype=float)
    diffuse = np.asarray(diffuse, dtype=float)
    n = len(is_lfe)
    if direct.shape != (n,) or diffuse.shape != (n,):
        return ("gain vectors have the wrong shape", {"direct": list(direct.shape), "diffuse": list(diffuse.shape)},
                ["c01-shape"])
    allg = np.concatenate([direct, diffuse])
    if not np.all(np.isfinite(allg)):
        return ("non-finite gain", {"direct": direct.tolist(), "diffuse": diffuse.tolist()}, ["c01-nonfinite"])
    if np.any(allg < 0.0):
        return ("negative gain", {"direct": direct.tolist(), "diffuse": diffuse.tolist()}, ["c01-negative"])
    lfe = np.asarray(is_lfe, dtype=bool)
    if np.any(direct[lfe] != 0.0) or np.any(diffuse[lfe] != 0.0):
        return ("LFE output is not exactly zero", {"direct": direct.tolist(), "diffuse": diffuse.tolist()},
                ["c01-lfe"])
    power = float(np.sum(direct ** 2) + np.sum(diffuse ** 2))
    target = 0.0 if case["mute"] else (float(case["gain"]) * float(case["ogain"])) ** 2
    if case["mute"]:
        if power != 0.0:
            return ("muted object has output", {"power": power}, ["c01-mute"])
        return None
    if case["layout"] == "0+2+0":
        lo, hi = 0.5 * target * (1 - POWER_RTOL), target * (1 + POWER_RTOL)
        if not (lo <= power <= hi):
            return ("0+2+0 power outside [1/2, 1] x (gain x object gain)^2", {"power": power, "target": target},
                    ["c01-power-stereo"])
        return None
    if abs(power - target) > POWER_RTOL * target:
        tag = "c01-power-low" if power < target else "c01-power-high"
        return ("summed power differs from (gain x object gain)^2", {"power": power, "target": target,
                "ratio": power / target if target else None}, ["c01-power", tag])
    return None


def features(case):
    f = ["cart" if case["cartesian"] else "polar"]
    if case["width"] or case["height"] or case["depth"]:
        f.append("extent")
    if case["depth"]:
        f.append("depth")
    if case["div"] is not None and case["div"][0] != 0.0:
        f.append("div")
    if case["zones"]:
        f.append("zones")
    if case["lock"] is not None:
        f.append("lock")
    if case["screenRef"]:
        f.append("screenRef")
    if case["edge"] != [None, None]:
        f.append("edgeLock")
    if case["offset"] is not None:
        f.append("offset")
    if case["diffuse"] not in (0.0, 1.0):
        f.append("diffuse")
    if case["mute"]:
        f.append("mute")
    return f


def boundary_class(case):
    b = []
    if case.get("lattice"):
        b.append("lattice-cart" if case["cartesian"] else
                 "lattice-polar-el%+d" % int(case["position"][1]) if abs(case["position"][1]) in (85.0, 80.0, 45.0, 40.0)
                 else "lattice-polar")
    p = case["position"]
    if case["cartesian"]:
        nb = sum(1 for x in p if abs(x) == 1.0)
        if nb == 3:
            b.append("cube-corner")
        elif nb:
            b.append("cube-face/edge")
        if p == [0.0, 0.0, 0.0]:
            b.append("cube-centre")
    else:
        if p[2] == 0.0:
            b.append("distance0")
        if abs(p[1]) == 90.0:
            b.append("pole")
        if abs(p[0]) == 180.0:
            b.append("az180")
    for k in ("width", "height"):
        if case[k] in (5.0, 10.0, 360.0):
            b.append("extent-%g" % case[k])
    if case["div"] is not None and case["div"][0] in (0.0, 0.5, 1.0):
        b.append("div-%g" % case["div"][0])
    if case["diffuse"] in (0.0, 1.0):
        b.append("diffuse-%g" % case["diffuse"])
    if case["gain"] == 0.0 or case["ogain"] == 0.0:
        b.append("gain0")
    return b


def run_real(case, gc=None):
    """Render one case on the real code.  Returns ("ok", is_lfe, direct, diffuse) or ("rejected", exc name, msg)."""
    try:
        if gc is None:
            gc, _lay = gain_calc(case["layout"], case["real"])
        meta = build_meta(case)
    except (ValueError, TypeError) as e:  # element validators / unsupported layouts: outside the quantifier
        return ("rejected", type(e).__name__, str(e)[:200])
    with warnings.catch_warnings():
        warnings.simplefilter("ignore")
        with np.errstate(all="ignore"):
            try:
                r = gc.render(meta)
            except ValueError as e:
                # by-design rejections raised while rendering (e.g. a position offset of the other coordinate
                # system, or an offset that moves azimuth/elevation outside the validated range)
                return ("rejected", type(e).__name__, str(e)[:200])
    return ("ok", gc.is_lfe.tolist(), np.asarray(r.direct, dtype=float), np.asarray(r.diffuse, dtype=float))
