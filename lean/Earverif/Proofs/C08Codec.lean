/-
Round trip of the declarative XML combinators (`Model/XmlCodec.lean`): if every field codec round-trips
on the value it carries, handler keys and argument names are pairwise distinct, elided defaults agree with
the constructor defaults and the hand-written handlers (parameters) leave the declarative arguments alone,
then parsing what `to_xml` wrote gives the object back.  Core Lean only.
-/
import Earverif.Model.XmlCodec

set_option linter.unusedSectionVars false

namespace Earverif.XmlCodec

variable {V : Type} [DecidableEq V]

/-! ### generic list lemmas -/

theorem findSome?_unique {α β} {f : α → Option β} {p : α} {b : β} :
    ∀ {l : List α}, p ∈ l → f p = some b → (∀ q ∈ l, (f q).isSome → q = p) → l.findSome? f = some b := by
  intro l
  induction l with
  | nil => intro h; cases h
  | cons x xs ih =>
    intro hp hf hu
    rw [List.findSome?_cons]
    cases hx : f x with
    | some y =>
      have := hu x (by simp) (by simp [hx])
      subst this
      rw [hx] at hf; simpa using hf
    | none =>
      simp only
      rcases List.mem_cons.mp hp with rfl | hp'
      · rw [hf] at hx; cases hx
      · exact ih hp' hf (fun q hq => hu q (by simp [hq]))

theorem findSome?_none {α β} {f : α → Option β} {l : List α} (h : ∀ q ∈ l, f q = none) :
    l.findSome? f = none := by
  induction l with
  | nil => rfl
  | cons x xs ih =>
    rw [List.findSome?_cons, h x (by simp)]
    exact ih (fun q hq => h q (by simp [hq]))

theorem nodup_flatMap_unique {α β} {f : α → List β} :
    ∀ {l : List α}, (l.flatMap f).Nodup → ∀ p ∈ l, ∀ q ∈ l, ∀ k, k ∈ f p → k ∈ f q → p = q := by
  intro l
  induction l with
  | nil => intro _ p hp; cases hp
  | cons x xs ih =>
    intro h p hp q hq k hkp hkq
    rw [List.flatMap_cons, List.nodup_append] at h
    obtain ⟨_, h2, h3⟩ := h
    rcases List.mem_cons.mp hp with rfl | hp' <;> rcases List.mem_cons.mp hq with rfl | hq'
    · rfl
    · exact absurd rfl (h3 k hkp k (List.mem_flatMap.mpr ⟨q, hq', hkq⟩))
    · exact absurd rfl (h3 k hkq k (List.mem_flatMap.mpr ⟨p, hp', hkp⟩))
    · exact ih h2 p hp' q hq' k hkp hkq

theorem nodup_filterMap_unique {α β} {f : α → Option β} :
    ∀ {l : List α}, (l.filterMap f).Nodup → ∀ p ∈ l, ∀ q ∈ l, ∀ a, f p = some a → f q = some a → p = q := by
  intro l
  induction l with
  | nil => intro _ p hp; cases hp
  | cons x xs ih =>
    intro h p hp q hq a hfp hfq
    rcases List.mem_cons.mp hp with rfl | hp' <;> rcases List.mem_cons.mp hq with rfl | hq'
    · rfl
    · rw [List.filterMap_cons, hfp, List.nodup_cons] at h
      exact absurd (List.mem_filterMap.mpr ⟨q, hq', hfq⟩) h.1
    · rw [List.filterMap_cons, hfq, List.nodup_cons] at h
      exact absurd (List.mem_filterMap.mpr ⟨p, hp', hfp⟩) h.1
    · have h' : (xs.filterMap f).Nodup := by
        rw [List.filterMap_cons] at h
        cases hx : f x with
        | none => rw [hx] at h; exact h
        | some y => rw [hx, List.nodup_cons] at h; exact h.2
      exact ih h' p hp' q hq' a hfp hfq

/-! ### handler lookup -/

omit [DecidableEq V] in
theorem matchesName_outName (adm : String) : matchesName (outName adm) adm = true := by
  simp [matchesName, outName, namespaces, defaultNs]

omit [DecidableEq V] in
theorem matchesName_name {key : QName} {adm : String} (h : matchesName key adm = true) : key.name = adm := by
  simp only [matchesName, Bool.and_eq_true, beq_iff_eq] at h
  exact h.1

theorem attrHandler_isSome_mem {p : Property V} {key : String} (h : (p.attrHandler? key).isSome) :
    key ∈ p.attrKeys := by
  cases p <;> simp only [Property.attrHandler?, Property.attrKeys] at h ⊢ <;> try (cases h)
  · split at h
    · simp [*]
    · cases h
  · split at h
    · simp [*]
    · split at h
      · simp [*]
      · cases h

theorem elemHandler_isSome_mem {p : Property V} {key : QName} (h : (p.elemHandler? key).isSome) :
    key.name ∈ p.elemNames := by
  cases p <;> simp only [Property.elemHandler?, Property.elemNames] at h ⊢ <;> try (cases h)
  all_goals
    split at h
    · rename_i hm; simp [matchesName_name hm]
    · cases h

/-- key uniqueness (the obligation checked on the extracted tables) -/
structure KeysOK (ps : List (Property V)) : Prop where
  attrs : (ps.flatMap (·.attrKeys)).Nodup
  elems : (ps.flatMap (·.elemNames)).Nodup
  args : (declArgs ps).Nodup
  text : (ps.filterMap (·.textHandler?)).length ≤ 1

theorem lookupAttr_of_mem {ps : List (Property V)} (hk : KeysOK ps) {p : Property V} (hp : p ∈ ps)
    {key : String} {h : Kw V → String → Option (Kw V)} (hh : p.attrHandler? key = some h) :
    lookupAttr ps key = some h := by
  unfold lookupAttr
  refine findSome?_unique (List.mem_reverse.mpr hp) hh ?_
  intro q hq hs
  have hq' := List.mem_reverse.mp hq
  exact nodup_flatMap_unique hk.attrs q hq' p hp key (attrHandler_isSome_mem hs)
    (attrHandler_isSome_mem (by simp [hh]))

theorem lookupElem_of_mem {ps : List (Property V)} (hk : KeysOK ps) {p : Property V} (hp : p ∈ ps)
    {key : QName} {h : Kw V → Xml → Option (Kw V)} (hh : p.elemHandler? key = some h) :
    lookupElem ps key = some h := by
  unfold lookupElem
  refine findSome?_unique (List.mem_reverse.mpr hp) hh ?_
  intro q hq hs
  have hq' := List.mem_reverse.mp hq
  exact nodup_flatMap_unique hk.elems q hq' p hp key.name (elemHandler_isSome_mem hs)
    (elemHandler_isSome_mem (by simp [hh]))

/-! ### the loops -/

theorem parseAttrs_append (ps : List (Property V)) (xs ys : List (String × String)) (kw : Kw V) :
    parseAttrs ps (xs ++ ys) kw = (parseAttrs ps xs kw).bind (parseAttrs ps ys) := by
  induction xs generalizing kw with
  | nil => simp [parseAttrs]
  | cons x xs ih =>
    obtain ⟨k, v⟩ := x
    simp only [List.cons_append, parseAttrs]
    cases lookupAttr ps k with
    | none => exact ih kw
    | some h =>
      simp only
      cases h kw v with
      | none => rfl
      | some kw2 => simp only [Option.bind_some]; exact ih kw2

theorem parseChildren_append (ps : List (Property V)) (xs ys : List Xml) (kw : Kw V) :
    parseChildren ps (xs ++ ys) kw = (parseChildren ps xs kw).bind (parseChildren ps ys) := by
  induction xs generalizing kw with
  | nil => simp [parseChildren]
  | cons x xs ih =>
    simp only [List.cons_append, parseChildren]
    cases lookupElem ps x.tag with
    | none => exact ih kw
    | some h =>
      simp only
      cases h kw x with
      | none => rfl
      | some kw2 => simp only [Option.bind_some]; exact ih kw2

theorem parseAttrs_unhandled (ps : List (Property V)) (xs : List (String × String)) (kw : Kw V)
    (h : ∀ kv ∈ xs, lookupAttr ps kv.1 = none) : parseAttrs ps xs kw = some kw := by
  induction xs with
  | nil => rfl
  | cons x xs ih =>
    obtain ⟨k, v⟩ := x
    simp only [parseAttrs, h (k, v) (by simp)]
    exact ih (fun kv hkv => h kv (by simp [hkv]))

theorem parseChildren_unhandled (ps : List (Property V)) (xs : List Xml) (kw : Kw V)
    (h : ∀ x ∈ xs, lookupElem ps x.tag = none) : parseChildren ps xs kw = some kw := by
  induction xs with
  | nil => rfl
  | cons x xs ih =>
    simp only [parseChildren, h x (by simp)]
    exact ih (fun y hy => h y (by simp [hy]))

omit [DecidableEq V] in
theorem Kw.set_same (kw : Kw V) (a : String) (x : Val V) : (kw.set a x) a = some x := by
  simp [Kw.set]

omit [DecidableEq V] in
theorem Kw.set_other (kw : Kw V) {a b : String} (x : Val V) (h : b ≠ a) : (kw.set a x) b = kw b := by
  simp [Kw.set, h]

/-! ### hypotheses on the fields -/

/-- the hand-written handlers (parameters) must leave the arguments in `S` (which contains the declarative
arguments) alone and succeed; their output must not be picked up by another handler -/
def FrameOK (ps : List (Property V)) (S : String → Prop) (o : Obj V) (adm : Option String)
    (impl : CustomImpl V) : Prop :=
  (∀ x ∈ impl.childrenOut o,
      (∃ a, adm = some a ∧ matchesName x.tag a = true) ∨ lookupElem ps x.tag = none) ∧
  (∀ kv ∈ impl.attrsOut o, lookupAttr ps kv.1 = none) ∧
  (∀ kw x, ∃ kw', impl.handle kw x = some kw' ∧ ∀ a, S a → kw' a = kw a)

/-- a scalar field: the object holds a scalar that its codec round-trips (needed only when it is written, i.e.
differs from the elided default); an optional field elides exactly the constructor default, a required field
never holds the elided value -/
def ScalarOK (o cd : Obj V) (arg : String) (c : Codec V) (req : Bool) (dflt : V) : Prop :=
  ∃ v, o arg = .one v ∧ (v ≠ dflt → c.loads (c.dumps v) = some v) ∧ (if req then v ≠ dflt else cd arg = .one dflt)

def FieldOK (ps : List (Property V)) (S : String → Prop) (o cd : Obj V) : Property V → Prop
  | .attr _ arg c req dflt => ScalarOK o cd arg c req dflt
  | .attrElement _ arg c req dflt po => (po = true ∧ req = false) ∨ (po = false ∧ ScalarOK o cd arg c req dflt)
  | .listElement _ arg c req po =>
    (po = true ∧ req = false) ∨ po = false ∧ ∃ vs, o arg = .many vs ∧ (∀ v ∈ vs, c.loads (c.dumps v) = some v) ∧
      (vs = [] → req = false ∧ cd arg = .many [])
  | .handleText arg c => ∃ v, o arg = .one v ∧ c.loads (c.dumps v) = some v
  | .typeAttribute _ _ arg cD cL _ =>
    ∃ v, o arg = .one v ∧ cD.loads (cD.dumps v) = some v ∧ cL.loads (cL.dumps v) = some v
  | .customElement adm _ _ impl => FrameOK ps S o (some adm) impl
  | .genericElement _ _ impl => FrameOK ps S o none impl

/-! ### what each pass contributes to an argument -/

def attrEff (o : Obj V) (a : String) : Property V → Option (Val V)
  | .attr _ arg _ _ dflt =>
    if arg = a then (match o arg with | .one v => if v ≠ dflt then some (.one v) else none | .many _ => none)
    else none
  | .typeAttribute _ _ arg _ _ _ =>
    if arg = a then (match o arg with | .one v => some (.one v) | .many _ => none) else none
  | _ => none

def childEff (o : Obj V) (a : String) : Property V → Option (Val V)
  | .attrElement _ arg _ _ dflt po =>
    if po then none else
    if arg = a then (match o arg with | .one v => if v ≠ dflt then some (.one v) else none | .many _ => none)
    else none
  | .listElement _ arg _ _ po =>
    if po then none else
    if arg = a then (match o arg with | .many vs => if vs = [] then none else some (.many vs) | .one _ => none)
    else none
  | _ => none

theorem attrEff_declArg {o : Obj V} {a : String} {p : Property V} (h : (attrEff o a p).isSome) :
    p.declArg? = some a := by
  cases p <;> simp only [attrEff, Property.declArg?] at h ⊢ <;> try (cases h)
  all_goals
    split at h
    · simp [*]
    · cases h

theorem childEff_declArg {o : Obj V} {a : String} {p : Property V} (h : (childEff o a p).isSome) :
    p.declArg? = some a := by
  cases p <;> simp only [childEff, Property.declArg?] at h ⊢ <;> try (cases h)
  all_goals
    split at h
    · cases h
    · split at h
      · simp [*]
      · cases h

omit [DecidableEq V] in
theorem declArgs_cons (p : Property V) (l : List (Property V)) :
    declArgs (p :: l) = (match p.declArg? with | some a => a :: declArgs l | none => declArgs l) := by
  unfold declArgs
  rw [List.filterMap_cons]
  cases p.declArg? <;> rfl

omit [DecidableEq V] in
theorem declArgs_tail_nodup {p : Property V} {l : List (Property V)} (h : (declArgs (p :: l)).Nodup) :
    (declArgs l).Nodup := by
  rw [declArgs_cons] at h
  cases hp : p.declArg? with
  | none => rw [hp] at h; exact h
  | some a => rw [hp] at h; exact (List.nodup_cons.mp h).2

omit [DecidableEq V] in
/-- the head's argument is not an argument of the tail -/
theorem declArg_head_notin {p : Property V} {l : List (Property V)} {a : String}
    (h : (declArgs (p :: l)).Nodup) (hp : p.declArg? = some a) :
    ∀ q ∈ l, q.declArg? ≠ some a := by
  intro q hq hqa
  rw [declArgs_cons, hp] at h
  exact (List.nodup_cons.mp h).1 (List.mem_filterMap.mpr ⟨q, hq, hqa⟩)

/-! ### the attribute pass -/

theorem attrs_loop (ps : List (Property V)) (hk : KeysOK ps) (S : String → Prop) (o cd : Obj V)
    (hF : ∀ p ∈ ps, FieldOK ps S o cd p) :
    ∀ (l : List (Property V)), (∀ p ∈ l, p ∈ ps) → (declArgs l).Nodup → ∀ kw : Kw V,
      (∀ p ∈ l, ∀ a, p.declArg? = some a → kw a = none) →
      ∃ kw', parseAttrs ps (l.flatMap (·.attrsOut o)) kw = some kw' ∧
        ∀ a, kw' a = (l.findSome? (attrEff o a)).or (kw a) := by
  intro l
  induction l with
  | nil => intro _ _ kw _; exact ⟨kw, rfl, fun a => by simp⟩
  | cons p l ih =>
    intro hl hnd kw hinv
    have hp : p ∈ ps := hl p (by simp)
    have hl' : ∀ q ∈ l, q ∈ ps := fun q hq => hl q (by simp [hq])
    have hnd' := declArgs_tail_nodup hnd
    have hinv' : ∀ q ∈ l, ∀ a, q.declArg? = some a → kw a = none :=
      fun q hq a ha => hinv q (by simp [hq]) a ha
    rw [List.flatMap_cons, parseAttrs_append]
    -- a property that contributes nothing to this pass
    have skip : p.attrsOut o = [] → (∀ a, attrEff o a p = none) →
        ∃ kw', (parseAttrs ps (p.attrsOut o) kw).bind (parseAttrs ps (l.flatMap (·.attrsOut o))) = some kw' ∧
          ∀ a, kw' a = ((p :: l).findSome? (attrEff o a)).or (kw a) := by
      intro h1 h2
      obtain ⟨kw', h3, h4⟩ := ih hl' hnd' kw hinv'
      refine ⟨kw', by rw [h1]; simpa [parseAttrs] using h3, fun a => ?_⟩
      rw [List.findSome?_cons, h2 a]; exact h4 a
    -- a property whose output is not handled by the attribute dictionary
    have unhandled : (∀ kv ∈ p.attrsOut o, lookupAttr ps kv.1 = none) → (∀ a, attrEff o a p = none) →
        ∃ kw', (parseAttrs ps (p.attrsOut o) kw).bind (parseAttrs ps (l.flatMap (·.attrsOut o))) = some kw' ∧
          ∀ a, kw' a = ((p :: l).findSome? (attrEff o a)).or (kw a) := by
      intro h1 h2
      obtain ⟨kw', h3, h4⟩ := ih hl' hnd' kw hinv'
      refine ⟨kw', by rw [parseAttrs_unhandled ps _ kw h1]; simpa using h3, fun a => ?_⟩
      rw [List.findSome?_cons, h2 a]; exact h4 a
    -- a property that stores `.one v` under `arg`
    have stores : ∀ (arg : String) (v : V), p.declArg? = some arg → o arg = .one v →
        parseAttrs ps (p.attrsOut o) kw = some (kw.set arg (.one v)) →
        (∀ a, attrEff o a p = if arg = a then some (.one v) else none) →
        ∃ kw', (parseAttrs ps (p.attrsOut o) kw).bind (parseAttrs ps (l.flatMap (·.attrsOut o))) = some kw' ∧
          ∀ a, kw' a = ((p :: l).findSome? (attrEff o a)).or (kw a) := by
      intro arg v hda hov hrun heff
      have hnot := declArg_head_notin hnd hda
      obtain ⟨kw', h3, h4⟩ := ih hl' hnd' (kw.set arg (.one v)) (by
        intro q hq a ha
        have : a ≠ arg := by rintro rfl; exact hnot q hq ha
        rw [Kw.set_other _ _ this]; exact hinv' q hq a ha)
      refine ⟨kw', by rw [hrun]; simpa using h3, fun a => ?_⟩
      rw [List.findSome?_cons, heff a, h4 a]
      by_cases haa : arg = a
      · subst haa
        have : l.findSome? (attrEff o arg) = none :=
          findSome?_none (fun q hq => by
            cases hq' : attrEff o arg q with
            | none => rfl
            | some y => exact absurd (attrEff_declArg (o := o) (a := arg) (p := q) (by rw [hq']; rfl)) (hnot q hq))
        simp [this, Kw.set_same]
      · have : a ≠ arg := fun h => haa h.symm
        simp [haa, Kw.set_other _ _ this]
    have hfield := hF p hp
    cases p with
    | attr adm arg c req dflt =>
      obtain ⟨v, hov, hrt, _⟩ := hfield
      by_cases hvd : v = dflt
      · exact skip (by simp [Property.attrsOut, hov, hvd]) (fun a => by simp [attrEff, hov, hvd])
      · refine stores arg v rfl hov ?_ (fun a => by simp [attrEff, hov, hvd])
        have hlk := lookupAttr_of_mem hk hp (key := adm)
          (h := fun kw v => (c.loads v).map fun x => kw.set arg (.one x)) (by simp [Property.attrHandler?])
        simp [Property.attrsOut, hov, hvd, parseAttrs, hlk, hrt hvd]
    | typeAttribute d l' arg cD cL req =>
      obtain ⟨v, hov, hrtD, hrtL⟩ := hfield
      refine stores arg v rfl hov ?_ (fun a => by simp [attrEff, hov])
      have hdl : d ≠ l' := by
        have := hk.attrs
        intro hdl; subst hdl
        have hmem : [d, d] ⊆ ps.flatMap (·.attrKeys) := by
          intro k hk'; exact List.mem_flatMap.mpr ⟨_, hp, by simpa [Property.attrKeys] using hk'⟩
        have hsub : List.Sublist [d, d] (ps.flatMap (·.attrKeys)) := by
          obtain ⟨s, t, hst⟩ := List.append_of_mem hp
          rw [hst, List.flatMap_append, List.flatMap_cons]
          exact List.Sublist.trans (List.sublist_append_left _ _) (List.sublist_append_right _ _)
        have := List.Nodup.sublist hsub this
        simp at this
      have hlkL := lookupAttr_of_mem hk hp (key := l') (h := typeHandler arg cL) (by simp [Property.attrHandler?])
      have hlkD := lookupAttr_of_mem hk hp (key := d) (h := typeHandler arg cD)
        (by simp [Property.attrHandler?, hdl])
      have hnone : kw arg = none := hinv (Property.typeAttribute d l' arg cD cL req) (by simp) arg rfl
      have h1 : typeHandler arg cL kw (cL.dumps v) = some (kw.set arg (.one v)) := by
        simp [typeHandler, hrtL, hnone]
      have h2 : typeHandler arg cD (kw.set arg (.one v)) (cD.dumps v) = some (kw.set arg (.one v)) := by
        simp only [typeHandler, hrtD, Kw.set_same, if_true]
        congr 1; funext b; by_cases hb : b = arg <;> simp [Kw.set, hb]
      simp [Property.attrsOut, hov, parseAttrs, hlkL, hlkD, h1, h2]
    | attrElement adm arg c req dflt po => exact skip rfl (fun a => rfl)
    | listElement adm arg c req po => exact skip rfl (fun a => rfl)
    | handleText arg c => exact skip rfl (fun a => rfl)
    | customElement adm arg req impl => exact unhandled hfield.2.1 (fun a => rfl)
    | genericElement arg req impl => exact unhandled hfield.2.1 (fun a => rfl)

/-! ### the child-element pass -/

omit [DecidableEq V] in
theorem mem_declArgs {ps : List (Property V)} {p : Property V} {a : String} (hp : p ∈ ps)
    (ha : p.declArg? = some a) : a ∈ declArgs ps :=
  List.mem_filterMap.mpr ⟨p, hp, ha⟩

/-- children written by a `CustomElement` are consumed by its own handler (or by nobody) and the
declarative arguments survive -/
theorem custom_children (ps : List (Property V)) (hk : KeysOK ps) (S : String → Prop) (o : Obj V)
    (adm : String) (arg : Option String) (req : Bool) (impl : CustomImpl V)
    (hp : Property.customElement adm arg req impl ∈ ps) (hfr : FrameOK ps S o (some adm) impl) :
    ∀ xs : List Xml, (∀ x ∈ xs, x ∈ impl.childrenOut o) → ∀ kw : Kw V,
      ∃ kw', parseChildren ps xs kw = some kw' ∧ ∀ a, S a → kw' a = kw a := by
  intro xs
  induction xs with
  | nil => intro _ kw; exact ⟨kw, rfl, fun _ _ => rfl⟩
  | cons x xs ih =>
    intro hx kw
    have hxs : ∀ y ∈ xs, y ∈ impl.childrenOut o := fun y hy => hx y (by simp [hy])
    rcases hfr.1 x (hx x (by simp)) with ⟨a, ha, hm⟩ | hnone
    · injection ha with ha; subst ha
      have hlk := lookupElem_of_mem hk hp (key := x.tag) (h := impl.handle)
        (by simp [Property.elemHandler?, hm])
      obtain ⟨kw2, h2, hf2⟩ := hfr.2.2 kw x
      obtain ⟨kw', h3, hf3⟩ := ih hxs kw2
      refine ⟨kw', by simp [parseChildren, hlk, h2, h3], fun a ha => ?_⟩
      rw [hf3 a ha, hf2 a ha]
    · obtain ⟨kw', h3, hf3⟩ := ih hxs kw
      exact ⟨kw', by simp [parseChildren, hnone, h3], hf3⟩

/-- the elements written by a `ListElement` are appended one by one -/
theorem list_loop (ps : List (Property V)) (hk : KeysOK ps)
    (adm arg : String) (c : Codec V) (req po : Bool)
    (hp : Property.listElement adm arg c req po ∈ ps) :
    ∀ (vs acc : List V) (kw : Kw V), (∀ v ∈ vs, c.loads (c.dumps v) = some v) → kw arg = some (.many acc) →
      ∃ kw', parseChildren ps (vs.map fun v => leafElem adm (c.dumps v)) kw = some kw' ∧
        kw' arg = some (.many (acc ++ vs)) ∧ ∀ b, b ≠ arg → kw' b = kw b := by
  have hlk := lookupElem_of_mem hk hp (key := outName adm) (h := listElementHandler arg c)
    (by simp [Property.elemHandler?, matchesName_outName])
  intro vs
  induction vs with
  | nil => intro acc kw _ h; exact ⟨kw, rfl, by simpa using h, fun _ _ => rfl⟩
  | cons v vs ih =>
    intro acc kw hrt hkw
    obtain ⟨kw', h1, h2, h3⟩ := ih (acc ++ [v]) (kw.set arg (.many (acc ++ [v])))
      (fun w hw => hrt w (by simp [hw])) (Kw.set_same _ _ _)
    refine ⟨kw', ?_, by simpa using h2, fun b hb => by rw [h3 b hb, Kw.set_other _ _ hb]⟩
    simp only [List.map_cons, parseChildren]
    have : (leafElem adm (c.dumps v)).tag = outName adm := rfl
    rw [this, hlk]
    have hh : listElementHandler arg c kw (leafElem adm (c.dumps v)) = some (kw.set arg (.many (acc ++ [v]))) := by
      simp [listElementHandler, leafElem, Xml.text, hrt v (by simp), hkw]
    simp only [hh, Option.bind_some]
    exact h1

/-- the argument of a property that acts in the child-element pass -/
def Property.childArg? : Property V → Option String
  | .attrElement _ arg _ _ _ po => if po then none else some arg
  | .listElement _ arg _ _ po => if po then none else some arg
  | _ => none

omit [DecidableEq V] in
theorem childArg_declArg {p : Property V} {a : String} (h : p.childArg? = some a) : p.declArg? = some a := by
  cases p <;> simp only [Property.childArg?, Property.declArg?] at h ⊢ <;> first | exact h | cases h

theorem children_loop (ps : List (Property V)) (hk : KeysOK ps) (S : String → Prop)
    (hS : ∀ a ∈ declArgs ps, S a) (o cd : Obj V)
    (hF : ∀ p ∈ ps, FieldOK ps S o cd p) :
    ∀ (l : List (Property V)), (∀ p ∈ l, p ∈ ps) → (declArgs l).Nodup → ∀ kw : Kw V,
      (∀ p ∈ l, ∀ a, p.childArg? = some a → kw a = none) →
      ∃ kw', parseChildren ps (l.flatMap (·.childrenOut o)) kw = some kw' ∧
        ∀ a, S a → kw' a = (l.findSome? (childEff o a)).or (kw a) := by
  intro l
  induction l with
  | nil => intro _ _ kw _; exact ⟨kw, rfl, fun a _ => by simp⟩
  | cons p l ih =>
    intro hl hnd kw hinv
    have hp : p ∈ ps := hl p (by simp)
    have hl' : ∀ q ∈ l, q ∈ ps := fun q hq => hl q (by simp [hq])
    have hnd' := declArgs_tail_nodup hnd
    have hinv' : ∀ q ∈ l, ∀ a, q.childArg? = some a → kw a = none :=
      fun q hq a ha => hinv q (by simp [hq]) a ha
    rw [List.flatMap_cons, parseChildren_append]
    -- the head's children are processed without touching the declarative arguments
    have framed : (∀ a, childEff o a p = none) →
        (∃ kw2, parseChildren ps (p.childrenOut o) kw = some kw2 ∧ ∀ a, S a → kw2 a = kw a) →
        ∃ kw', (parseChildren ps (p.childrenOut o) kw).bind (parseChildren ps (l.flatMap (·.childrenOut o))) = some kw' ∧
          ∀ a, S a → kw' a = ((p :: l).findSome? (childEff o a)).or (kw a) := by
      intro h2 ⟨kw2, hrun, hfr⟩
      obtain ⟨kw', h3, h4⟩ := ih hl' hnd' kw2 (by
        intro q hq a ha
        rw [hfr a (hS a (mem_declArgs (hl' q hq) (childArg_declArg ha)))]; exact hinv' q hq a ha)
      refine ⟨kw', by rw [hrun]; simpa using h3, fun a ha => ?_⟩
      rw [List.findSome?_cons, h2 a, h4 a ha, hfr a ha]
    have skip : p.childrenOut o = [] → (∀ a, childEff o a p = none) →
        ∃ kw', (parseChildren ps (p.childrenOut o) kw).bind (parseChildren ps (l.flatMap (·.childrenOut o))) = some kw' ∧
          ∀ a, S a → kw' a = ((p :: l).findSome? (childEff o a)).or (kw a) := by
      intro h1 h2
      exact framed h2 ⟨kw, by rw [h1]; rfl, fun _ _ => rfl⟩
    -- the head stores `x` under `arg`
    have stores : ∀ (arg : String) (x : Val V), p.declArg? = some arg →
        (∃ kw2, parseChildren ps (p.childrenOut o) kw = some kw2 ∧ kw2 arg = some x ∧ ∀ b, b ≠ arg → kw2 b = kw b) →
        (∀ a, childEff o a p = if arg = a then some x else none) →
        ∃ kw', (parseChildren ps (p.childrenOut o) kw).bind (parseChildren ps (l.flatMap (·.childrenOut o))) = some kw' ∧
          ∀ a, S a → kw' a = ((p :: l).findSome? (childEff o a)).or (kw a) := by
      intro arg x hda ⟨kw2, hrun, hset, hoth⟩ heff
      have hnot := declArg_head_notin hnd hda
      obtain ⟨kw', h3, h4⟩ := ih hl' hnd' kw2 (by
        intro q hq a ha
        have : a ≠ arg := by rintro rfl; exact hnot q hq (childArg_declArg ha)
        rw [hoth a this]; exact hinv' q hq a ha)
      refine ⟨kw', by rw [hrun]; simpa using h3, fun a ha => ?_⟩
      rw [List.findSome?_cons, heff a, h4 a ha]
      by_cases haa : arg = a
      · subst haa
        have : l.findSome? (childEff o arg) = none :=
          findSome?_none (fun q hq => by
            cases hq' : childEff o arg q with
            | none => rfl
            | some y => exact absurd (childEff_declArg (o := o) (a := arg) (p := q) (by rw [hq']; rfl)) (hnot q hq))
        simp [this, hset]
      · have : a ≠ arg := fun h => haa h.symm
        simp [haa, hoth a this]
    have hfield := hF p hp
    cases p with
    | attr adm arg c req dflt => exact skip rfl (fun a => rfl)
    | typeAttribute d l' arg cD cL req => exact skip rfl (fun a => rfl)
    | handleText arg c => exact skip rfl (fun a => rfl)
    | attrElement adm arg c req dflt po =>
      cases po with
      | true => exact skip (by simp [Property.childrenOut]) (fun a => by simp [childEff])
      | false =>
        rcases hfield with h | ⟨_, v, hov, hrt, _⟩
        · cases h.1
        by_cases hvd : v = dflt
        · exact skip (by simp [Property.childrenOut, hov, hvd]) (fun a => by simp [childEff, hov, hvd])
        · refine stores arg (.one v) rfl ?_ (fun a => by simp [childEff, hov, hvd])
          have hlk := lookupElem_of_mem hk hp (key := outName adm) (h := attrElementHandler arg c)
            (by simp [Property.elemHandler?, matchesName_outName])
          have hnone : kw arg = none := hinv (Property.attrElement adm arg c req dflt false) (by simp) arg rfl
          refine ⟨kw.set arg (.one v), ?_, Kw.set_same _ _ _, fun b hb => Kw.set_other _ _ hb⟩
          have : (leafElem adm (c.dumps v)).tag = outName adm := rfl
          have hh : attrElementHandler arg c kw (leafElem adm (c.dumps v)) = some (kw.set arg (.one v)) := by
            simp [attrElementHandler, hnone, leafElem, Xml.text, hrt hvd]
          have hout : (Property.attrElement adm arg c req dflt false).childrenOut o = [leafElem adm (c.dumps v)] := by
            simp [Property.childrenOut, hov, hvd]
          rw [hout]
          simp only [parseChildren, this, hlk, hh, Option.bind_some]
    | listElement adm arg c req po =>
      cases po with
      | true => exact skip (by simp [Property.childrenOut]) (fun a => by simp [childEff])
      | false =>
        rcases hfield with h | ⟨_, vs, hov, hrt, _⟩
        · cases h.1
        cases vs with
        | nil => exact skip (by simp [Property.childrenOut, hov]) (fun a => by simp [childEff, hov])
        | cons v vs =>
          refine stores arg (.many (v :: vs)) rfl ?_ (fun a => by simp [childEff, hov])
          have hlk := lookupElem_of_mem hk hp (key := outName adm) (h := listElementHandler arg c)
            (by simp [Property.elemHandler?, matchesName_outName])
          have hnone : kw arg = none := hinv (Property.listElement adm arg c req false) (by simp) arg rfl
          obtain ⟨kw2, h1, h2, h3⟩ := list_loop ps hk adm arg c req false hp vs [v] (kw.set arg (.many [v]))
            (fun w hw => hrt w (by simp [hw])) (Kw.set_same _ _ _)
          refine ⟨kw2, ?_, by simpa using h2, fun b hb => by rw [h3 b hb, Kw.set_other _ _ hb]⟩
          have : (leafElem adm (c.dumps v)).tag = outName adm := rfl
          have hh : listElementHandler arg c kw (leafElem adm (c.dumps v)) = some (kw.set arg (.many [v])) := by
            simp [listElementHandler, leafElem, Xml.text, hrt v (by simp), hnone]
          simp only [Property.childrenOut, hov, List.map_cons, parseChildren, this, hlk, hh, Option.bind_some,
            Bool.false_eq_true, if_false]
          exact h1
    | customElement adm arg req impl =>
      exact framed (fun a => rfl) (custom_children ps hk S o adm arg req impl hp hfield _ (fun x hx => hx) kw)
    | genericElement arg req impl =>
      refine framed (fun a => rfl) ⟨kw, parseChildren_unhandled ps _ kw ?_, fun _ _ => rfl⟩
      intro x hx
      rcases hfield.1 x hx with ⟨a, ha, _⟩ | h
      · cases ha
      · exact h

/-! ### text, generic handlers, assembly -/

theorem generics_loop (S : String → Prop) (e : Xml) :
    ∀ (gs : List (CustomImpl V)),
      (∀ g ∈ gs, ∀ kw x, ∃ kw', g.handle kw x = some kw' ∧ ∀ a, S a → kw' a = kw a) → ∀ kw : Kw V,
      ∃ kw', parseGenerics e gs kw = some kw' ∧ ∀ a, S a → kw' a = kw a := by
  intro gs
  induction gs with
  | nil => intro _ kw; exact ⟨kw, rfl, fun _ _ => rfl⟩
  | cons g gs ih =>
    intro h kw
    obtain ⟨kw2, h2, hf2⟩ := h g (by simp) kw e
    obtain ⟨kw', h3, hf3⟩ := ih (fun g' hg' => h g' (by simp [hg'])) kw2
    exact ⟨kw', by simp [parseGenerics, h2, h3], fun a ha => by rw [hf3 a ha, hf2 a ha]⟩

theorem findSome?_owner {α β} {f : α → Option β} {p : α} {l : List α} (hp : p ∈ l)
    (hu : ∀ q ∈ l, (f q).isSome → q = p) : l.findSome? f = f p := by
  cases hf : f p with
  | some b => exact findSome?_unique hp hf hu
  | none =>
    apply findSome?_none
    intro q hq
    cases hq' : f q with
    | none => rfl
    | some y => have := hu q hq (by simp [hq']); subst this; rw [hf] at hq'; cases hq'

theorem length_le_one_eq {α} {l : List α} (h : l.length ≤ 1) {x y : α} (hx : x ∈ l) (hy : y ∈ l) : x = y := by
  match l, h with
  | [], _ => cases hx
  | [z], _ => simp at hx hy; rw [hx, hy]
  | _ :: _ :: _, h => simp at h

/-- the hypotheses of the round-trip theorem -/
structure WF (ps : List (Property V)) (S : String → Prop) (o cd : Obj V) : Prop where
  keys : KeysOK ps
  declS : ∀ a ∈ declArgs ps, S a
  fields : ∀ p ∈ ps, FieldOK ps S o cd p

def textEff (o : Obj V) (a : String) : Property V → Option (Val V)
  | .handleText arg _ => if arg = a then (match o arg with | .one v => some (.one v) | .many _ => none) else none
  | _ => none

theorem textEff_declArg {o : Obj V} {a : String} {p : Property V} (h : (textEff o a p).isSome) :
    p.declArg? = some a := by
  cases p <;> simp only [textEff, Property.declArg?] at h ⊢ <;> try (cases h)
  split at h
  · simp [*]
  · cases h

/-- what ends up in `kwargs[a]` for the declarative owner `p` of `a` -/
def declEff (o : Obj V) (a : String) (p : Property V) : Option (Val V) :=
  (textEff o a p).or ((childEff o a p).or (attrEff o a p))

/-- the four passes on what `to_xml` wrote: they succeed, and every argument in `S` holds exactly what
its declarative owner wrote (nothing if it has no owner or the owner elided it) -/
theorem stages_roundtrip (ps : List (Property V)) (S : String → Prop) (name : String) (o cd : Obj V)
    (h : WF ps S o cd) :
    ∃ kw, parseStages ps (toXml ps name o) = some kw ∧
      (∀ p ∈ ps, ∀ a, p.declArg? = some a → kw a = declEff o a p) ∧
      (∀ a, S a → a ∉ declArgs ps → kw a = none) := by
  obtain ⟨hk, hS, hF⟩ := h
  -- attributes
  obtain ⟨kw1, h1, e1⟩ := attrs_loop ps hk S o cd hF ps (fun _ hp => hp) hk.args Kw.empty (fun _ _ _ _ => rfl)
  -- owner lemmas
  have owner : ∀ (f : String → Property V → Option (Val V)),
      (∀ a q, (f a q).isSome → q.declArg? = some a) →
      ∀ p ∈ ps, ∀ a, p.declArg? = some a → ps.findSome? (f a) = f a p := by
    intro f hf p hp a ha
    exact findSome?_owner hp (fun q hq hs => nodup_filterMap_unique hk.args q hq p hp a (hf a q hs) ha)
  have noowner : ∀ (f : String → Property V → Option (Val V)),
      (∀ a q, (f a q).isSome → q.declArg? = some a) →
      ∀ a, a ∉ declArgs ps → ps.findSome? (f a) = none := by
    intro f hf a ha
    apply findSome?_none
    intro q hq
    cases hq' : f a q with
    | none => rfl
    | some y => exact absurd (mem_declArgs hq (hf a q (by simp [hq']))) ha
  have hA := owner (attrEff o) (fun a q hs => attrEff_declArg hs)
  have hC := owner (childEff o) (fun a q hs => childEff_declArg hs)
  -- children
  obtain ⟨kw2, h2, e2⟩ := children_loop ps hk S hS o cd hF ps (fun _ hp => hp) hk.args kw1 (by
    intro p hp a ha
    rw [e1 a, hA p hp a (childArg_declArg ha)]
    cases p <;> simp only [Property.childArg?] at ha <;> first | cases ha | simp [attrEff, Kw.empty])
  have hT := owner (textEff o) (fun a q hs => textEff_declArg hs)
  -- text
  have htext : ∃ kw3, parseText ps (toXml ps name o) kw2 = some kw3 ∧
      ∀ a, kw3 a = (ps.findSome? (textEff o a)).or (kw2 a) := by
    unfold parseText
    cases hfs : ps.findSome? (·.textHandler?) with
    | none =>
      refine ⟨kw2, rfl, fun a => ?_⟩
      have : ps.findSome? (textEff o a) = none := by
        apply findSome?_none
        intro q hq
        have hq' := (List.findSome?_eq_none_iff.mp hfs) q hq
        cases q <;> first | rfl | (simp [Property.textHandler?] at hq')
      simp [this]
    | some t =>
      obtain ⟨arg, c⟩ := t
      obtain ⟨p0, hp0, ht0⟩ := List.exists_of_findSome?_eq_some hfs
      have hp0eq : p0 = .handleText arg c := by
        cases p0 <;> simp [Property.textHandler?] at ht0
        obtain ⟨rfl, rfl⟩ := ht0; rfl
      subst hp0eq
      obtain ⟨v, hov, hrt⟩ := hF _ hp0
      have htxt : (toXml ps name o).text = c.dumps v := by
        simp [toXml, Xml.text, textOut, hfs, hov]
      refine ⟨kw2.set arg (.one v), by simp [htxt, hrt], fun a => ?_⟩
      by_cases haa : a = arg
      · subst haa
        rw [hT _ hp0 a rfl]
        simp [textEff, hov, Kw.set_same]
      · have : ps.findSome? (textEff o a) = none := by
          apply findSome?_none
          intro q hq
          cases hq' : textEff o a q with
          | none => rfl
          | some y =>
            exfalso
            cases q <;> simp only [textEff] at hq' <;> try (cases hq')
            rename_i arg' c'
            split at hq'
            · rename_i h'; subst h'
              have m1 : (arg', c') ∈ ps.filterMap (·.textHandler?) :=
                List.mem_filterMap.mpr ⟨_, hq, rfl⟩
              have m2 : (arg, c) ∈ ps.filterMap (·.textHandler?) :=
                List.mem_filterMap.mpr ⟨_, hp0, rfl⟩
              have := length_le_one_eq hk.text m1 m2
              exact haa (congrArg Prod.fst this)
            · cases hq'
        simp [this, Kw.set_other _ _ haa]
  obtain ⟨kw3, h3, e3⟩ := htext
  -- generic handlers
  obtain ⟨kw4, h4, e4⟩ := generics_loop S (toXml ps name o) (ps.filterMap (·.generic?)) (by
    intro g hg
    obtain ⟨q, hq, hqg⟩ := List.mem_filterMap.mp hg
    cases q <;> simp [Property.generic?] at hqg
    subst hqg
    exact (hF _ hq).2.2) kw3
  refine ⟨kw4, ?_, ?_, ?_⟩
  · have ha : (toXml ps name o).attrs = ps.flatMap (·.attrsOut o) := rfl
    have hc : (toXml ps name o).children = ps.flatMap (·.childrenOut o) := rfl
    simp only [parseStages, ha, hc, h1, h2, h3, h4, Option.bind_eq_bind, Option.bind_some]
  · intro p hp a ha
    have hSa := hS a (mem_declArgs hp ha)
    rw [e4 a hSa, e3 a, e2 a hSa, e1 a, hT p hp a ha, hC p hp a ha, hA p hp a ha]
    simp [declEff, Kw.empty]
  · intro a hSa hna
    rw [e4 a hSa, e3 a, e2 a hSa, e1 a,
      noowner (textEff o) (fun a q hs => textEff_declArg hs) a hna,
      noowner (childEff o) (fun a q hs => childEff_declArg hs) a hna,
      noowner (attrEff o) (fun a q hs => attrEff_declArg hs) a hna]
    simp [Kw.empty]

/-- the constructor fills in what was elided: the owner's contribution, defaulted, is the object's value;
a required declarative argument is always present -/
theorem declEff_value (ps : List (Property V)) (S : String → Prop) (o cd : Obj V) (p : Property V)
    (hf : FieldOK ps S o cd p) (a : String) (ha : p.declArg? = some a) :
    (declEff o a p).getD (cd a) = o a ∧ (p.requiredArg? = some a → (declEff o a p).isSome) := by
  cases p with
  | attr adm arg c req dflt =>
    obtain ⟨v, hov, _, hd⟩ := hf
    simp only [Property.declArg?, Option.some.injEq] at ha; subst ha
    by_cases hvd : v = dflt
    · cases req with
      | true => simp only [if_true] at hd; exact absurd hvd hd
      | false =>
        simp only [Bool.false_eq_true, if_false] at hd
        simp [declEff, textEff, childEff, attrEff, hov, hvd, hd, Property.requiredArg?]
    · simp [declEff, textEff, childEff, attrEff, hov, hvd]
  | attrElement adm arg c req dflt po =>
    cases po with
    | true => simp [Property.declArg?] at ha
    | false =>
      rcases hf with h | ⟨hpo, v, hov, _, hd⟩
      · cases h.1
      simp only [Property.declArg?, Bool.false_eq_true, if_false, Option.some.injEq] at ha; subst ha
      by_cases hvd : v = dflt
      · cases req with
        | true => simp only [if_true] at hd; exact absurd hvd hd
        | false =>
          simp only [Bool.false_eq_true, if_false] at hd
          simp [declEff, textEff, childEff, attrEff, hov, hvd, hd, Property.requiredArg?]
      · simp [declEff, textEff, childEff, attrEff, hov, hvd]
  | listElement adm arg c req po =>
    cases po with
    | true => simp [Property.declArg?] at ha
    | false =>
      rcases hf with h | ⟨hpo, vs, hov, _, hd⟩
      · cases h.1
      simp only [Property.declArg?, Bool.false_eq_true, if_false, Option.some.injEq] at ha; subst ha
      cases vs with
      | nil =>
        obtain ⟨hr, hcd⟩ := hd rfl
        simp [declEff, textEff, childEff, attrEff, hov, hcd, Property.requiredArg?, hr]
      | cons v vs => simp [declEff, textEff, childEff, attrEff, hov]
  | handleText arg c =>
    obtain ⟨v, hov, _⟩ := hf
    simp only [Property.declArg?, Option.some.injEq] at ha; subst ha
    simp [declEff, textEff, hov]
  | typeAttribute d l arg cD cL req =>
    obtain ⟨v, hov, _⟩ := hf
    simp only [Property.declArg?, Option.some.injEq] at ha; subst ha
    simp [declEff, textEff, childEff, attrEff, hov]
  | customElement adm arg req impl => simp [Property.declArg?] at ha
  | genericElement arg req impl => simp [Property.declArg?] at ha

/-- a required argument of a declarative property is the argument it writes (parse-only properties are
never required) -/
theorem requiredArg_declArg (ps : List (Property V)) (S : String → Prop) (o cd : Obj V) (p : Property V)
    (hf : FieldOK ps S o cd p) (hc : p.isCustom = false) (a : String) (ha : p.requiredArg? = some a) :
    p.declArg? = some a := by
  cases p with
  | attr adm arg c req dflt => cases req <;> simp_all [Property.requiredArg?, Property.declArg?]
  | attrElement adm arg c req dflt po =>
    cases po with
    | false => cases req <;> simp_all [Property.requiredArg?, Property.declArg?]
    | true =>
      rcases hf with h | ⟨hpo, v, hov, _, hd⟩
      · simp [Property.requiredArg?, h.2] at ha
      · cases hpo
  | listElement adm arg c req po =>
    cases po with
    | false => cases req <;> simp_all [Property.requiredArg?, Property.declArg?]
    | true =>
      rcases hf with h | ⟨hpo, vs, hov, _, hd⟩
      · simp [Property.requiredArg?, h.2] at ha
      · cases hpo
  | handleText arg c => simp [Property.requiredArg?] at ha
  | typeAttribute d l arg cD cL req => cases req <;> simp_all [Property.requiredArg?, Property.declArg?]
  | customElement adm arg req impl => simp [Property.isCustom] at hc
  | genericElement arg req impl => simp [Property.isCustom] at hc

/-- **Round trip of the declarative layer.**  Under `WF` (field codecs round-trip on the values carried,
keys / arguments pairwise distinct, defaults elided symmetrically, hand-written handlers framed) and if the
hand-written handlers deliver their own required arguments, parsing what `to_xml` wrote succeeds; the
resulting object agrees with the original on every declarative argument, and every other argument in `S`
holds its constructor default. -/
theorem codec_roundtrip (ps : List (Property V)) (S : String → Prop) (name : String) (o cd : Obj V)
    (h : WF ps S o cd)
    (hreq : ∀ kw, parseStages ps (toXml ps name o) = some kw →
      ∀ p ∈ ps, p.isCustom = true → ∀ a, p.requiredArg? = some a → (kw a).isSome) :
    ∃ o', parse ps cd (toXml ps name o) = some o' ∧ (∀ a ∈ declArgs ps, o' a = o a) ∧
      (∀ a, S a → a ∉ declArgs ps → o' a = cd a) := by
  obtain ⟨kw, hst, hdecl, hother⟩ := stages_roundtrip ps S name o cd h
  have hall : (ps.filterMap (·.requiredArg?)).all (fun a => (kw a).isSome) = true := by
    rw [List.all_eq_true]
    intro a ha
    obtain ⟨p, hp, hpa⟩ := List.mem_filterMap.mp ha
    cases hc : p.isCustom with
    | true => exact hreq kw hst p hp hc a hpa
    | false =>
      have hd := requiredArg_declArg ps S o cd p (h.fields p hp) hc a hpa
      rw [hdecl p hp a hd]
      exact (declEff_value ps S o cd p (h.fields p hp) a hd).2 hpa
  refine ⟨fun a => (kw a).getD (cd a), ?_, ?_, ?_⟩
  · unfold parse parseKw
    rw [hst, Option.bind_some, if_pos hall]
    rfl
  · intro a ha
    obtain ⟨p, hp, hpa⟩ := List.mem_filterMap.mp ha
    simp only [hdecl p hp a hpa]
    exact (declEff_value ps S o cd p (h.fields p hp) a hpa).1
  · intro a hSa hna
    simp [hother a hSa hna]

/-- For a parser made of declarative properties only, the object itself comes back, and generating XML
from the parsed object reproduces the same tree. -/
theorem codec_roundtrip_pure (ps : List (Property V)) (name : String) (o cd : Obj V)
    (h : WF ps (fun _ => True) o cd) (hpure : ∀ p ∈ ps, p.isCustom = false)
    (hrest : ∀ a, a ∉ declArgs ps → o a = cd a) :
    parse ps cd (toXml ps name o) = some o ∧
    (parse ps cd (toXml ps name o)).map (toXml ps name) = some (toXml ps name o) := by
  obtain ⟨o', hp, h1, h2⟩ := codec_roundtrip ps (fun _ => True) name o cd h
    (fun kw _ p hp hc => by rw [hpure p hp] at hc; cases hc)
  have : o' = o := by
    funext a
    by_cases ha : a ∈ declArgs ps
    · exact h1 a ha
    · rw [h2 a trivial ha, hrest a ha]
  subst this
  exact ⟨hp, by rw [hp]; rfl⟩

/-- what the declarative properties write depends only on the declarative arguments: together with
`codec_roundtrip` this is `to_xml (parse (to_xml obj)) = to_xml obj` for the declarative part of a mixed
parser (attributes, child elements and text written by declarative properties) -/
theorem toXml_decl_congr (ps : List (Property V)) (o o' : Obj V) (h : ∀ a ∈ declArgs ps, o' a = o a) :
    (∀ p ∈ ps, p.isCustom = false → p.attrsOut o' = p.attrsOut o ∧ p.childrenOut o' = p.childrenOut o) ∧
    textOut ps o' = textOut ps o := by
  constructor
  · intro p hp hc
    cases p with
    | attr adm arg c req dflt =>
      have := h arg (mem_declArgs hp rfl)
      simp [Property.attrsOut, Property.childrenOut, this]
    | attrElement adm arg c req dflt po =>
      cases po with
      | true => simp [Property.attrsOut, Property.childrenOut]
      | false =>
        have := h arg (mem_declArgs hp rfl)
        simp [Property.attrsOut, Property.childrenOut, this]
    | listElement adm arg c req po =>
      cases po with
      | true => simp [Property.attrsOut, Property.childrenOut]
      | false =>
        have := h arg (mem_declArgs hp rfl)
        simp [Property.attrsOut, Property.childrenOut, this]
    | handleText arg c => simp [Property.attrsOut, Property.childrenOut]
    | typeAttribute d l arg cD cL req =>
      have := h arg (mem_declArgs hp rfl)
      simp [Property.attrsOut, Property.childrenOut, this]
    | customElement adm arg req impl => simp [Property.isCustom] at hc
    | genericElement arg req impl => simp [Property.isCustom] at hc
  · unfold textOut
    cases hfs : ps.findSome? (·.textHandler?) with
    | none => rfl
    | some t =>
      obtain ⟨arg, c⟩ := t
      obtain ⟨p0, hp0, ht0⟩ := List.exists_of_findSome?_eq_some hfs
      have hp0eq : p0 = .handleText arg c := by
        cases p0 <;> simp [Property.textHandler?] at ht0
        obtain ⟨rfl, rfl⟩ := ht0; rfl
      subst hp0eq
      simp only [h arg (mem_declArgs hp0 rfl)]

end Earverif.XmlCodec
