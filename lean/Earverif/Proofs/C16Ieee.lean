/-
Lemmas about the binary64 rounding model `Earverif.Ieee.rn53` (Model/Ieee.lean) used by C16.
-/
import Earverif.Model.Pcm
import Mathlib.Data.Rat.Floor
import Mathlib.Data.Nat.Log
import Mathlib.Algebra.Order.Field.Power
import Mathlib.Tactic.Ring
import Mathlib.Tactic.Linarith
import Mathlib.Tactic.FieldSimp
import Mathlib.Tactic.NormNum

namespace Earverif.Ieee

theorem floor_eq (x : ℚ) : x.floor = ⌊x⌋ := rfl

theorem two_zpow_pos (s : ℤ) : (0 : ℚ) < (2 : ℚ) ^ s := zpow_pos (by norm_num) s

/-- `roundHalfEven` is within 1/2 of its argument. -/
theorem rhe_err (m : ℚ) : |(roundHalfEven m : ℚ) - m| ≤ 1 / 2 := by
  have h1 : ((m.floor : ℤ) : ℚ) ≤ m := Int.floor_le m
  have h2 : m < ((m.floor : ℤ) : ℚ) + 1 := Int.lt_floor_add_one m
  simp only [roundHalfEven]
  generalize m.floor = f at *
  split_ifs with a b c <;> rw [abs_le] <;> constructor <;> push_cast <;> linarith

/-- `roundHalfEven` returns the integer `N` whenever the argument is strictly within 1/2 of it. -/
theorem rhe_snap (m : ℚ) (N : ℤ) (h : |m - N| < 1 / 2) : roundHalfEven m = N := by
  rw [abs_lt] at h
  obtain ⟨hl, hr⟩ := h
  rcases le_or_gt (N : ℚ) m with hm | hm
  · have hf : m.floor = N := by
      rw [floor_eq, Int.floor_eq_iff]; constructor <;> linarith
    simp only [roundHalfEven, hf]
    split_ifs with a b c <;> first | rfl | (exfalso; linarith)
  · have hf : m.floor = N - 1 := by
      rw [floor_eq, Int.floor_eq_iff]; push_cast; constructor <;> linarith
    simp only [roundHalfEven, hf]
    split_ifs with a b c <;> first | omega | (exfalso; push_cast at *; linarith)

/-- `roundHalfEven` does not cross an integer bound. -/
theorem rhe_le (m : ℚ) (N : ℤ) (h : m ≤ N) : roundHalfEven m ≤ N := by
  have h1 : ((m.floor : ℤ) : ℚ) ≤ m := Int.floor_le m
  have hfN : m.floor ≤ N := by exact_mod_cast (le_trans h1 h)
  simp only [roundHalfEven]
  generalize m.floor = f at *
  have key : 1 / 2 ≤ m - (f : ℚ) → f + 1 ≤ N := by
    intro hh
    have : (f : ℚ) < N := by linarith
    have : f < N := by exact_mod_cast this
    omega
  split_ifs with a b c
  · exact hfN
  · exact key (by linarith)
  · exact hfN
  · exact key (by linarith)

theorem rhe_ge (m : ℚ) (N : ℤ) (h : (N : ℚ) ≤ m) : N ≤ roundHalfEven m := by
  have hfN : N ≤ m.floor := Int.le_floor.mpr h
  simp only [roundHalfEven]
  generalize m.floor = f at *
  split_ifs <;> omega

/-- the bit-length estimate used by `ilog2` is off by less than one either way -/
theorem ilog2_est (x : ℚ) (hx : 0 < x) :
    (2 : ℚ) ^ (((x.num.natAbs.log2 : ℕ) : ℤ) - ((x.den.log2 : ℕ) : ℤ) - 1) < x ∧
    x < (2 : ℚ) ^ (((x.num.natAbs.log2 : ℕ) : ℤ) - ((x.den.log2 : ℕ) : ℤ) + 1) := by
  have hnum : 0 < x.num := Rat.num_pos.mpr hx
  set n := x.num.natAbs with hn
  set d := x.den with hd
  have hn0 : n ≠ 0 := by omega
  have hd0 : d ≠ 0 := x.den_nz
  have hxe : x = (n : ℚ) / (d : ℚ) := by
    have h := (Rat.num_div_den x).symm
    have : (x.num : ℚ) = ((n : ℕ) : ℚ) := by
      have : x.num = (n : ℤ) := by omega
      rw [this]; simp
    rw [this] at h; exact h
  have hA1 : (2 : ℚ) ^ n.log2 ≤ n := by exact_mod_cast Nat.log2_self_le hn0
  have hA2 : (n : ℚ) < 2 * 2 ^ n.log2 := by
    have := @Nat.lt_log2_self n
    rw [pow_succ] at this
    have h2 : ((n : ℕ) : ℚ) < ((2 ^ n.log2 * 2 : ℕ) : ℚ) := by exact_mod_cast this
    push_cast at h2; linarith
  have hB1 : (2 : ℚ) ^ d.log2 ≤ d := by exact_mod_cast Nat.log2_self_le hd0
  have hB2 : (d : ℚ) < 2 * 2 ^ d.log2 := by
    have := @Nat.lt_log2_self d
    rw [pow_succ] at this
    have h2 : ((d : ℕ) : ℚ) < ((2 ^ d.log2 * 2 : ℕ) : ℚ) := by exact_mod_cast this
    push_cast at h2; linarith
  have hPa : (0 : ℚ) < 2 ^ n.log2 := by positivity
  have hPb : (0 : ℚ) < 2 ^ d.log2 := by positivity
  have hdq : (0 : ℚ) < d := by linarith
  have hnq : (0 : ℚ) < n := by linarith
  have e1 : (2 : ℚ) ^ (((n.log2 : ℕ) : ℤ) - ((d.log2 : ℕ) : ℤ) - 1) = 2 ^ n.log2 / 2 ^ d.log2 / 2 := by
    rw [zpow_sub₀ (by norm_num), zpow_sub₀ (by norm_num), zpow_natCast, zpow_natCast, zpow_one]
  have e2 : (2 : ℚ) ^ (((n.log2 : ℕ) : ℤ) - ((d.log2 : ℕ) : ℤ) + 1) = 2 ^ n.log2 / 2 ^ d.log2 * 2 := by
    rw [zpow_add₀ (by norm_num), zpow_sub₀ (by norm_num), zpow_natCast, zpow_natCast, zpow_one]
  rw [e1, e2, hxe]
  constructor
  · rw [div_div, div_lt_div_iff₀ (by positivity) hdq]
    nlinarith
  · rw [div_mul_eq_mul_div, div_lt_div_iff₀ hdq hPb]
    nlinarith

/-- `ilog2 x` is the binade of `x`. -/
theorem ilog2_spec (x : ℚ) (hx : 0 < x) : (2 : ℚ) ^ ilog2 x ≤ x ∧ x < (2 : ℚ) ^ (ilog2 x + 1) := by
  obtain ⟨h1, h2⟩ := ilog2_est x hx
  simp only [ilog2]
  generalize ((x.num.natAbs.log2 : ℕ) : ℤ) - ((x.den.log2 : ℕ) : ℤ) = e0 at *
  split_ifs with h
  · refine ⟨le_of_lt h1, ?_⟩
    have : e0 - 1 + 1 = e0 := by ring
    rw [this]; exact h
  · exact ⟨not_lt.mp h, h2⟩

theorem ilog2_unique (x : ℚ) (e : ℤ) (h1 : (2 : ℚ) ^ e ≤ x) (h2 : x < (2 : ℚ) ^ (e + 1)) : ilog2 x = e := by
  have hx : 0 < x := lt_of_lt_of_le (two_zpow_pos e) h1
  obtain ⟨s1, s2⟩ := ilog2_spec x hx
  have a : (2 : ℚ) ^ ilog2 x < (2 : ℚ) ^ (e + 1) := lt_of_le_of_lt s1 h2
  have b : (2 : ℚ) ^ e < (2 : ℚ) ^ (ilog2 x + 1) := lt_of_le_of_lt h1 s2
  rw [zpow_lt_zpow_iff_right₀ (by norm_num)] at a b
  omega

/-- rounding to the grid of binade `e` moves a value by at most half a grid step -/
theorem rnAt_err (e : ℤ) (x : ℚ) : |rnAt e x - x| ≤ (2 : ℚ) ^ (e - 52) / 2 := by
  have hP := two_zpow_pos (e - 52)
  simp only [rnAt]
  generalize (2 : ℚ) ^ (e - 52) = P at *
  have hx : x = x / P * P := by field_simp
  have h := rhe_err (x / P)
  calc |(roundHalfEven (x / P) : ℚ) * P - x|
      = |((roundHalfEven (x / P) : ℚ) - x / P) * P| := by
        congr 1; rw [sub_mul, ← hx]
    _ = |(roundHalfEven (x / P) : ℚ) - x / P| * P := by rw [abs_mul, abs_of_pos hP]
    _ ≤ 1 / 2 * P := mul_le_mul_of_nonneg_right h (le_of_lt hP)
    _ = P / 2 := by ring

/-- a value strictly within half a grid step of the grid point `N·2^(e-52)` rounds to it -/
theorem rnAt_snap (e : ℤ) (x : ℚ) (N : ℤ) (h : |x - N * (2 : ℚ) ^ (e - 52)| < (2 : ℚ) ^ (e - 52) / 2) :
    rnAt e x = N * (2 : ℚ) ^ (e - 52) := by
  have hP := two_zpow_pos (e - 52)
  simp only [rnAt]
  generalize (2 : ℚ) ^ (e - 52) = P at *
  have : |x / P - N| < 1 / 2 := by
    have e1 : x / P - N = (x - N * P) / P := by field_simp
    rw [e1, abs_div, abs_of_pos hP, div_lt_iff₀ hP]
    linarith
  rw [rhe_snap _ _ this]

theorem rnAt_le (e : ℤ) (x : ℚ) (N : ℤ) (h : x ≤ N * (2 : ℚ) ^ (e - 52)) :
    rnAt e x ≤ N * (2 : ℚ) ^ (e - 52) := by
  have hP := two_zpow_pos (e - 52)
  simp only [rnAt]
  generalize (2 : ℚ) ^ (e - 52) = P at *
  have : roundHalfEven (x / P) ≤ N := rhe_le _ _ (by rw [div_le_iff₀ hP]; exact h)
  have : ((roundHalfEven (x / P) : ℤ) : ℚ) ≤ N := by exact_mod_cast this
  exact mul_le_mul_of_nonneg_right this (le_of_lt hP)

theorem rnAt_ge (e : ℤ) (x : ℚ) (N : ℤ) (h : N * (2 : ℚ) ^ (e - 52) ≤ x) :
    N * (2 : ℚ) ^ (e - 52) ≤ rnAt e x := by
  have hP := two_zpow_pos (e - 52)
  simp only [rnAt]
  generalize (2 : ℚ) ^ (e - 52) = P at *
  have : N ≤ roundHalfEven (x / P) := rhe_ge _ _ (by rw [le_div_iff₀ hP]; exact h)
  have : (N : ℚ) ≤ ((roundHalfEven (x / P) : ℤ) : ℚ) := by exact_mod_cast this
  exact mul_le_mul_of_nonneg_right this (le_of_lt hP)

/-- on the binade `[2^e, 2^(e+1))` `rn53` is rounding to the grid of that binade -/
theorem rn53_pos (x : ℚ) (e : ℤ) (h1 : (2 : ℚ) ^ e ≤ x) (h2 : x < (2 : ℚ) ^ (e + 1)) :
    rn53 x = rnAt e x := by
  have hx : 0 < x := lt_of_lt_of_le (two_zpow_pos e) h1
  simp only [rn53, if_neg (ne_of_gt hx), if_pos hx, ilog2_unique x e h1 h2]

theorem rn53_zero : rn53 0 = 0 := by simp [rn53]

/-- `rn53` is odd. -/
theorem rn53_neg (x : ℚ) : rn53 (-x) = -rn53 x := by
  rcases lt_trichotomy x 0 with h | h | h
  · have h1 : -x ≠ 0 := by intro hh; linarith [neg_eq_zero.mp hh]
    have h2 : 0 < -x := by linarith
    have h3 : ¬ 0 < x := by linarith
    simp only [rn53, if_neg h1, if_pos h2, if_neg (ne_of_lt h), if_neg h3, neg_neg]
  · subst h; simp [rn53]
  · have h1 : -x ≠ 0 := by intro hh; linarith [neg_eq_zero.mp hh]
    have h2 : ¬ 0 < -x := by linarith
    simp only [rn53, if_neg h1, if_neg h2, if_neg (ne_of_gt h), if_pos h, neg_neg]

end Earverif.Ieee
