"""C02 — rendered output is independent of the input blocking (and has the input's length, from time 0).

Shared machinery for C02 and C03: scenario generator (accepted timelines only), the real
`ear.core.renderer.Renderer` driven through its public API with small block/decorrelator sizes, gain capture
from the real gain calculators, the encoding for the Lean driver `c02driver` and the comparison.

Round 4: items may carry a track spec (`item["spec"]` for Objects/DirectSpeakers, `item["specs"]` for HOA) as a
JSON-friendly nested list
    ["D", i] | ["S"] | ["M", [spec, ...]] | ["G", "n/d", spec] | ["X", "n/d"|None, "n/d"|None, spec]
(`X gain delay_ms input`; rationals are the exact values of the floats given to the real classes). Such scenarios
render through the REAL Renderer with those `track_spec`s and are compared with the extended Lean model
(`Model/RendererTS.lean`, driver ops `runts` / `spects`); scenarios without specs go through the original model.
"""
import copy
import itertools
import random
import warnings
import json
from fractions import Fraction as F

import numpy as np

from .common import Spec, Driver, Infra

LAYOUTS = ("0+2+0", "0+5+0")
BLOCK_SIZES = (1, 2, 4, 8)
DECORR_SIZES = (2, 4, 8, 16)
SAMPLE_RATES = (8, 10, 48, 1000, 44100, 48000)

OBJ_POS = [(0.0, 0.0, 1.0), (30.0, 0.0, 1.0), (-30.0, 0.0, 1.0), (10.0, 0.0, 1.0), (-110.0, 0.0, 1.0), (60.0, 20.0, 1.0)]
DIFFUSE = [0.0, 0.0, 0.3, 1.0]
HOA_VARIANTS = {
    "o0": dict(orders=[0], degrees=[0], normalization="SN3D"),
    "o1": dict(orders=[0, 1, 1, 1], degrees=[0, -1, 0, 1], normalization="SN3D"),
}

# --------------------------------------------------------------------------------------
# real renderer: templates, gain capture


_templates = {}
_gain_cache = {}


def template(layout_name, B, N):
    """A constructed real Renderer (public options only) and the decorrelation filters it designed."""
    key = (layout_name, B, N)
    if key not in _templates:
        from ear.core import bs2051
        from ear.core.renderer import Renderer
        import ear.core.objectbased.renderer as obr

        layout = bs2051.get_layout(layout_name)
        captured = {}
        orig = obr.decorrelate.design_decorrelators

        def wrapped(*a, **kw):
            captured["f"] = orig(*a, **kw)
            return captured["f"]

        obr.decorrelate.design_decorrelators = wrapped
        try:
            opts = {}
            if B is not None:
                opts = dict(object_renderer_opts=dict(block_size=B, decorrelator_opts=dict(basic_opts=dict(size=N))))
            r = Renderer(layout, **opts)
        finally:
            obr.decorrelate.design_decorrelators = orig
        _templates[key] = (r, np.array(captured["f"], dtype=float), layout)
    return _templates[key]


def fr(s):
    return None if s is None else F(s)


def frs(q):
    return None if q is None else "%d/%d" % (q.numerator, q.denominator)


# --------------------------------------------------------------------------------------
# track specs (round 4)


def spec_real(t):
    """nested-list spec -> real TrackSpec objects"""
    from ear.core.metadata_input import (DirectTrackSpec, SilentTrackSpec, MixTrackSpec, GainTrackSpec,
                                         MatrixCoefficientTrackSpec)
    from ear.fileio.adm.elements import MatrixCoefficient

    k = t[0]
    if k == "D":
        return DirectTrackSpec(t[1])
    if k == "S":
        return SilentTrackSpec()
    if k == "M":
        return MixTrackSpec([spec_real(c) for c in t[1]])
    if k == "G":
        return GainTrackSpec(spec_real(t[2]), float(F(t[1])))
    if k == "X":
        return MatrixCoefficientTrackSpec(
            spec_real(t[3]),
            MatrixCoefficient(gain=None if t[1] is None else float(F(t[1])),
                              delay=None if t[2] is None else float(F(t[2]))))
    raise AssertionError(t)


def spec_text(t):
    """nested-list spec -> the driver's prefix syntax"""
    k = t[0]
    if k == "D":
        return "D %d" % t[1]
    if k == "S":
        return "S"
    if k == "M":
        return " ".join(["M %d" % len(t[1])] + [spec_text(c) for c in t[1]])
    if k == "G":
        return "G %s %s" % (t[1], spec_text(t[2]))
    if k == "X":
        return "X %s %s %s" % ("-" if t[1] is None else t[1], "-" if t[2] is None else t[2], spec_text(t[3]))
    raise AssertionError(t)


def spec_bound(t):
    """max |output| per unit |input| (for tolerances)"""
    k = t[0]
    if k == "D":
        return 1.0
    if k == "S":
        return 0.0
    if k == "M":
        return sum(spec_bound(c) for c in t[1])
    if k == "G":
        return abs(float(F(t[1]))) * spec_bound(t[2])
    return (1.0 if t[1] is None else abs(float(F(t[1])))) * spec_bound(t[3])


def uses_ts(sc):
    return any("spec" in it or "specs" in it for it in sc["items"])


def item_specs(it):
    """The track spec(s) of an item (a plain `track` is `DirectTrackSpec(track)`)."""
    if it["kind"] == "H":
        return it["specs"] if "specs" in it else [["D", t] for t in it["tracks"]]
    return [it["spec"] if "spec" in it else ["D", it["track"]]]


def _exact_delay_samples(sr, ms):
    """ceil(sr*ms/1000 - 1/2) in exact arithmetic (the documented meaning of the code's formula)"""
    q = F(sr) * ms / 1000 - F(1, 2)
    return -((-q.numerator) // q.denominator)


def gen_delay_ms(rng, sr, T):
    """A delay in ms (as the exact Fraction of a float) that is k (+-1/4) samples at `sr`, far from a rounding tie so
    that the code's float formula and exact arithmetic agree. Returns (string, k)."""
    for _ in range(20):
        k = rng.choice([0, 1, 1, 2, 3, 5, T + 2])
        off = rng.choice([F(0), F(1, 4), F(-1, 4)]) if k > 0 else rng.choice([F(0), F(1, 4)])
        ms = F(float(F(1000) * (k + off) / sr))
        q = F(sr) * ms / 1000 - F(1, 2)
        if abs(q - round(q)) >= F(1, 10 ** 6) and _exact_delay_samples(sr, ms) == k:
            return frs(ms), k
    return "0/1", 0


TS_GAINS = ["1/2", "2/1", "-1/1", "1/4", "3/2", "1/1"]


def gen_spec(rng, sc, feat, depth=0):
    nin, sr, T = sc["nin"], sc["sr"], sc["T"]
    d = ["D", rng.randrange(nin)]
    k = rng.random()
    if depth >= 2:
        k *= 0.45
    if k < 0.15:
        return d
    if k < 0.22:
        feat.add("ts:silent")
        return ["S"]
    if k < 0.45:
        ms, n = gen_delay_ms(rng, sr, T)
        feat.add("ts:matrix-delay" + ("" if n <= T else ">T") if n else "ts:matrix-delay0")
        g = rng.choice([None] + TS_GAINS)
        return ["X", g, ms, d if rng.random() < 0.7 else gen_spec(rng, sc, feat, depth + 1)]
    if k < 0.6:
        feat.add("ts:gain")
        return ["G", rng.choice(TS_GAINS), gen_spec(rng, sc, feat, depth + 1)]
    if k < 0.85:
        feat.add("ts:mix")
        n = rng.choice([1, 2, 2, 3])
        kids = [gen_spec(rng, sc, feat, depth + 1) for _ in range(n)]
        if rng.random() < 0.25:
            kids.insert(rng.randrange(len(kids) + 1), ["S"])
        return ["M", kids]
    # the shape select_items builds for a matrix channel: gain(mix(matrix coefficients))
    feat.add("ts:matrix-pack")
    coeffs = []
    for _ in range(rng.choice([1, 2, 3])):
        ms = None
        if rng.random() < 0.6:
            ms, _n = gen_delay_ms(rng, sr, T)
            feat.add("ts:matrix-delay")
        coeffs.append(["X", rng.choice([None] + TS_GAINS), ms, ["D", rng.randrange(nin)]])
    return ["G", rng.choice(TS_GAINS), ["M", coeffs]]


def add_specs(rng, sc):
    """Give every item of a generated scenario a non-trivial track spec (most of them)."""
    feat = set(sc["features"])
    for it in sc["items"]:
        if it["kind"] == "H":
            it["specs"] = [gen_spec(rng, sc, feat) if rng.random() < 0.7 else ["D", t] for t in it["tracks"]]
        else:
            it["spec"] = gen_spec(rng, sc, feat) if rng.random() < 0.9 else ["D", it["track"]]
    if sc["T"] >= 2 and rng.random() < 0.35:
        # a stretch of digital silence in the input (delay lines must keep running through it)
        a = rng.randrange(sc["T"])
        for j in range(a, min(sc["T"], a + rng.randint(1, max(1, sc["T"] // 2)))):
            sc["x"][j] = [0] * sc["nin"]
        feat.add("ts:silent-run")
    feat.add("ts")
    sc["features"] = sorted(feat)
    return sc


def gen_rejected_ts(rng):
    """A track spec outside `Spec.wf` (the processors raise at the first call): model and code must agree."""
    sc = add_specs(rng, gen_scenario(rng, small=True))
    it = rng.choice(sc["items"])
    k = rng.choice(["bad-index", "neg-delay"])
    if k == "bad-index":
        bad = ["D", sc["nin"] + rng.choice([0, 1])]
    else:
        bad = ["X", None, frs(F(float(F(-1000) * rng.choice([1, 2, 5]) / sc["sr"]))), ["D", 0]]
    wrap = rng.choice(["top", "gain", "mix"])
    if wrap == "gain":
        bad = ["G", "2/1", bad]
    elif wrap == "mix":
        bad = ["M", [["D", 0], bad]]
    if it["kind"] == "H":
        it["specs"][rng.randrange(len(it["specs"]))] = bad
    else:
        it["spec"] = bad
    sc["features"] = sorted(set(sc["features"]) | {"rejected:ts-" + k})
    return sc


def make_py_blocks(item):
    """Real TypeMetadata objects for one item of a scenario."""
    from ear.core.metadata_input import (ObjectTypeMetadata, DirectSpeakersTypeMetadata, HOATypeMetadata, ExtraData)
    from ear.fileio.adm.elements import (AudioBlockFormatObjects, AudioBlockFormatDirectSpeakers,
                                         ObjectPolarPosition, JumpPosition, DirectSpeakerPolarPosition,
                                         BoundCoordinate)

    out = []
    for b in item["blocks"]:
        ed = ExtraData(object_start=fr(b["os"]), object_duration=fr(b["od"]))
        if item["kind"] == "O":
            az, el, d = b["pos"]
            bf = AudioBlockFormatObjects(
                position=ObjectPolarPosition(az, el, d), rtime=fr(b["rt"]), duration=fr(b["du"]),
                diffuse=b["diffuse"], gain=b.get("gain", 1.0),
                jumpPosition=JumpPosition(flag=bool(b["jump"]), interpolationLength=fr(b["il"])))
            out.append(ObjectTypeMetadata(block_format=bf, extra_data=ed))
        elif item["kind"] == "D":
            bf = AudioBlockFormatDirectSpeakers(
                position=DirectSpeakerPolarPosition(bounded_azimuth=BoundCoordinate(b["az"]),
                                                    bounded_elevation=BoundCoordinate(0.0)),
                speakerLabel=[b["label"]] if b["label"] else [], rtime=fr(b["rt"]), duration=fr(b["du"]),
                gain=b.get("gain", 1.0))
            out.append(DirectSpeakersTypeMetadata(block_format=bf, extra_data=ed))
        else:
            out.append(HOATypeMetadata(rtime=fr(b["rt"]), duration=fr(b["du"]), extra_data=ed,
                                       **HOA_VARIANTS[b["variant"]]))
    return out


def gain_key(sc, item, b):
    if item["kind"] == "O":
        return (sc["layout"], "O", tuple(b["pos"]), b["diffuse"], b.get("gain", 1.0))
    if item["kind"] == "D":
        return (sc["layout"], "D", b["az"], b["label"], b.get("gain", 1.0))
    return (sc["layout"], "H", b["variant"])


def real_gains(sc, tmpl, item, b, pyblock):
    """Result of the real gain calculator of `tmpl` for a block (cached by the block's rendering parameters)."""
    key = gain_key(sc, item, b)
    if key not in _gain_cache:
        r = tmpl
        if item["kind"] == "O":
            g = np.array(r._object_renderer._calc_gains(pyblock), dtype=float)
        elif item["kind"] == "D":
            g = np.array(r._direct_speakers_renderer._panner.handle(pyblock), dtype=float)
        else:
            g = np.array(r._hoa_renderer._decoder_design.design(pyblock), dtype=float)
        _gain_cache[key] = g
    return _gain_cache[key]


class Session:
    """One scenario on the real renderer: fresh state, real gain calculators wrapped for capture."""

    def __init__(self, sc):
        from ear.core.metadata_input import (ObjectRenderingItem, DirectSpeakersRenderingItem, HOARenderingItem,
                                             DirectTrackSpec, MetadataSourceIter)

        warnings.simplefilter("ignore")  # e.g. "LFE indication ... does not match speakerLabel" (irrelevant here)
        tmpl, self.taps, self.layout = template(sc["layout"], sc["B"], sc["N"])
        self.sc = sc
        self.r = copy.deepcopy(tmpl)
        self.nout = len(self.layout.channels)
        self.gains = {}  # id(pyblock) -> captured gains
        self.item_gains = []  # per item, per block (for the model)
        self.calls = 0
        items = []
        self._keep = []
        for it in sc["items"]:
            pbs = make_py_blocks(it)
            self._keep.append(pbs)
            gs = []
            for b, pb in zip(it["blocks"], pbs):
                g = real_gains(sc, tmpl, it, b, pb)
                self.gains[id(pb)] = g
                gs.append(g)
            self.item_gains.append(gs)
            src = MetadataSourceIter(pbs)
            if it["kind"] == "O":
                ts = spec_real(it["spec"]) if "spec" in it else DirectTrackSpec(it["track"])
                items.append(ObjectRenderingItem(track_spec=ts, metadata_source=src))
            elif it["kind"] == "D":
                ts = spec_real(it["spec"]) if "spec" in it else DirectTrackSpec(it["track"])
                items.append(DirectSpeakersRenderingItem(track_spec=ts, metadata_source=src))
            else:
                tss = ([spec_real(t) for t in it["specs"]] if "specs" in it
                       else [DirectTrackSpec(t) for t in it["tracks"]])
                items.append(HOARenderingItem(track_specs=tss, metadata_source=src))

        def replay(block):
            self.calls += 1
            return self.gains[id(block)]

        # the interpreters are constructed in set_rendering_items with these callables
        self.r._object_renderer._calc_gains = replay
        self.r._direct_speakers_renderer._panner.handle = replay
        self.r._hoa_renderer._decoder_design.design = replay
        self.r.set_rendering_items(items)
        self.hoa_mask = np.array(self.r._hoa_renderer._output_channels, dtype=bool)

    def run(self, parts):
        """-> (list of returned blocks incl. tail, exception name or None)"""
        sc = self.sc
        x = np.array(sc["x"], dtype=float).reshape(sc["T"], sc["nin"])
        outs, pos = [], 0
        try:
            for n in parts:
                outs.append(np.array(self.r.render(sc["sr"], x[pos:pos + n])))
                pos += n
            outs.append(np.array(self.r.get_tail(sc["sr"], sc["nin"])))
        except Exception as e:  # noqa: BLE001 - any exception is the observable
            return outs, type(e).__name__ + ":" + str(e)[:60]
        return outs, None


def run_real(sc, parts):
    return Session(sc).run(parts)


# --------------------------------------------------------------------------------------
# encoding for the Lean driver


def rat(x):
    q = F(x)
    return str(q.numerator) if q.denominator == 1 else "%d/%d" % (q.numerator, q.denominator)


def opt(s):
    return "-" if s is None else rat(F(s))


def encode(sc, sess, parts, mode="run"):
    nout = sess.nout
    taps = sess.taps
    ts = uses_ts(sc)
    if ts:
        mode = {"run": "runts", "spec": "spects", "runos": "runtsos"}[mode]
    secs = [mode, "cfg %d %d %d %d" % (sc["sr"], sc["B"] if sc["B"] is not None else 512, nout, sc["nin"]),
            "taps %d %s" % (taps.shape[0], " ".join(rat(v) for v in taps.reshape(-1))),
            "parts " + " ".join(str(p) for p in parts),
            "x " + " ".join(str(int(v)) for row in sc["x"] for v in row)]
    for it, gs in zip(sc["items"], sess.item_gains):
        if ts:
            sp = item_specs(it)
            if it["kind"] == "H":
                secs.append("H %d %s" % (len(sp), " ".join(spec_text(t) for t in sp)))
            else:
                secs.append("%s %s" % (it["kind"], spec_text(sp[0])))
        elif it["kind"] == "O":
            secs.append("O %d" % it["track"])
        elif it["kind"] == "D":
            secs.append("D %d" % it["track"])
        else:
            secs.append("H %d %s" % (len(it["tracks"]), " ".join(str(t) for t in it["tracks"])))
        for b, g in zip(it["blocks"], gs):
            if it["kind"] == "H":
                # decode matrix (n_nonlfe_out, n_in) -> one full-width column per input track
                full = np.zeros((nout, g.shape[1]))
                full[sess.hoa_mask] = g
                vals = full.T.reshape(-1)
            else:
                vals = g
            secs.append("b %s %s %s %s %d %s %s" % (opt(b["os"]), opt(b["od"]), opt(b["rt"]), opt(b["du"]),
                                                     1 if b.get("jump") else 0, opt(b.get("il")),
                                                     " ".join(rat(v) for v in vals)))
    return " ; ".join(secs)


def parse_frames(s, nout):
    s = s.strip()
    if not s:
        return np.zeros((0, nout))
    rows = []
    for f in s.split(","):
        row = []
        for tok in f.split():
            if "/" in tok:
                a, b = tok.split("/")
                row.append(int(a) / int(b))
            else:
                row.append(float(int(tok)))
        rows.append(row)
    return np.array(rows, dtype=float).reshape(len(rows), nout)


def parse_trace(line, nout):
    """`<k> # b1 | b2 ... [! err]` -> (list of k arrays, err)"""
    if line == "bad-op":
        raise Infra("driver rejected a request as malformed")
    err = None
    if "!" in line:
        line, err = line.rsplit("!", 1)
        err = err.strip()
    k, body = line.split("#", 1)
    k = int(k)
    blocks = [parse_frames(b, nout) for b in body.split("|")][:k] if k else []
    if len(blocks) != k:
        raise Infra("driver block count mismatch")
    return blocks, err


# --------------------------------------------------------------------------------------
# scenario generator (inside the quantifier: timelines the interpreters accept)


def _q(rng, lo, hi):
    """A rational number of frames in [lo, hi], often not an integer."""
    den = rng.choice([1, 1, 2, 3, 4, 7])
    q = F(rng.randint(int(lo * den), int(hi * den)), den)
    if rng.random() < 0.08:
        # above a (whole or fractional) frame position by far less than binary64 resolution: the exact ceiling and a
        # ceiling taken after conversion to float differ by one sample (seed C03_6)
        q += F(1, 10 ** 24)
    return q


def gen_timed_blocks(rng, sr, span, kind, feat):
    """Contiguous/gapped timed blocks covering about `span` frames. Times are frames/sr."""
    nb = rng.choice([1, 2, 3, 3, 4])
    t = F(0)
    if rng.random() < 0.4:
        t = _q(rng, 0, max(1, span // 3))
        feat.add("late-start")
    blocks = []
    for i in range(nb):
        if i > 0 and rng.random() < 0.35:
            gap = _q(rng, 0, max(1, span // 4))
            if gap > 0:
                feat.add("gap")
            t += gap
        dur = _q(rng, 0, max(2, (2 * span) // nb))
        if dur == 0:
            feat.add("zero-duration")
        b = dict(rt=frs(t / sr), du=frs(dur / sr), jump=0, il=None)
        if kind == "O":
            k = rng.random()
            if k < 0.3:
                b["jump"] = 1
                feat.add("jump-noIL")
            elif k < 0.6:
                b["jump"] = 1
                il = dur * F(rng.randint(0, 4), 4)
                b["il"] = frs(il / sr)
                feat.add("jump-IL")
                if il == 0:
                    feat.add("zero:interpolationLength=0")
            else:
                feat.add("interp-full")
                if rng.random() < 0.45:
                    # jumpPosition flag False that still carries an interpolationLength (legal in the data model and
                    # in XML): the length is ignored, the ramp spans the whole block
                    j = rng.choice(["0", "shorter", "shorter", "equal", "longer"])
                    il = {"0": F(0), "shorter": dur * F(rng.randint(1, 3), 4), "equal": dur,
                          "longer": dur + _q(rng, 1, 3)}[j]
                    b["il"] = frs(il / sr)
                    feat.add("noflag-IL:" + j)
        blocks.append(b)
        t += dur
    return blocks, t


def gen_zero_timing(rng, sc, kind, feat):
    """Timelines built around EXACT zeros in the optional numeric timing fields (all inside the quantifier: the
    interpreters accept them): object duration 0 (the object's span [start, start+0) is empty: silence everywhere)
    with an untimed block or with zero-length blocks, object start 0 given explicitly, rtime 0, block duration 0,
    interpolationLength 0. Returns (blocks, object_start in frames or None, object_duration in frames or None)."""
    sr, T = sc["sr"], sc["T"]
    os_frames = rng.choice([None, F(0), F(0), _q(rng, 1, max(1, T // 2))])
    if os_frames is not None:
        feat.add("zero:object-start=0" if os_frames == 0 else "object-start")

    def zero_block():
        b = dict(rt=frs(F(0)), du=frs(F(0)), jump=0, il=None)
        if kind == "O":
            j = rng.choice(["interp-full", "jump-noIL", "jump-IL0"])
            if j != "interp-full":
                b["jump"] = 1
            if j == "jump-IL0":
                b["il"] = frs(F(0))
                feat.add("zero:interpolationLength=0")
        return b

    v = rng.choice(["untimed-od0", "untimed-od0", "zero-blocks-od0", "zero-blocks", "explicit-zeros"])
    if v == "untimed-od0":
        feat.update(["zero:object-duration=0", "untimed-block"])
        return [dict(rt=None, du=None, jump=0, il=None)], os_frames, F(0)
    if v in ("zero-blocks-od0", "zero-blocks"):
        blocks = [zero_block() for _ in range(rng.choice([1, 2, 3]))]
        feat.update(["zero:rtime=0", "zero:block-duration=0", "zero-duration"])
        if v == "zero-blocks-od0":
            feat.add("zero:object-duration=0")
            return blocks, os_frames, F(0)
        # a zero-length block at time 0 followed by an ordinary one starting there (contiguous: ramp from it)
        dur = _q(rng, 1, max(2, T))
        b = dict(rt=frs(F(0)), du=frs(dur / sr), jump=0, il=None)
        if kind == "O" and rng.random() < 0.5:
            b["jump"], b["il"] = 1, frs(F(0))
            feat.add("zero:interpolationLength=0")
        return blocks + [b], os_frames, rng.choice([None, dur])
    # ordinary timeline spelled with explicit zeros: start 0 given, first rtime 0, a jump with interpolationLength 0
    feat.update(["zero:rtime=0", "zero:interpolationLength=0" if kind == "O" else "zero:rtime=0"])
    d1, d2 = _q(rng, 1, max(2, T // 2 + 1)), _q(rng, 0, max(2, T))
    b1 = dict(rt=frs(F(0)), du=frs(d1 / sr), jump=0, il=None)
    b2 = dict(rt=frs(d1 / sr), du=frs(d2 / sr), jump=0, il=None)
    if kind == "O":
        b2["jump"], b2["il"] = 1, frs(F(0))
    if d2 == 0:
        feat.update(["zero:block-duration=0", "zero-duration"])
    return [b1, b2], os_frames, rng.choice([None, d1 + d2])


def gen_item(rng, sc, kind, feat):
    sr, T = sc["sr"], sc["T"]
    span = max(2, int(T * rng.choice([0.6, 1.0, 1.4])))
    zero = rng.random() < 0.14
    os_frames = None
    if zero:
        blocks, os_frames, od = gen_zero_timing(rng, sc, kind, feat)
        untimed, end = None, None
    else:
        if rng.random() < 0.4:
            os_frames = _q(rng, 0, max(1, T // 3))
            feat.add("object-start")
            if os_frames == 0:
                feat.add("zero:object-start=0")
        untimed = rng.random() < (0.15 if kind == "O" else 0.5)
        if untimed:
            blocks, end = [dict(rt=None, du=None, jump=0, il=None)], None
            feat.add("untimed-block")
            if kind == "O" and rng.random() < 0.3:
                blocks[0]["il"] = frs(_q(rng, 0, 3) / sr)  # flag False: ignored
                feat.add("noflag-IL:untimed")
        else:
            blocks, end = gen_timed_blocks(rng, sr, span, kind, feat)
        od = None
    k = rng.random()
    if zero:
        pass
    elif untimed:
        if k < 0.5:
            od = _q(rng, 1, max(2, span))
            feat.add("object-duration")
        else:
            feat.add("infinite-end")
    elif k < 0.25:
        od = end
        feat.add("object-duration-exact")
        if od == 0:
            feat.add("zero:object-duration=0")
    elif k < 0.5:
        od = end + _q(rng, 0, 5)
        feat.add("object-duration")
    for b in blocks:
        b["os"] = None if os_frames is None else frs(os_frames / sr)
        b["od"] = None if od is None else frs(od / sr)
    layout_names = template(sc["layout"], sc["B"], sc["N"])[2].channel_names
    item = dict(kind=kind, blocks=blocks)
    if kind == "O":
        item["track"] = rng.randrange(sc["nin"])
        for b in blocks:
            b["pos"] = list(rng.choice(OBJ_POS))
            b["diffuse"] = rng.choice(DIFFUSE) if sc["diffuse_ok"] else 0.0
            b["gain"] = rng.choice([1.0, 1.0, 0.5])
    elif kind == "D":
        item["track"] = rng.randrange(sc["nin"])
        for b in blocks:
            b["label"] = rng.choice(list(layout_names))
            b["az"] = 0.0
            b["gain"] = rng.choice([1.0, 0.25])
    else:
        v = rng.choice(["o0", "o0", "o1"]) if sc["nin"] >= 4 else "o0"
        n = len(HOA_VARIANTS[v]["orders"])
        item["tracks"] = [rng.randrange(sc["nin"]) for _ in range(n)]
        for b in blocks:
            b["variant"] = v
    return item


def gen_scenario(rng, T=None, small=True, default_sizes=False, diffuse_ok=True):
    feat = set()
    sc = dict(layout=rng.choice(LAYOUTS), sr=rng.choice(SAMPLE_RATES))
    if default_sizes:
        sc["B"], sc["N"] = None, None
    else:
        sc["B"], sc["N"] = rng.choice(BLOCK_SIZES), rng.choice(DECORR_SIZES)
    sc["T"] = T if T is not None else (rng.randint(0, 8) if small else rng.randint(9, 60))
    sc["nin"] = rng.choice([1, 2, 4])
    sc["diffuse_ok"] = diffuse_ok
    kinds = []
    n_items = rng.choice([1, 2, 2, 3, 4])
    for _ in range(n_items):
        kinds.append(rng.choice(["O", "O", "O", "D", "H"]))
    sc["items"] = [gen_item(rng, sc, k, feat) for k in kinds]
    sc["x"] = [[rng.randint(-100, 100) for _ in range(sc["nin"])] for _ in range(sc["T"])]
    sc["features"] = sorted(feat)
    return sc


def gen_rejected(rng):
    """A timeline outside the quantifier (the interpreters raise): model and code must agree on that too."""
    sc = gen_scenario(rng, small=True)
    it = rng.choice(sc["items"])
    bs = it["blocks"]
    sr = sc["sr"]
    k = rng.choice(["overlap", "mix", "ends-after", "il-long", "negative"])
    if k == "overlap" and bs[0]["rt"] is not None:
        b = dict(bs[-1])
        b["rt"] = frs(F(bs[-1]["rt"]) - F(1, sr))
        b["du"] = frs(F(2, sr))
        bs.append(b)
    elif k == "mix":
        bs[0]["du"] = None if bs[0]["rt"] is not None else frs(F(1, sr))
    elif k == "ends-after" and bs[0]["rt"] is not None:
        end = max(F(b["rt"]) + F(b["du"]) for b in bs)
        for b in bs:
            b["od"] = frs(end - F(1, 7 * sr))
    elif k == "il-long" and it["kind"] == "O" and bs[0]["rt"] is not None:
        bs[-1]["jump"] = 1
        bs[-1]["il"] = frs(F(bs[-1]["du"]) + F(1, 3 * sr))
    elif k == "negative" and bs[0]["rt"] is not None and bs[0]["os"] is None:
        bs[0]["rt"] = frs(F(-3, 2 * sr))
        bs[0]["du"] = frs(F(bs[0]["du"]) + F(3, 2 * sr))
    sc["features"] = sorted(set(sc["features"]) | {"rejected:" + k})
    return sc


# --------------------------------------------------------------------------------------
# partitions


def compositions(T):
    """All tuples of positive integers summing to T."""
    if T == 0:
        return [()]
    out = []
    for cuts in itertools.product([0, 1], repeat=T - 1):
        parts, cur = [], 1
        for c in cuts:
            if c:
                parts.append(cur)
                cur = 1
            else:
                cur += 1
        parts.append(cur)
        out.append(tuple(parts))
    return out


def with_zeros(rng, comp, p=0.3):
    out = []
    for k in comp:
        while rng.random() < p:
            out.append(0)
        out.append(k)
    while rng.random() < p:
        out.append(0)
    return tuple(out)


def all_zeros(comp):
    out = [0]
    for k in comp:
        out += [k, 0]
    return tuple(out)


def random_partition(rng, T):
    parts, left = [], T
    while left > 0:
        k = rng.choice([0, 1, 1, 2, 3, rng.randint(1, max(1, left))])
        k = min(k, left)
        parts.append(k)
        left -= k
    if rng.random() < 0.3:
        parts.append(0)
    return tuple(parts)


def partitions_for(rng, T, exhaustive, budget):
    if T <= 8:
        comps = compositions(T)
        allp = set(comps) | {all_zeros(c) for c in comps}
        if exhaustive:
            ps = sorted(allp) + [with_zeros(rng, c) for c in comps]
            return list(dict.fromkeys(ps))
        base = [(T,), tuple([1] * T), all_zeros(tuple([1] * T))] if T else [(), (0,), (0, 0)]
        extra = rng.sample(sorted(allp), min(len(allp), max(0, budget - len(base))))
        extra = [with_zeros(rng, p) if rng.random() < 0.4 else p for p in extra]
        return list(dict.fromkeys(base + extra))
    ps = [(T,), tuple([1] * T)] + [random_partition(rng, T) for _ in range(max(1, budget - 2))]
    return list(dict.fromkeys(ps))


def shape_class(parts, T):
    if len(parts) <= 1:
        return "single"
    if all(p == 1 for p in parts):
        return "all-ones"
    if 0 in parts:
        return "with-empty-blocks"
    return "mixed"


# --------------------------------------------------------------------------------------
# comparison


def scale_of(sc):
    m = max([1.0] + [abs(v) for row in sc["x"] for v in row])
    w = 0.0
    for it in sc["items"]:
        b = sum(max(1.0, spec_bound(t)) for t in item_specs(it))  # 1 for a plain track
        w += max(4.0, b) if it["kind"] == "H" else b
    return m * max(1.0, w)


def has_diffuse(sc):
    return any(b.get("diffuse", 0.0) != 0.0 for it in sc["items"] if it["kind"] == "O" for b in it["blocks"])


def tol_of(sc):
    return (1e-7 if has_diffuse(sc) else 1e-9) * scale_of(sc)


def compare_blocks(real, model, tol):
    """None if equal (same block lengths, values within tol) else a description."""
    if len(real) != len(model):
        return "number of returned blocks %d vs %d" % (len(real), len(model))
    for i, (a, b) in enumerate(zip(real, model)):
        if a.shape != b.shape:
            return "block %d shape %s vs %s" % (i, a.shape, b.shape)
        if a.size and not np.all(np.isfinite(a)):
            return "block %d not finite" % i
        if a.size and np.max(np.abs(a - b)) > tol:
            j = np.unravel_index(np.argmax(np.abs(a - b)), a.shape)
            return "block %d frame %d ch %d: real %r model %r" % (i, j[0], j[1], a[j], b[j])
    return None


def slim(sc, parts=None):
    d = {k: v for k, v in sc.items()}
    if parts is not None:
        d["parts"] = list(parts)
    return d


def count_features(ctx, sc, parts_list):
    for it in sc["items"]:
        ctx.count("item:" + it["kind"])
    for f in sc["features"]:
        ctx.count("feature:" + f)
    ctx.count("block_size:%s" % sc["B"])
    ctx.count("decorr_size:%s" % sc["N"])
    ctx.count("sr:%d" % sc["sr"])
    ctx.count("T<=8" if sc["T"] <= 8 else "T>8")
    if has_diffuse(sc):
        ctx.count("with-diffuse")
    for p in parts_list:
        ctx.count("partition:" + shape_class(p, sc["T"]))


def predicate_c02(ctx, sc, runs):
    """C02 itself on the real outputs: all blockings agree; total length = T; (origin: see C03 reference)."""
    ok = [(p, outs) for p, (outs, err) in runs if err is None]
    if not ok:
        return
    tol = 1e-9 * scale_of(sc)
    p0, o0 = ok[0]
    cat0 = np.concatenate(o0) if o0 else np.zeros((0, 1))
    for p, outs in ok:
        cat = np.concatenate(outs)
        if cat.shape[0] != sc["T"]:
            ctx.hit("total output length differs from input length", slim(sc, p),
                    {"frames_out": int(cat.shape[0]), "frames_in": sc["T"]}, ["length"])
            return
        if cat.shape == cat0.shape and cat.size and np.max(np.abs(cat - cat0)) > tol:
            j = np.unravel_index(np.argmax(np.abs(cat - cat0)), cat.shape)
            ctx.hit("output depends on the blocking", slim(sc, p),
                    {"other_parts": list(p0), "frame": int(j[0]), "channel": int(j[1]),
                     "a": float(cat[j]), "b": float(cat0[j])}, ["blocking"])
            return
    errs = [(p, err) for p, (outs, err) in runs if err is not None]
    if errs:
        ctx.hit("an accepted timeline raised for some blocking", slim(sc, errs[0][0]), {"error": errs[0][1]},
                ["raises"])


# --------------------------------------------------------------------------------------
# the one modelled (not transliterated) component: OverlapSaveConvolver / VariableBlockSizeAdapter vs FIR


def conv_cases(ctx, driver, n):
    from ear.core.convolver import OverlapSaveConvolver, VariableBlockSizeAdapter

    rng = ctx.rng
    lines, metas = [], []
    for i in range(n):
        B = rng.choice([1, 2, 3, 4, 5, 8])
        nch = rng.choice([1, 2, 3])
        L = rng.choice([1, 2, 3, B, B + 1, 2 * B, 2 * B + 1, 3 * B - 1, rng.randint(1, 20)])
        L = max(1, L)
        f = np.array([[rng.randint(-8, 8) / 4.0 for _ in range(nch)] for _ in range(L)])
        nblocks = rng.randint(1, 6)
        T = nblocks * B
        x = np.array([[float(rng.randint(-20, 20)) for _ in range(nch)] for _ in range(T)])
        taps = "taps %d %s" % (L, " ".join(rat(v) for v in f.reshape(-1)))
        xs = "x " + " ".join(rat(v) for v in x.reshape(-1))
        # filter_block directly
        conv = OverlapSaveConvolver(B, nch, f)
        real = np.concatenate([conv.filter_block(x[k:k + B]) for k in range(0, T, B)])
        lines.append("fir ; cfg %d %d ; %s ; %s" % (B, nch, taps, xs))
        metas.append(("filter_block", dict(B=B, nch=nch, f=f.tolist(), x=x.tolist()), [real], nch))
        ctx.count("conv:filter_block:" + ("L%%B=0" if L % B == 0 else "L%%B!=0"))
        # the adapter around it, over a random partition
        parts = random_partition(rng, T)
        conv = OverlapSaveConvolver(B, nch, f)
        vbs = VariableBlockSizeAdapter(B, nch, conv.filter_block)
        outs, pos = [], 0
        for k in parts:
            outs.append(np.array(vbs.process(x[pos:pos + k])))
            pos += k
        lines.append("vbs ; cfg %d %d ; %s ; parts %s ; %s" % (B, nch, taps, " ".join(map(str, parts)), xs))
        metas.append(("adapter", dict(B=B, nch=nch, f=f.tolist(), x=x.tolist(), parts=list(parts)), outs, nch))
        ctx.count("conv:adapter")
    outs = driver.run(lines)
    for (what, inp, real, nch), line in zip(metas, outs):
        model, err = parse_trace(line, nch)
        ctx.case(("conv", what, json.dumps(inp, sort_keys=True)), True)
        d = compare_blocks(real, model, 1e-9 * 400)
        if d:
            ctx.disagree("convolver %s vs FIR model" % what, inp, d, "see detail")
        else:
            ctx.validated()


# --------------------------------------------------------------------------------------
# round 7: the partitioned overlap-save structure is INSIDE the model (Model/OverlapSave.lean). What is left outside is
# the transform pair (numpy rfft/irfft); its convolution theorem + linearity is validated here on every run, and the
# real OverlapSaveConvolver / VariableBlockSizeAdapter are compared with the transliterated model (exact rationals).

OS_BLOCK_SIZES = (1, 2, 3, 5, 8)
OS_ERR = {"IndexError": "os-emptyFilter", "ValueError:broadcast": "os-shape", "ValueError:range": "os-blockSizeZero"}


def os_rng(ctx, what):
    """A generator derived from the run's seed only (the stream of ctx.rng, which the older scenario generators and
    the search consume, stays exactly what it was before these cases were added)."""
    return random.Random("C02/%s/%s/%d" % (what, ctx.tier, ctx.seed))


def exact_circ(N, a, b):
    """Exact circular convolution of length N of integer arrays a (La <= N rows, zero-padded) and b (N rows), per
    channel: out[n] = sum_m a[m] * b[(n - m) mod N]."""
    out = np.zeros(b.shape, dtype=np.int64)
    for m in range(min(len(a), N)):
        out += a[m] * np.roll(b, m, axis=0)  # np.roll(b, m)[n] = b[(n - m) mod N]
    return out


def exact_fir(f4, x):
    """Linear convolution written from the property text: y[t] = sum_k f[k] x[t-k], t < len(x), per channel; f4 = 4*f
    as integers (the generated taps are multiples of 1/4), x integers. Exact (int64), returned as float."""
    T, nch = x.shape
    y = np.zeros((T, nch))
    for c in range(nch):
        if len(f4) and T:
            y[:, c] = np.convolve(f4[:, c].astype(np.int64), x[:, c].astype(np.int64))[:T] / 4.0
    return y


def exc_name(e):
    n = type(e).__name__
    if n == "ValueError":
        n += ":range" if "range()" in str(e) else ":broadcast" if "broadcast" in str(e) else ""
    return OS_ERR.get(n, n + ":" + str(e)[:60])


def fft_assumption_cases(ctx, driver, n):
    """The trusted abstraction of Model/OverlapSave.lean: irfft(sum_k rfft(a_k, N) * rfft(b_k)) = sum_k circConv N a_k b_k
    (convolution theorem for numpy's rfft/irfft of even length N = 2B, linearity of irfft), on integer-valued vectors
    against exact integer arithmetic, 1e-9 relative to the largest exact value; for small N also the Lean circConv
    (driver op circ) against the same exact values (must be identical)."""
    rng = os_rng(ctx, "fft")
    lines, metas = [], []
    for i in range(n):
        B = (OS_BLOCK_SIZES + (512,))[i % 6]
        N = 2 * B
        nch = rng.choice([1, 2, 3]) if B < 512 else 1
        K = rng.choice([1, 1, 2, 3])
        terms = []
        for _ in range(K):
            La = max(1, min(B, rng.choice([1, B - 1, B, rng.randint(1, B)])))
            a = np.array([[rng.randint(-8, 8) for _ in range(nch)] for _ in range(La)], dtype=np.int64)
            b = np.array([[rng.randint(-20, 20) for _ in range(nch)] for _ in range(N)], dtype=np.int64)
            terms.append((a, b))
        S = sum(np.fft.rfft(a.astype(float), N, axis=0) * np.fft.rfft(b.astype(float), axis=0) for a, b in terms)
        td = np.fft.irfft(S, axis=0)
        exact = sum(exact_circ(N, a, b) for a, b in terms)
        ctx.case(("fft", N, nch, K, exact.tobytes()), True)
        ctx.count("fft-assumption:N=%d" % N)
        ctx.count("fft-assumption:terms=%d" % K)
        inp = dict(N=N, terms=[(a.tolist(), b.tolist()) for a, b in terms]) if N <= 16 else dict(N=N, nch=nch, K=K)
        if td.shape != exact.shape or np.max(np.abs(td - exact)) > 1e-9 * (1.0 + np.max(np.abs(exact))):
            ctx.disagree("numpy irfft(sum rfft(a,N)*rfft(b)) vs exact circular convolution (the trusted transform "
                         "abstraction of Model/OverlapSave.lean)", inp, exact.tolist()[:8], td.tolist()[:8])
        else:
            ctx.validated()
        if N <= 16 and K == 1:
            a, b = terms[0]
            lines.append("circ ; cfg %d %d ; a %d %s ; b %s" % (N, nch, len(a), " ".join(str(v) for v in a.reshape(-1)),
                                                                  " ".join(str(v) for v in b.reshape(-1))))
            metas.append((inp, exact))
    for (inp, exact), line in zip(metas, driver.run(lines)):
        model, _ = parse_trace(line, exact.shape[1])
        ctx.case(("circ", json.dumps(inp)), True)
        ctx.count("fft-assumption:lean-circConv")
        if len(model) != 1 or model[0].shape != exact.shape or np.max(np.abs(model[0] - exact)) != 0.0:
            ctx.disagree("Lean circConv vs exact circular convolution", inp, line[:200], exact.tolist())
        else:
            ctx.validated()


def os_filter_lengths(B):
    return [0, 1, B - 1, B, B + 1, 2 * B, 3 * B + 1]


def run_filter_blocks(B, nch, f, blocks):
    """The real OverlapSaveConvolver on a sequence of blocks -> (outputs before an exception, exception name)."""
    from ear.core.convolver import OverlapSaveConvolver

    outs = []
    try:
        conv = OverlapSaveConvolver(B, nch, f)
        for blk in blocks:
            outs.append(np.array(conv.filter_block(blk)))
    except Exception as e:  # noqa: BLE001 - the exception is the observable
        return outs, exc_name(e)
    return outs, None


def run_adapter(B, nch, f, x, parts):
    from ear.core.convolver import OverlapSaveConvolver, VariableBlockSizeAdapter

    outs, pos = [], 0
    try:
        conv = OverlapSaveConvolver(B, nch, f)
        vbs = VariableBlockSizeAdapter(B, nch, conv.filter_block)
        for k in parts:
            outs.append(np.array(vbs.process(x[pos:pos + k])))
            pos += k
    except Exception as e:  # noqa: BLE001
        return outs, exc_name(e)
    return outs, None


def os_cases(ctx, driver, n, n_big):
    """Real OverlapSaveConvolver.filter_block and VariableBlockSizeAdapter around it versus the transliterated model
    (driver ops os / vbsos, exact rationals) on integer-valued inputs: block sizes 1,2,3,5,8 (and 512), filter lengths
    0, 1, B-1, B, B+1, 2B, 3B+1, 1-3 channels, several blocks; plus the direct predicates written from the property
    text (outputs = linear convolution of the concatenated input, delayed by B behind the adapter; independent of the
    partition)."""
    rng = os_rng(ctx, "os")
    lines, metas = [], []

    def gen(B, L, nch, T):
        f4 = np.array([[rng.randint(-8, 8) for _ in range(nch)] for _ in range(L)], dtype=np.int64).reshape(L, nch)
        x = np.array([[rng.randint(-20, 20) for _ in range(nch)] for _ in range(T)], dtype=np.int64).reshape(T, nch)
        return f4, x

    def enc(op, B, nch, f4, x, parts):
        return "%s ; cfg %d %d ; taps %d %s ; parts %s ; x %s" % (
            op, B, nch, len(f4), " ".join(rat(F(int(v), 4)) for v in f4.reshape(-1)), " ".join(map(str, parts)),
            " ".join(str(int(v)) for v in x.reshape(-1)))

    def scale(f4, x):
        return max(1.0, float(np.abs(f4).sum()) / 4.0 * (float(np.abs(x).max()) if x.size else 1.0))

    cases = []
    for i in range(n):
        B = OS_BLOCK_SIZES[i % 5]
        k = (i // 5 + i) % 7
        L = os_filter_lengths(B)[k]
        if k == 2 and B <= 2:  # B-1 would repeat the lengths 0 / 1
            L = rng.randint(2, 4 * B + 1)
        cases.append((B, L, rng.choice([1, 2, 3]), rng.randint(1, 5)))
    for i in range(n_big):
        L = [1, 513, 511, 3, 1024, 1537][i % 6] if not ctx.quick else [1, 513 if ctx.seed % 2 == 0 else 511][i % 2]
        cases.append((512, L, 1, 2))
    for B, L, nch, nblocks in cases:
        f4, x = gen(B, L, nch, nblocks * B)
        f = f4 / 4.0
        small = B < 512
        desc = dict(B=B, nch=nch, f=f.tolist() if small else "L=%d" % L, x=x.tolist() if small else "T=%d" % len(x))
        ctx.count("os:block_size=%d" % B)
        ctx.count("os:filter-length:" + ("0" if L == 0 else "1" if L == 1 else "B-1" if L == B - 1 else "B" if L == B
                                          else "B+1" if L == B + 1 else "2B" if L == 2 * B else "3B+1" if L == 3 * B + 1
                                          else "other"))
        ctx.count("os:channels=%d" % nch)
        # (a) filter_block on successive blocks of B rows
        real, rerr = run_filter_blocks(B, nch, f, [x[k:k + B].astype(float) for k in range(0, len(x), B)])
        lines.append(enc("os", B, nch, f4, x, [B] * nblocks))
        metas.append(("filter_block", desc, real, rerr, nch, 1e-9 * scale(f4, x)))
        if L > 0:
            # direct predicate: concatenated outputs = first #blocks*B samples of the linear convolution
            if rerr is not None:
                ctx.hit("OverlapSaveConvolver.filter_block raised on a block of block_size rows", desc,
                        {"error": rerr}, ["raises"])
            else:
                cat = np.concatenate(real)
                ref = exact_fir(f4, x)
                if cat.shape != ref.shape or np.max(np.abs(cat - ref)) > 1e-9 * scale(f4, x):
                    j = np.unravel_index(np.argmax(np.abs(cat - ref)), ref.shape) if cat.shape == ref.shape else (0, 0)
                    ctx.hit("OverlapSaveConvolver output differs from the linear convolution with the filter "
                            "(decorrelation FIR)", desc,
                            {"frame": int(j[0]), "channel": int(j[1]),
                             "convolver": float(cat[j]) if cat.shape == ref.shape else str(cat.shape),
                             "convolution": float(ref[j])}, ["convolver-fir"])
        if not small and (ctx.quick or L > 513):  # exact rationals at B = 512 are slow: keep the big cases few
            continue
        # (b) the adapter around it, over two random partitions of a stream whose length need not be a multiple of B
        T = len(x) if not small else rng.randint(0, nblocks * B + B - 1)
        f4b, xb = (f4, x) if not small else gen(B, L, nch, T)
        fb = f4b / 4.0
        descb = dict(B=B, nch=nch, f=fb.tolist() if small else "L=%d" % L, x=xb.tolist() if small else "T=%d" % T)
        runs = []
        for parts in (random_partition(rng, T), random_partition(rng, T)):
            real, rerr = run_adapter(B, nch, fb, xb.astype(float), parts)
            runs.append((parts, real, rerr))
            lines.append(enc("vbsos", B, nch, f4b, xb, parts))
            metas.append(("adapter", dict(descb, parts=list(parts)), real, rerr, nch, 1e-9 * scale(f4b, xb)))
            ctx.count("os:adapter:" + shape_class(parts, T))
        if L > 0:
            ref = np.concatenate([np.zeros((B, nch)), exact_fir(f4b, xb)])[:T]
            for parts, real, rerr in runs:
                d = dict(descb, parts=list(parts))
                if rerr is not None:
                    ctx.hit("VariableBlockSizeAdapter around the convolver raised", d, {"error": rerr}, ["raises"])
                    continue
                cat = np.concatenate(real) if real else np.zeros((0, nch))
                if [len(o) for o in real] != list(parts):
                    ctx.hit("adapter returned blocks of other lengths than it was given", d,
                            {"returned": [len(o) for o in real]}, ["length"])
                elif T and np.max(np.abs(cat - ref)) > 1e-9 * scale(f4b, xb):
                    j = np.unravel_index(np.argmax(np.abs(cat - ref)), ref.shape)
                    ctx.hit("decorrelation path (adapter around the convolver) differs from the FIR delayed by "
                            "block_size", d, {"frame": int(j[0]), "channel": int(j[1]), "adapter": float(cat[j]),
                                              "delayed_convolution": float(ref[j])}, ["convolver-fir"])
            (p0, r0, e0), (p1, r1, e1) = runs
            if e0 is None and e1 is None and T:
                c0, c1 = np.concatenate(r0), np.concatenate(r1)
                if c0.shape == c1.shape and np.max(np.abs(c0 - c1)) > 1e-9 * scale(f4b, xb):
                    ctx.hit("decorrelation path output depends on the blocking", dict(descb, parts=list(p0)),
                            {"other_parts": list(p1)}, ["blocking"])
    # (c) outside the quantifier, model and code must agree too: a block of one row is broadcast, any other length raises;
    # block_size 0 raises in the constructor
    for i in range(6 if ctx.quick else 30):
        B = rng.choice([2, 3, 5])
        nch = rng.choice([1, 2])
        L = rng.choice([1, B, B + 1])
        bad = rng.choice([1, 1, B - 1 if B > 2 else 0, B + 1, 0])
        f4, x = gen(B, L, nch, B + bad + B)
        parts = [B, bad, B]
        real, rerr = run_filter_blocks(B, nch, f4 / 4.0, [x[:B].astype(float), x[B:B + bad].astype(float),
                                                          x[B + bad:].astype(float)])
        lines.append(enc("os", B, nch, f4, x, parts))
        metas.append(("filter_block:odd-block", dict(B=B, nch=nch, f=(f4 / 4.0).tolist(), x=x.tolist(), parts=parts),
                      real, rerr, nch, 1e-9 * scale(f4, x)))
        ctx.count("os:odd-block:" + ("broadcast-one-row" if bad == 1 else "rejected-length"))
    f4, x = gen(1, 2, 1, 0)
    real, rerr = run_filter_blocks(0, 1, f4 / 4.0, [])
    lines.append(enc("os", 0, 1, f4, x, []))
    metas.append(("constructor:block_size=0", dict(B=0, f=(f4 / 4.0).tolist()), real, rerr, 1, 1e-9))
    outs = []
    for i in range(0, len(lines), 200):
        outs += driver.run(lines[i:i + 200])
    for (what, inp, real, rerr, nch, tol), line in zip(metas, outs):
        model, merr = parse_trace(line, nch)
        ctx.case(("os", what, json.dumps(inp, sort_keys=True)), True,
                 sample={"overlap-save": what, "B": inp.get("B"), "nch": inp.get("nch"),
                         "returned_block_lengths": [int(o.shape[0]) for o in real], "error": rerr})
        if rerr != merr:
            ctx.count("os:outcome:error-mismatch")
            ctx.disagree("OverlapSaveConvolver %s vs Model/OverlapSave.lean (exception)" % what, inp, merr, rerr)
            continue
        ctx.count("os:outcome:" + ("ok" if rerr is None else "both-raise:" + rerr))
        d = compare_blocks(real, model, tol)
        if d:
            ctx.disagree("OverlapSaveConvolver %s vs Model/OverlapSave.lean" % what, inp, d, "error=%s" % rerr)
        else:
            ctx.validated()


# --------------------------------------------------------------------------------------
# round 8: the numpy exceptions inside the renderer models of Model/OverlapSave.lean (driver ops runos / runtsos):
# IndexError for a track outside the input (`input_samples[:, track_index]`), ValueError of `np.stack([])` for an HOA
# item without tracks, ValueError of `np.dot` for a decode matrix whose width is not the item's number of tracks.
# The real Renderer is run on sessions with such faults and must raise the same KIND of exception at the same call
# (same blocks returned before it) as the model - or, for a mis-shaped matrix that is never reached, not raise at all.


def _ncols(variant):
    return len(HOA_VARIANTS[variant]["orders"])


def _hoa_block(sr, start, dur, variant):
    return dict(rt=frs(F(start) / sr), du=frs(F(dur) / sr), jump=0, il=None, os=None, od=None, variant=variant)


def gen_np_fault(rng, ts=False):
    """A generated session (accepted timelines) with one or two index/shape faults. Returns the scenario; the fault
    names are added to sc['features'] as 'np:<fault>'."""
    sc = gen_scenario(rng, small=True)
    if ts:
        sc = add_specs(rng, sc)
    feat = set(sc["features"])
    nin, sr, T = sc["nin"], sc["sr"], sc["T"]
    D = (sc["B"] or 512) + (template(sc["layout"], sc["B"], sc["N"])[1].shape[0] - 1) // 2
    faults = ["hoa-shape-first", "hoa-shape-later", "hoa-shape-later", "hoa-shape-unreached", "hoa-shape-boundary"]
    if not ts:
        faults += ["bad-track", "bad-track", "bad-track", "hoa-empty", "two-faults", "two-faults"]
    fault = rng.choice(faults)

    def hoa_item(blocks, k):
        it = dict(kind="H", blocks=blocks, tracks=[rng.randrange(nin) for _ in range(k)])
        if ts:
            it["specs"] = [gen_spec(rng, sc, feat) if rng.random() < 0.5 else ["D", t] for t in it["tracks"]]
        return it

    def shaped_item(kind):
        good = rng.choice(["o0", "o1"])
        bad = "o1" if good == "o0" else "o0"
        k = _ncols(good)
        if kind == "first":
            if rng.random() < 0.5:
                blocks = [dict(rt=None, du=None, jump=0, il=None, os=None, od=None, variant=bad)]
            else:
                blocks = [_hoa_block(sr, rng.choice([0, 1, T + 5]), 3, bad)]
            return hoa_item(blocks, k)
        # a correctly shaped first block ending at frame e, then a mis-shaped one
        if kind == "later":
            e = F(rng.randint(0, max(0, T + D - 1)) * 2 + rng.choice([0, 0, -1]), 2) if T + D > 0 else F(0)
            e = max(F(0), min(e, F(T + D) - F(1, 2)))
        elif kind == "unreached":
            e = F(T + D + rng.choice([1, 7, 100]))
        else:  # boundary: reached iff ceil(e) < T + D
            e = F(T + D) + rng.choice([F(-1), F(-1, 2), F(0), F(1, 3), F(1)])
            e = max(F(0), e)
        gap = rng.choice([F(0), F(0), F(3, 2)])
        blocks = [_hoa_block(sr, 0, e, good), _hoa_block(sr, e + gap, rng.choice([1, 4]), bad)]
        return hoa_item(blocks, k)

    def bad_track(it):
        if it["kind"] == "H":
            it["tracks"][rng.randrange(len(it["tracks"]))] = nin + rng.choice([0, 1, 5])
        else:
            it["track"] = nin + rng.choice([0, 1, 5])

    pos = rng.randint(0, len(sc["items"]))
    if fault == "bad-track":
        bad_track(rng.choice(sc["items"]))
    elif fault == "hoa-empty":
        sc["items"].insert(pos, dict(kind="H", tracks=[], blocks=[
            dict(rt=None, du=None, jump=0, il=None, os=None, od=None, variant="o0")]))
    elif fault == "hoa-shape-first":
        sc["items"].insert(pos, shaped_item("first"))
    elif fault == "hoa-shape-later":
        sc["items"].insert(pos, shaped_item("later"))
    elif fault == "hoa-shape-unreached":
        sc["items"].insert(pos, shaped_item("unreached"))
    elif fault == "hoa-shape-boundary":
        sc["items"].insert(pos, shaped_item("boundary"))
    else:
        # a later mis-shaped matrix in one item and a track outside the input in an item AFTER it: which exception
        # comes first depends on the blocking
        sc["items"].append(shaped_item("later"))
        tail = dict(kind=rng.choice(["D", "H"]), blocks=[dict(rt=None, du=None, jump=0, il=None, os=None, od=None)])
        if tail["kind"] == "D":
            tail["track"] = nin + 1
            tail["blocks"][0].update(label=template(sc["layout"], sc["B"], sc["N"])[2].channel_names[0], az=0.0, gain=1.0)
        else:
            tail["tracks"] = [nin]
            tail["blocks"][0]["variant"] = "o0"
        sc["items"].append(tail)
    feat.add("np:" + fault)
    sc["features"] = sorted(feat)
    return sc


def _real_exc_kind(rerr):
    if rerr is None:
        return None
    if rerr.startswith("IndexError"):
        return "index"
    if rerr.startswith("ValueError") and "at least one array" in rerr:
        return "stack"
    if rerr.startswith("ValueError") and "not aligned" in rerr:
        return "dot"
    return "other:" + rerr


def _model_exc_kind(merr):
    return {None: None, "np-trackIndex": "index", "track-index": "index", "np-emptyStack": "stack",
            "track-emptyStack": "stack", "np-dotShape": "dot"}.get(merr, "other:%s" % merr)


def np_error_cases(ctx, driver, n, n_ts):
    rng = os_rng(ctx, "np-errors")
    lines, metas = [], []
    for i in range(n + n_ts):
        sc = gen_np_fault(rng, ts=i >= n)
        T = sc["T"]
        plist = [(T,), tuple([1] * T), random_partition(rng, T), with_zeros(rng, random_partition(rng, T))]
        if T == 0:
            plist = [(), (0,), (0, 0)]
        for parts in list(dict.fromkeys(plist)):
            sess = Session(sc)
            real = sess.run(parts)
            lines.append(encode(sc, sess, parts, "runos"))
            metas.append((sc, parts, real, sess.nout))
    outs = []
    for i in range(0, len(lines), 500):
        outs += driver.run(lines[i:i + 500])
    for (sc, parts, (real, rerr), nout), line in zip(metas, outs):
        model, merr = parse_trace(line, nout)
        fault = [f for f in sc["features"] if f.startswith("np:")][0]
        rk, mk = _real_exc_kind(rerr), _model_exc_kind(merr)
        ctx.case((json.dumps(sc, sort_keys=True), parts, "np"), True,
                 sample={"fault": fault, "parts": list(parts), "real": rerr, "model": merr,
                         "blocks_before": [int(o.shape[0]) for o in real]})
        ctx.count("%s%s:%s" % (fault, "+track-specs" if uses_ts(sc) else "", rk or "no-exception"))
        if rk != mk:
            ctx.disagree("Renderer vs model with numpy exceptions (exception kind)", slim(sc, parts), merr, rerr)
            continue
        d = compare_blocks(real, model, tol_of(sc))
        if d:
            ctx.disagree("Renderer vs model with numpy exceptions (blocks before the exception)", slim(sc, parts), d,
                         "error=%s" % rerr)
        else:
            ctx.validated()


# --------------------------------------------------------------------------------------


class C02(Spec):
    pid = "C02"
    lean_targets = ("Earverif.Props.C02", "c02driver")
    props_module = "Earverif.Props.C02"
    theorems = tuple("Earverif.Stream." + t for t in (
        "delay_eq", "delay_block_independent", "vbs_eq", "vbs_block_independent", "aligner_run_eq",
        "fir_init_zero", "fir_blockwise_eq", "vbs_fir_eq",
        # round 7: the partitioned overlap-save convolver (Proofs/C02OverlapSave.lean)
        "os_step_spec", "overlapSave_eq_fir", "os_new_zero", "os_empty_filter", "os_fir_sim",
        "vbs_overlapSave_run_eq", "vbs_overlapSave_eq", "vbs_overlapSave_block_independent")) + tuple(
        "Earverif.Renderer." + t for t in (
        "aligner_eq", "run_factor", "renderAll_eq_run", "procChans_spec", "chans_subRun_spec", "obj_stream",
        "ds_stream", "hoa_stream", "render_refines_spec", "C02_block_independent", "C02_length_and_origin",
        "render_refines_spec_partial", "C02_block_independent_partial", "run_prefix",
        "renderAllOS_eq", "render_refines_spec_os", "C02_block_independent_os", "C02_length_and_origin_os",
        # round 8: the numpy exceptions inside the model (Proofs/C02Checked.lean, Proofs/C02OverlapSave.lean)
        "bpcLoopC_rel", "bpcProcessC_rel", "procChansC_rel", "renderAllOS_rel", "render_refines_spec_os_ok",
        "renderAllOS_ok_tracks", "renderAllOS_raises_of_bad_track", "renderAllOS_ok_first_matrix",
        "C02_block_independent_os_of_ok",
        # the functions the driver runs (renderTrace*) are what the theorems are about (renderAll*)
        "renderAll_eq_trace", "renderTrace_eq", "renderAllOS_eq_trace", "renderTraceOS_eq")) + tuple(
        "Earverif.RendererTS." + t for t in (
        "procChansTS_reid", "render_strip", "stepsTo_direct", "stepsTo_hoa", "run_stripS", "init_stripS",
        "render_refines_spec_ts", "render_eq_outTS", "C02_block_independent_ts", "C02_length_and_origin_ts",
        "item_stream_eq_processor_run",
        "renderAllTSOS_eq", "render_eq_outTS_os", "C02_block_independent_ts_os", "C02_length_and_origin_ts_os",
        "hoaChansTSC_rel", "renderAllTSOS_rel", "render_eq_outTS_os_ok",
        "renderAllTS_eq_trace", "renderTraceTS_eq", "renderAllTSOS_eq_trace", "renderTraceTSOS_eq"))
    HYPOTHESES_NOTE = (
        "theorems still stated with component facts as hypotheses: none needed any more - render_refines_spec, "
        "C02_block_independent and C02_length_and_origin are proved outright (hypothesis SessionOK = block_size >= 1 and "
        "accepted timelines); render_refines_spec_partial / C02_block_independent_partial are kept from round 1 "
        "(their aligner hypothesis is discharged by aligner_eq; the three per-renderer run hypotheses remain in "
        "their statements) and are superseded. Round 4: render_refines_spec_ts / C02_block_independent_ts / "
        "C02_length_and_origin_ts are proved outright for items with arbitrary well-formed track specs (hypothesis "
        "SessionOKTS = SessionOK + C20's Spec.wf + every HOA item has >= 1 spec). Round 7: the partitioned "
        "overlap-save structure of OverlapSaveConvolver is inside the model (Model/OverlapSave.lean) and proved equal to "
        "the FIR (overlapSave_eq_fir, vbs_overlapSave_eq; hypotheses block_size >= 1 and a non-empty filter - the real "
        "constructors raise otherwise: os_new_zero, os_empty_filter); render_refines_spec_os / render_eq_outTS_os and "
        "the C02 corollaries *_os are the headline theorems for the renderer model with that convolver inside. Round 8: "
        "the *_os renderer models RAISE numpy's exceptions where the real code does (ChkErr: IndexError for a track outside "
        "the input on every call, ValueError of np.stack for an HOA item without tracks, ValueError of np.dot whenever a "
        "processing block with a mis-shaped decode matrix is at the head of the queue); render_refines_spec_os has only "
        "SessionOK + a non-empty filter as hypotheses and says: the session returns RenderSpec.out OR raises one of those "
        "three, the latter only if IndexOK fails; IndexOK (inside SessionWF) is now a used hypothesis of the corollaries; "
        "InputOK is no longer a hypothesis anywhere. Not under "
        "the kernel: the transform pair rfft/irfft (its convolution theorem + linearity is the stated abstraction, "
        "validated numerically on every run), gain calculators (captured).")
    trusted_base = (
        "models Earverif/Model/{Stream,Timeline,Renderer}.lean are hand transliterations of Delay, "
        "VariableBlockSizeAdapter, BlockAligner, ProcessingBlock/FixedGains/InterpGains/FixedMatrix, "
        "BlockProcessingChannel, the three Interpret*Metadata classes and the render methods; tied to the real "
        "Renderer by differential runs on every check",
        "Earverif/Model/RendererTS.lean transliterates set_rendering_items/render/get_tail with "
        "TrackProcessor/MultiTrackProcessor per item, importing the processor state machine of the C20 model "
        "(Model/TrackSpec.lean); tied to the real Renderer by differential runs with items constructed with "
        "mix/gain/matrix-coefficient(delay)/silent track specs",
        "OverlapSaveConvolver: Earverif/Model/OverlapSave.lean transliterates __init__/filter_block (filter partitions, "
        "input_block halves, rotating queue, exceptions); the only abstraction is the transform pair: a spectrum is "
        "represented by its inverse transform and `block += filter_block * in_block_fd` by adding the circular "
        "convolution circConv (2*block_size) - i.e. the convolution theorem for numpy's rfft/irfft of even length plus "
        "linearity of irfft, validated numerically on every run (integer vectors, exact integer circular convolution, "
        "1e-9); the model is tied to the real OverlapSaveConvolver / VariableBlockSizeAdapter and, inside the renderer "
        "model (renderTraceOS / renderTraceTSOS), to the real Renderer by differential runs; the older direct-form FIR "
        "model is kept (proved equal: os_fir_sim, renderAllOS_eq)",
        "the numpy exceptions of the renderer models of Model/OverlapSave.lean (IndexError for a track outside the input, "
        "ValueError of np.stack([]) and of np.dot with a mis-shaped decode matrix, where and when they are raised) are "
        "hand transliterations of DirectProcessor.process / MultiTrackProcessor.process / FixedMatrix.process inside "
        "the channel loops; tied to the real Renderer by sessions with such faults on every run (exception kind, the call "
        "at which it is raised, the blocks returned before it)",
        "gain calculators are black boxes: their per-block results are captured and given to the model",
        "the model runs at frame type Vector Rat n (exact); the theorems are stated for any frame type with the "
        "module laws (instances: Rat, Vector Rat n, products)",
    )
    assumptions = (
        "timelines accepted by the interpreters (ordered, non-overlapping, rtime/duration paired, block within "
        "object, interpolationLength <= duration, start times >= 0)",
        "decorrelation filter with at least one tap (an empty filter array makes the real constructor raise IndexError; "
        "design_decorrelators always returns `size` taps)",
        "block_size >= 1; sample_rate >= 1; track specs well formed (C20 Spec.wf: direct indices within the input "
        "channels, coefficient delays round to >= 0 samples), every HOA item has at least one track spec; the input "
        "has n_in channels (the models take the width from the configuration, as an empty numpy block still has one) and "
        "get_tail is called with n_channels = n_in",
        "for the block-independence / length corollaries: IndexOK - tracks inside the input, >= 1 track per HOA item, "
        "decode matrices with one column per track (outside it the model raises IndexError/ValueError like the code, "
        "render_refines_spec_os)",
        "exact rational arithmetic on the model side; the property's 'up to rounding' is the float gap",
    )
    rule = (
        "scenario = (layout, block_size, decorrelator size, sample rate, items with generated accepted timelines, "
        "integer input) x partition of the input into render() calls; model and real Renderer compared block by "
        "block; partitions exhaustive for T <= 8 in thorough (all compositions, with and without empty blocks), "
        "sampled in quick, random for longer streams; non-trivial = at least one item and T >= 1; a second family "
        "of scenarios gives the items generated track specs (mix of inputs, gain, matrix coefficient with gain and a "
        "delay of 0..5 or > T samples not on a rounding tie, silent, nested up to depth 3, the gain(mix(matrix "
        "coefficients)) shape of matrix packs) rendered through the real Renderer and the extended model; specs "
        "outside Spec.wf (bad index, negative delay) must raise on both sides; every such run is also compared with the "
        "renderer model that has the overlap-save convolver inside (driver ops runos/runtsos); a third family runs the "
        "real OverlapSaveConvolver.filter_block and the VariableBlockSizeAdapter around it against Model/OverlapSave.lean "
        "(block sizes 1,2,3,5,8,512; filter lengths 0,1,B-1,B,B+1,2B,3B+1; 1-3 channels; 1-5 blocks; random partitions "
        "of streams whose length is not a multiple of B; one-row/odd-length blocks and block_size 0 must broadcast/raise "
        "on both sides) and checks numpy's irfft(sum rfft(a,2B)*rfft(b)) against exact integer circular convolutions; a "
        "fourth family (np_error_cases, own seed-derived generator) puts index/shape faults into generated sessions - a "
        "track >= n_in on an Objects/DirectSpeakers/HOA item, an HOA item without tracks, a decode matrix of the wrong "
        "width in the first block, in a later block that is reached, in one that starts after input + tail (never "
        "applied: no exception), in one whose predecessor ends within a frame of input + tail (boundary of 'reached'), "
        "with and without track specs, and a mis-shaped later matrix followed by an item with a bad track (which "
        "exception comes first depends on the blocking) - and requires the real Renderer and the model (runos/runtsos) "
        "to raise the same kind of exception (IndexError / ValueError np.stack / ValueError np.dot / none) at the same "
        "call with the same blocks returned before it, over four blockings each"
    )

    # budgets
    def budgets(self, ctx):
        if ctx.quick:
            return dict(small=45, parts_small=10, long=14, parts_long=3, rejected=12, conv=40, search=60,
                        ts_small=30, ts_long=8, ts_rejected=8, fft=24, os=42, os_big=2, np=40, np_ts=14)
        return dict(small=220, parts_small=None, long=120, parts_long=5, rejected=80, conv=400, search=500,
                    ts_small=150, ts_long=60, ts_rejected=40, fft=240, os=420, os_big=6, np=400, np_ts=120)

    def scenarios(self, ctx):
        bud = self.budgets(ctx)
        rng = ctx.rng
        scs = []
        for i in range(bud["small"]):
            sc = gen_scenario(rng, small=True)
            exhaustive = bud["parts_small"] is None and (sc["T"] <= 6 or i % 8 == 0)
            scs.append((sc, partitions_for(rng, sc["T"], exhaustive, bud["parts_small"] or 24)))
        for i in range(bud["long"]):
            sc = gen_scenario(rng, small=False)
            scs.append((sc, partitions_for(rng, sc["T"], False, bud["parts_long"])))
        for i in range(bud["rejected"]):
            sc = gen_rejected(rng)
            scs.append((sc, partitions_for(rng, sc["T"], False, 3)))
        # round 4: the same kinds of scenarios with non-trivial track specs on the items (extended model)
        for i in range(bud["ts_small"]):
            sc = add_specs(rng, gen_scenario(rng, small=True))
            exhaustive = bud["parts_small"] is None and (sc["T"] <= 6 or i % 8 == 0)
            scs.append((sc, partitions_for(rng, sc["T"], exhaustive, bud["parts_small"] or 24)))
        for i in range(bud["ts_long"]):
            sc = add_specs(rng, gen_scenario(rng, small=False))
            scs.append((sc, partitions_for(rng, sc["T"], False, bud["parts_long"])))
        for i in range(bud["ts_rejected"]):
            sc = gen_rejected_ts(rng)
            scs.append((sc, partitions_for(rng, sc["T"], False, 3)))
        return scs

    def correspond(self, ctx):
        ctx.notes.append(self.HYPOTHESES_NOTE)
        driver = Driver("c02driver", "Earverif.Driver.C02")
        bud = self.budgets(ctx)
        conv_cases(ctx, driver, bud["conv"])
        fft_assumption_cases(ctx, driver, bud["fft"])
        os_cases(ctx, driver, bud["os"], bud["os_big"])
        np_error_cases(ctx, driver, bud["np"], bud["np_ts"])
        self.correspond_render(ctx, driver, self.scenarios(ctx), mode="run")

    def correspond_render(self, ctx, driver, scs, mode, extra=None, c02_pred=True):
        lines, metas = [], []
        for sc, plist in scs:
            count_features(ctx, sc, plist)
            runs = []
            for parts in plist:
                sess = Session(sc)
                real = sess.run(parts)
                runs.append((parts, real))
                if extra is not None and not any(f.startswith("rejected:") for f in sc["features"]):
                    extra(ctx, sc, parts, sess, real[0], real[1])
                if mode == "run":
                    lines.append(encode(sc, sess, parts, "run"))
                    metas.append((sc, parts, real, sess.nout))
                    # the same run through the renderer model with the overlap-save convolver inside
                    lines.append(encode(sc, sess, parts, "runos"))
                    metas.append((sc, parts, real, sess.nout, "os"))
            if mode == "spec":
                lines.append(encode(sc, sess, plist[0], "spec"))
                metas.append((sc, plist, runs, sess.nout))
            rejected = any(f.startswith("rejected:") for f in sc["features"])
            if not rejected and c02_pred:
                predicate_c02(ctx, sc, runs)
        outs = []
        for i in range(0, len(lines), 500):
            outs += driver.run(lines[i:i + 500])
        for meta, line in zip(metas, outs):
            if mode == "run":
                self._cmp_run(ctx, meta, line)
            else:
                self._cmp_spec(ctx, meta, line)

    def _cmp_run(self, ctx, meta, line):
        if len(meta) == 5:
            return self._cmp_run_os(ctx, meta, line)
        sc, parts, (real, rerr), nout = meta
        model, merr = parse_trace(line, nout)
        nontrivial = bool(sc["items"]) and sc["T"] >= 1
        ctx.case((json.dumps(sc, sort_keys=True), parts), nontrivial,
                 sample={"scenario": {k: sc[k] for k in ("layout", "B", "N", "sr", "T", "features")},
                         "items": [(it["kind"], len(it["blocks"])) for it in sc["items"]], "parts": list(parts),
                         "returned_block_lengths": [int(o.shape[0]) for o in real], "error": rerr})
        if (rerr is None) != (merr is None):
            ctx.count("outcome:error-mismatch")
            ctx.disagree("Renderer vs model (exception)", slim(sc, parts), merr, rerr)
            return
        ctx.count("outcome:" + ("ok" if rerr is None else "both-raise"))
        d = compare_blocks(real, model, tol_of(sc))
        if d:
            ctx.disagree("Renderer vs Earverif.Renderer.renderTrace", slim(sc, parts), d, "error=%s" % rerr)
        else:
            ctx.validated()

    def _cmp_run_os(self, ctx, meta, line):
        """Real Renderer versus renderTraceOS / renderTraceTSOS (Model/OverlapSave.lean: the overlap-save convolver
        inside ObjectRenderer)."""
        sc, parts, (real, rerr), nout, _ = meta
        model, merr = parse_trace(line, nout)
        ctx.case((json.dumps(sc, sort_keys=True), parts, "os"), bool(sc["items"]) and sc["T"] >= 1)
        if (rerr is None) != (merr is None):
            ctx.count("outcome-os:error-mismatch")
            ctx.disagree("Renderer vs model with overlap-save convolver (exception)", slim(sc, parts), merr, rerr)
            return
        ctx.count("outcome-os:" + ("ok" if rerr is None else "both-raise"))
        d = compare_blocks(real, model, tol_of(sc))
        if d:
            ctx.disagree("Renderer vs Earverif.Renderer.renderTraceOS", slim(sc, parts), d, "error=%s" % rerr)
        else:
            ctx.validated()

    def _cmp_spec(self, ctx, meta, line):
        sc, plist, runs, nout = meta
        spec = parse_frames(line, nout) if line != "bad-op" else None
        if spec is None:
            raise Infra("driver rejected a spec request")
        for parts, (real, rerr) in runs:
            ctx.case((json.dumps(sc, sort_keys=True), parts, "spec"), bool(sc["items"]) and sc["T"] >= 1)
            if rerr is not None:
                ctx.disagree("Renderer raised on an accepted timeline", slim(sc, parts), "RenderSpec.out", rerr)
                continue
            cat = np.concatenate(real)
            d = compare_blocks([cat], [spec], tol_of(sc))
            if d:
                ctx.disagree("Renderer vs Earverif.RenderSpec.out", slim(sc, parts), d, "")
            else:
                ctx.validated()

    def search(self, ctx, deep):
        """Direct predicate on the real code alone: partition pairs, length; longer streams, default sizes."""
        rng = ctx.rng
        n = self.budgets(ctx)["search"] * (2 if deep and ctx.quick else 1)
        for i in range(n):
            default_sizes = (not ctx.quick) and i % 10 == 0
            if default_sizes:
                sc = gen_scenario(rng, T=rng.randint(600, 2500), default_sizes=True)
            else:
                sc = gen_scenario(rng, small=rng.random() < 0.5)
            if i % 3 == 1:
                sc = add_specs(rng, sc)
            plist = partitions_for(rng, sc["T"], False, 4)
            runs = [(p, run_real(sc, p)) for p in plist]
            ctx.case(("search", json.dumps(sc, sort_keys=True), tuple(plist)), sc["T"] >= 1)
            ctx.count("search:" + ("default-sizes" if default_sizes else "small-sizes") +
                      ("+track-specs" if uses_ts(sc) else ""))
            predicate_c02(ctx, sc, runs)


SPEC = C02()

REGISTRY = dict(
    text="FULL: Lean theorems Earverif.Renderer.render_refines_spec_os / C02_block_independent_os / "
    "C02_length_and_origin_os (and render_eq_outTS_os / C02_block_independent_ts_os / C02_length_and_origin_ts_os with "
    "track processors) prove, for the renderer model that has the PARTITIONED OVERLAP-SAVE convolver of "
    "ear/core/convolver.py inside ObjectRenderer (Model/OverlapSave.lean: filter partitions of block_size rows, "
    "input_block with the current block in the first and the previous block in the second half, rotating queue "
    "blocks_fd, slot 0 inverse-transformed / first half returned / zeroed / queue rotated; behind the "
    "VariableBlockSizeAdapter) AND numpy's exceptions where the real code raises them (ChkErr: IndexError "
    "`input_samples[:, track]` for a track outside the input - evaluated for every channel on every call -, ValueError of "
    "np.stack for an HOA item without tracks, ValueError of np.dot whenever a FixedMatrix block whose decode matrix does "
    "not have one column per track is at the head of the queue, overlap or not): render_refines_spec_os needs only "
    "SessionOK (block_size >= 1, timelines the interpreters accept) and a decorrelation filter with >= 1 tap, and says "
    "for every input and EVERY partition of it into render() calls (empty and single-sample blocks included): the "
    "session EITHER returns all blocks plus the tail concatenating to the sample-by-sample specification RenderSpec.out "
    "of the concatenated input OR raises one of those three exceptions, the latter only if the static conditions IndexOK "
    "(tracks < n_in, >= 1 track per HOA item, matrices as wide as the item has tracks) fail; render_refines_spec_os_ok: "
    "inside IndexOK no call raises; renderAllOS_ok_tracks / renderAllOS_raises_of_bad_track: a track outside the input "
    "(or an HOA item without tracks) makes EVERY session raise, for every blocking; renderAllOS_ok_first_matrix: so does "
    "a mis-shaped FIRST decode matrix of an HOA item (np.dot is evaluated on the head of the queue on the first call, "
    "overlap or not); hence (SessionWF = SessionOK + "
    "IndexOK + taps) two blockings give identical output (C02_block_independent_os), of exactly the input length, frame "
    "s = output time s (C02_length_and_origin_os); C02_block_independent_os_of_ok: without IndexOK, two blockings that "
    "both return audio return the same audio (which numpy exception is raised first CAN depend on the blocking - "
    "kernel-evaluated witness in Props/C03.lean - so equality of exceptions is not claimed). With track processors "
    "(render_eq_outTS_os etc.) IndexError / np.stack are exceptions of the C20 processor model and np.dot is added the "
    "same way. Convolver theorems "
    "(Proofs/C02OverlapSave.lean): os_step_spec (explicit state invariant OSInv: slot i holds the contributions due i "
    "blocks from now), overlapSave_eq_fir (any B >= 1, any non-empty filter - shorter than B, not a multiple of B, many "
    "partitions - any number of blocks: concatenated filter_block outputs = the linear convolution), os_fir_sim, "
    "vbs_overlapSave_run_eq / vbs_overlapSave_eq (adapter around the convolver over ANY partition = the FIR delayed by "
    "block_size, call by call), renderAllOS_rel / renderAllTSOS_rel (whole sessions with the overlap-save convolver and "
    "the numpy exceptions vs sessions with the direct-form FIR and totalised indexing, no hypotheses on items: same "
    "audio, or same exception, or a numpy exception and then IndexOK fails; generic lemmas bpcLoopC_rel / "
    "bpcProcessC_rel / procChansC_rel / hoaChansTSC_rel in Proofs/C02Checked.lean), renderAllOS_eq / renderAllTSOS_eq "
    "(equality under IndexOK); os_new_zero / "
    "os_empty_filter state what the code does outside (block_size 0: ValueError, empty filter: IndexError). The only "
    "abstraction left in the convolver is the transform pair: spectra are represented by their inverse transforms and "
    "`block += filter_block * in_block_fd` by adding circConv(2*block_size) - the convolution theorem for numpy's "
    "rfft/irfft plus linearity of irfft, ASSUMED in the proof and validated numerically on every run (integer vectors, "
    "N = 2..16 and 1024, 1-3 accumulated terms, against exact integer circular convolution, 1e-9; Lean circConv against "
    "the same exact values). The older theorems render_refines_spec / C02_block_independent / C02_length_and_origin "
    "(_ts) are about the model with the direct-form FIR stand-in (proved equal to the above) and totalised indexing; "
    "component theorems, each for all partitions by induction: delay_eq, vbs_eq, fir_blockwise_eq/vbs_fir_eq, "
    "aligner_eq, bpc_eq_gainAt/fixed_all_spec, procChans_spec/chans_subRun_spec, obj_stream/ds_stream/hoa_stream, "
    "run_factor; track processors via C20's step_after (render_strip, run_stripS, init_stripS, run_prefix). "
    "renderTrace_eq / renderTraceOS_eq / renderTraceTS_eq / renderTraceTSOS_eq prove that the functions the "
    "correspondence driver runs (renderTrace*) determine renderAll* (result = concatenated trace blocks, or the trace's "
    "exception). Tie on every run: real ear.core.renderer.Renderer (block_size 1-8, decorrelator size 2-16 via public "
    "options, captured gains, generated accepted timelines, items with mix/gain/matrix-coefficient(delay)/silent/nested "
    "track specs, rejected timelines/specs that must raise on both sides; all compositions of streams <= 8 frames in "
    "thorough) against BOTH renderer models (FIR and overlap-save: driver ops run/runts and runos/runtsos); sessions "
    "with index/shape faults (bad track, HOA item without tracks, mis-shaped decode matrix first / later / never reached / "
    "at the boundary of being reached, with and without track specs, two faults whose order depends on the blocking) on "
    "the real Renderer vs runos/runtsos: same exception kind at the same call; real "
    "OverlapSaveConvolver.filter_block and VariableBlockSizeAdapter around it against Model/OverlapSave.lean (block "
    "sizes 1,2,3,5,8,512; filter lengths 0,1,B-1,B,B+1,2B,3B+1; 1-3 channels; several blocks; random partitions incl. "
    "empty blocks; one-row blocks broadcast, other lengths and block_size 0 raise on both sides). Direct predicates on "
    "the real code: max |out_A - out_B| <= 1e-9 scale over blockings and total length = input length (Renderer, incl. "
    "default 512/512 sizes in thorough; decorrelation path alone), convolver output = exact linear convolution "
    "(tag convolver-fir).",
    note="Trusted: Lean kernel; hand transliteration + correspondence harness; numpy's rfft/irfft satisfy the "
    "convolution theorem and irfft is linear (stated abstraction of Model/OverlapSave.lean, checked numerically each "
    "run, not proved); gain calculators are black boxes (captured). Quantifier: timelines accepted by the interpreters "
    "with non-negative durations / interpolation lengths and start >= 0; for the equalities, track indices < n_in, >= 1 "
    "track per HOA item and HOA matrices of the right width (IndexOK - outside it the *_os models raise like the code; "
    "not proved: the exact dynamic condition under which a mis-shaped LATER matrix is reached, i.e. 'the previous block "
    "ends before input + tail' - that is tied by correspondence only; the FIR-model theorems are about the totalised "
    "model); the width of the input is c.n_in (a model block stands for an (n, n_in) numpy array when its frames have "
    "n_in samples; no theorem needs that as a hypothesis any more); track specs satisfying Spec.wf "
    "(delays generated away from rounding ties - the tie rule itself is C20), HOA items with >= 1 spec; one sample "
    "rate per session; filter with >= 1 tap (Cfg.decorrelator_delay for an empty filter is Nat 0 where Python has -1: "
    "unreachable, the real constructor raises first). Exact rationals on the model side; the property's 'up to "
    "rounding' is the float gap. render_refines_spec_partial / C02_block_independent_partial are leftovers superseded "
    "by render_refines_spec(_os) / C02_block_independent(_os).",
    technique="Lean 4 refinement proof of the composed renderer (induction over partitions, component by component; "
    "state-invariant proof of the partitioned overlap-save convolver; simulation between the two convolver models lifted "
    "through adapter and renderer) + differential correspondence with the real Renderer and the real convolver + "
    "numerical validation of the assumed FFT convolution theorem + partition-pair search",
    design_ref="DESIGN.md section 4, C02/C03",
)
