/-
Reusable facts about the recurring shapes of hand-written handlers (`singleImpl`, `listImpl`, `xpathImpl`, the
gain handlers, the BS.2076-1 "not before v2" stubs) and about scalar fields over the extended value type: what
each class-level theorem needs to discharge `FieldOK` and the `customEff` side condition of
`codec_roundtrip_full` for one property.
-/
import Earverif.Proofs.C08Blocks

namespace Earverif.XmlBlocks
open Earverif.XmlCodec Earverif.XmlCustom Earverif.TimeFormat

/-! ### names of the children a property writes -/

def outNames : Property XV → List String
  | .attrElement adm _ _ _ _ _ => [adm]
  | .listElement adm _ _ _ _ => [adm]
  | .customElement adm _ _ _ => [adm]
  | .genericElement _ _ impl => impl.childNames
  | _ => []

/-- every child a property writes is in the default namespace and has one of the property's names -/
def TagsOK (p : Property XV) : Prop := ∀ o : Obj XV, ∀ x ∈ p.childrenOut o, ∃ n ∈ outNames p, x.tag = outName n

theorem tagsOK_attr (adm arg : String) (c : Codec XV) (req : Bool) (d : XV) : TagsOK (.attr adm arg c req d) := by
  intro o x hx; simp [Property.childrenOut] at hx

theorem tagsOK_text (arg : String) (c : Codec XV) : TagsOK (.handleText arg c) := by
  intro o x hx; simp [Property.childrenOut] at hx

theorem tagsOK_type (d l arg : String) (cD cL : Codec XV) (req : Bool) : TagsOK (.typeAttribute d l arg cD cL req) := by
  intro o x hx; simp [Property.childrenOut] at hx

theorem tagsOK_attrElement (adm arg : String) (c : Codec XV) (req : Bool) (d : XV) (po : Bool) :
    TagsOK (.attrElement adm arg c req d po) := by
  intro o x hx
  exact ⟨adm, by simp [outNames], ctag_attrElement adm arg c req d po o x hx⟩

theorem tagsOK_listElement (adm arg : String) (c : Codec XV) (req po : Bool) :
    TagsOK (.listElement adm arg c req po) := by
  intro o x hx
  refine ⟨adm, by simp [outNames], ?_⟩
  simp only [Property.childrenOut] at hx
  split at hx
  · cases hx
  · split at hx
    · obtain ⟨v, _, rfl⟩ := List.mem_map.mp hx; rfl
    · cases hx

theorem tagsOK_custom (adm : String) (arg : Option String) (req : Bool) (impl : CustomImpl XV)
    (h : ∀ o, ∀ x ∈ impl.childrenOut o, x.tag = outName adm) : TagsOK (.customElement adm arg req impl) := by
  intro o x hx
  exact ⟨adm, by simp [outNames], h o x hx⟩

theorem tagsOK_generic (arg : Option String) (req : Bool) (impl : CustomImpl XV)
    (h : ∀ o, ∀ x ∈ impl.childrenOut o, ∃ n ∈ impl.childNames, x.tag = outName n) :
    TagsOK (.genericElement arg req impl) := fun o x hx => h o x hx

theorem tags_single (arg adm : String) (read : Bool → Xml → Option XV) (write : XV → List Xml)
    (h : ∀ v, ∀ x ∈ write v, x.tag = outName adm) :
    ∀ o, ∀ x ∈ (singleImpl arg adm read write).childrenOut o, x.tag = outName adm := by
  intro o x hx
  simp only [singleImpl] at hx
  split at hx
  · exact h _ x hx
  · cases hx

theorem tags_list (arg adm : String) (read : Kw XV → Xml → Option XV) (write : Obj XV → XV → Xml)
    (h : ∀ o v, (write o v).tag = outName adm) :
    ∀ o, ∀ x ∈ (listImpl arg adm read write).childrenOut o, x.tag = outName adm := by
  intro o x hx
  simp only [listImpl] at hx
  split at hx
  · obtain ⟨v, _, rfl⟩ := List.mem_map.mp hx; exact h o v
  · cases hx

theorem tags_xpath (arg adm : String) (read : List Xml → Option (Option XV)) (write : XV → List Xml)
    (h : ∀ v, ∀ x ∈ write v, x.tag = outName adm) :
    ∀ o, ∀ x ∈ (xpathImpl arg adm read write).childrenOut o,
      ∃ n ∈ (xpathImpl arg adm read write).childNames, x.tag = outName n := by
  intro o x hx
  simp only [xpathImpl] at hx ⊢
  split at hx
  · exact ⟨adm, by simp, h _ x hx⟩
  · cases hx

theorem tagsOK_noV2 (adm : String) : TagsOK (.customElement adm none false noV2Impl) :=
  tagsOK_custom _ _ _ _ (fun o x hx => by simp [noV2Impl] at hx)

theorem tagsOK_gain (v2 : Bool) : TagsOK (.customElement "gain" none false (gainImpl v2)) :=
  tagsOK_custom _ _ _ _ (fun o x hx => ctag_gain v2 o x hx)

theorem toXml_tag (ps : List (Property XV)) (name : String) (o : Obj XV) : (toXml ps name o).tag = outName name := rfl

theorem outName_inj {a b : String} (h : outName a = outName b) : a = b := by
  simpa [outName] using h

/-- what a `GenericElement` handler finds with `xpath(element, "{ns}nm")` in the element `to_xml` wrote: exactly the
children its own `to_xml` wrote, provided no other property writes children with that name -/
theorem xpath_own (ps : List (Property XV)) (name : String) (o : Obj XV) (l1 l2 : List (Property XV))
    (p : Property XV) (nm : String) (hps : ps = l1 ++ p :: l2) (htags : ∀ q ∈ ps, TagsOK q)
    (hp : ∀ x ∈ p.childrenOut o, x.tag = outName nm)
    (hnot : ∀ q ∈ l1 ++ l2, nm ∉ outNames q) :
    xpathChildren (toXml ps name o) nm = p.childrenOut o := by
  have hch : ps.flatMap (·.childrenOut o) =
      l1.flatMap (·.childrenOut o) ++ (p.childrenOut o ++ l2.flatMap (·.childrenOut o)) := by
    rw [hps, List.flatMap_append, List.flatMap_cons]
  have hother : ∀ l : List (Property XV), (∀ q ∈ l, q ∈ ps) → (∀ q ∈ l, nm ∉ outNames q) →
      ∀ x ∈ l.flatMap (·.childrenOut o), x.tag.name ≠ nm ∧ x.tag.ns = some defaultNs := by
    intro l hl hn x hx
    obtain ⟨q, hq, hxq⟩ := List.mem_flatMap.mp hx
    obtain ⟨n, hnq, ht⟩ := htags q (hl q hq) o x hxq
    rw [ht]
    exact ⟨fun h => hn q hq (by simpa [outName] using h ▸ hnq), rfl⟩
  have h1 := hother l1 (fun q hq => by rw [hps]; simp [hq]) (fun q hq => hnot q (by simp [hq]))
  have h2 := hother l2 (fun q hq => by rw [hps]; simp [hq]) (fun q hq => hnot q (by simp [hq]))
  unfold toXml
  rw [xpathChildren_filter, hch, List.filter_append, List.filter_append]
  · have e1 : (l1.flatMap (·.childrenOut o)).filter (fun c => c.tag = outName nm) = [] :=
      List.filter_eq_nil_iff.mpr (fun c hc => by
        simp only [decide_eq_true_eq]; intro h; exact (h1 c hc).1 (by rw [h]; rfl))
    have e2 : (l2.flatMap (·.childrenOut o)).filter (fun c => c.tag = outName nm) = [] :=
      List.filter_eq_nil_iff.mpr (fun c hc => by
        simp only [decide_eq_true_eq]; intro h; exact (h2 c hc).1 (by rw [h]; rfl))
    have e3 : (p.childrenOut o).filter (fun c => c.tag = outName nm) = p.childrenOut o :=
      List.filter_eq_self.mpr (fun c hc => by simp [hp c hc])
    rw [e1, e2, e3]; simp
  · intro c hc hn
    rw [hch, List.mem_append, List.mem_append] at hc
    rcases hc with hc | hc | hc
    · exact absurd hn (h1 c hc).1
    · exact hp c hc
    · exact absurd hn (h2 c hc).1

/-- … and the same inside an arbitrary element whose children all carry the name (the `matrix` element) -/
theorem xpath_all (tag : QName) (as : List (String × String)) (cs : List Xml) (text nm : String)
    (h : ∀ c ∈ cs, c.tag = outName nm) : xpathChildren (.node tag as cs text) nm = cs := by
  rw [xpathChildren_filter _ _ _ _ _ (fun c hc _ => h c hc)]
  exact List.filter_eq_self.mpr (fun c hc => by simp [h c hc])

/-! ### `singleImpl` -/

theorem run_single (arg adm : String) (read : Bool → Xml → Option XV) (write : XV → List Xml) (o : Obj XV) (v : XV)
    (hv : o arg = .one v) (h : write v = [] ∨ ∃ x, write v = [x] ∧ read false x = some v) :
    RunOK o (singleImpl arg adm read write)
      (fun kw => ((singleImpl arg adm read write).childrenOut o).foldlM (singleImpl arg adm read write).handle kw) := by
  intro kw hnone
  have hk : kw arg = none := hnone _ (by simp [singleImpl])
  rcases h with h | ⟨x, hx, hr⟩
  · refine ⟨kw, by simp [singleImpl, hv, h], ?_, fun _ _ => rfl⟩
    intro a ha
    simp only [singleImpl, List.mem_singleton] at ha; subst ha
    simp [singleImpl, hv, h, hk]
  · refine ⟨setOne kw arg v, by simp [singleImpl, hv, hx, hk, hr], ?_, ?_⟩
    · intro a ha
      simp only [singleImpl, List.mem_singleton] at ha; subst ha
      simp [singleImpl, hv, hx, setOne, Kw.set]
    · intro b hb
      simp only [singleImpl, List.mem_singleton] at hb
      simp [setOne, Kw.set, hb]

theorem fieldOK_single (ps : List (Property XV)) (e : Xml) (o cd : Obj XV) (arg adm : String)
    (read : Bool → Xml → Option XV) (write : XV → List Xml) (argOpt : Option String) (v : XV)
    (hv : o arg = .one v) (htag : ∀ x ∈ write v, x.tag = outName adm)
    (h : write v = [] ∨ ∃ x, write v = [x] ∧ read false x = some v) :
    FieldOK ps e o cd (.customElement adm argOpt false (singleImpl arg adm read write)) := by
  refine ⟨?_, by simp [singleImpl], (run_single arg adm read write o v hv h).ctx, by simp⟩
  intro x hx
  simp only [singleImpl, hv] at hx
  rw [htag x hx]; exact matchesName_outName _

theorem customEff_single (adm arg : String) (read : Bool → Xml → Option XV) (write : XV → List Xml)
    (argOpt : Option String) (req : Bool) (o cd : Obj XV) (v : XV) (hv : o arg = .one v)
    (hd : write v = [] → cd arg = .one v) :
    ∀ a ∈ (Property.customElement adm argOpt req (singleImpl arg adm read write)).ownArgs,
      ((Property.customElement adm argOpt req (singleImpl arg adm read write)).customEff o a).getD (cd a) = o a := by
  intro a ha
  simp only [Property.ownArgs, singleImpl, List.mem_singleton] at ha; subst ha
  cases hw : write v with
  | nil => simp [Property.customEff, singleImpl, hv, hw, hd hw]
  | cons x xs => simp [Property.customEff, singleImpl, hv, hw]

/-! ### `listImpl` -/

theorem list_fold (arg adm : String) (read : Kw XV → Xml → Option XV) (write : Obj XV → XV → Xml) (o : Obj XV)
    (C : Kw XV → Prop) (hC : ∀ kw x, C kw → C (kw.set arg x)) :
    ∀ (vs acc : List XV) (kw : Kw XV), C kw → (∀ kw, C kw → ∀ v ∈ vs, read kw (write o v) = some v) →
      kw arg = some (.many acc) →
      ∃ kw', (vs.map (write o)).foldlM (listImpl arg adm read write).handle kw = some kw' ∧
        kw' arg = some (.many (acc ++ vs)) ∧ ∀ b, b ≠ arg → kw' b = kw b := by
  intro vs
  induction vs with
  | nil => intro acc kw _ _ h; exact ⟨kw, rfl, by simpa using h, fun _ _ => rfl⟩
  | cons v vs ih =>
    intro acc kw hc hr hkw
    obtain ⟨kw', h1, h2, h3⟩ := ih (acc ++ [v]) (kw.set arg (.many (acc ++ [v]))) (hC _ _ hc)
      (fun kw hk w hw => hr kw hk w (by simp [hw])) (Kw.set_same _ _ _)
    refine ⟨kw', ?_, by simpa using h2, fun b hb => by rw [h3 b hb, Kw.set_other _ _ hb]⟩
    simp only [List.map_cons, List.foldlM_cons]
    have : (listImpl arg adm read write).handle kw (write o v) = some (kw.set arg (.many (acc ++ [v]))) := by
      simp [listImpl, hr kw hc v (by simp), hkw]
    rw [this]; exact h1

theorem run_list (arg adm : String) (read : Kw XV → Xml → Option XV) (write : Obj XV → XV → Xml) (o : Obj XV)
    (C : Kw XV → Prop) (hC : ∀ kw x, C kw → C (kw.set arg x)) (vs : List XV) (hv : o arg = .many vs)
    (hr : ∀ kw, C kw → ∀ v ∈ vs, read kw (write o v) = some v) :
    RunOKC C o (listImpl arg adm read write)
      (fun kw => ((listImpl arg adm read write).childrenOut o).foldlM (listImpl arg adm read write).handle kw) := by
  intro kw hc hnone
  have hk : kw arg = none := hnone _ (by simp [listImpl])
  cases vs with
  | nil =>
    refine ⟨kw, by simp [listImpl, hv], ?_, fun _ _ => rfl⟩
    intro a ha
    simp only [listImpl, List.mem_singleton] at ha; subst ha
    simp [listImpl, hv, hk]
  | cons v vs =>
    obtain ⟨kw', h1, h2, h3⟩ := list_fold arg adm read write o C hC vs [v] (kw.set arg (.many [v])) (hC _ _ hc)
      (fun kw hk w hw => hr kw hk w (by simp [hw])) (Kw.set_same _ _ _)
    refine ⟨kw', ?_, ?_, ?_⟩
    · have : (listImpl arg adm read write).handle kw (write o v) = some (kw.set arg (.many [v])) := by
        simp [listImpl, hr kw hc v (by simp), hk]
      simp only [listImpl, hv, List.map_cons, List.foldlM_cons] at this ⊢
      rw [this]; exact h1
    · intro a ha
      simp only [listImpl, List.mem_singleton] at ha; subst ha
      simp [listImpl, hv, h2]
    · intro b hb
      simp only [listImpl, List.mem_singleton] at hb
      rw [h3 b hb, Kw.set_other _ _ hb]

theorem customEff_list (adm arg : String) (read : Kw XV → Xml → Option XV) (write : Obj XV → XV → Xml)
    (argOpt : Option String) (req : Bool) (o cd : Obj XV) (vs : List XV) (hv : o arg = .many vs)
    (hd : cd arg = .many []) :
    ∀ a ∈ (Property.customElement adm argOpt req (listImpl arg adm read write)).ownArgs,
      ((Property.customElement adm argOpt req (listImpl arg adm read write)).customEff o a).getD (cd a) = o a := by
  intro a ha
  simp only [Property.ownArgs, listImpl, List.mem_singleton] at ha; subst ha
  cases vs with
  | nil => simp [Property.customEff, listImpl, hv, hd]
  | cons x xs => simp [Property.customEff, listImpl, hv]

/-! ### `xpathImpl` -/

theorem run_xpath (arg adm : String) (read : List Xml → Option (Option XV)) (write : XV → List Xml) (o : Obj XV)
    (e : Xml) (v : XV) (hv : o arg = .one v) (hx : xpathChildren e adm = write v)
    (hr : read (write v) = some (if (write v).isEmpty then none else some v)) :
    RunOK o (xpathImpl arg adm read write) (fun kw => (xpathImpl arg adm read write).handle kw e) := by
  intro kw hnone
  cases hw : (write v).isEmpty with
  | true =>
    have hw' : write v = [] := List.isEmpty_iff.mp hw
    refine ⟨kw, by simp [xpathImpl, hx, hr, hw], ?_, fun _ _ => rfl⟩
    intro a ha
    simp only [xpathImpl, List.mem_singleton] at ha; subst ha
    simp [xpathImpl, hv, hw', hnone a (by simp [xpathImpl])]
  | false =>
    have hw' : ¬ write v = [] := fun h => by simp [h] at hw
    refine ⟨setOne kw arg v, by simp [xpathImpl, hx, hr, hw], ?_, ?_⟩
    · intro a ha
      simp only [xpathImpl, List.mem_singleton] at ha; subst ha
      simp [xpathImpl, hv, hw', setOne, Kw.set]
    · intro b hb
      simp only [xpathImpl, List.mem_singleton] at hb
      simp [setOne, Kw.set, hb]

theorem fieldOK_xpath (ps : List (Property XV)) (e : Xml) (o cd : Obj XV) (arg adm : String)
    (read : List Xml → Option (Option XV)) (write : XV → List Xml) (v : XV)
    (hv : o arg = .one v) (htag : ∀ x ∈ write v, x.tag = outName adm) (hlook : lookupElem ps (outName adm) = none)
    (hx : xpathChildren e adm = write v)
    (hr : read (write v) = some (if (write v).isEmpty then none else some v)) :
    FieldOK ps e o cd (.genericElement none false (xpathImpl arg adm read write)) := by
  refine ⟨?_, by simp [xpathImpl], run_xpath arg adm read write o e v hv hx hr, by simp⟩
  intro x hx'
  simp only [xpathImpl, hv] at hx'
  rw [htag x hx']; exact hlook

theorem customEff_xpath (arg adm : String) (read : List Xml → Option (Option XV)) (write : XV → List Xml)
    (argOpt : Option String) (req : Bool) (o cd : Obj XV) (v : XV) (hv : o arg = .one v)
    (hd : write v = [] → cd arg = .one v) :
    ∀ a ∈ (Property.genericElement argOpt req (xpathImpl arg adm read write)).ownArgs,
      ((Property.genericElement argOpt req (xpathImpl arg adm read write)).customEff o a).getD (cd a) = o a := by
  intro a ha
  simp only [Property.ownArgs, xpathImpl, List.mem_singleton] at ha; subst ha
  cases hw : write v with
  | nil => simp [Property.customEff, xpathImpl, hv, hw, hd hw]
  | cons x xs => simp [Property.customEff, xpathImpl, hv, hw]

/-! ### gain sub-element, "not before v2" -/

theorem run_gain' (v2 : Bool) (o : Obj XV) (k : Int) (hg : o "gain" = .one (.leaf (.num k))) :
    RunOK o (gainImpl v2) (fun kw => ((gainImpl v2).childrenOut o).foldlM (gainImpl v2).handle kw) := by
  intro kw hnone
  have hk : kw "gain" = none := hnone _ (by simp [gainImpl])
  by_cases h : k = 100000
  · refine ⟨kw, by simp [gainImpl, hg, h, gainToXml], ?_, fun _ _ => rfl⟩
    intro a ha
    simp only [gainImpl, List.mem_singleton] at ha; subst ha
    simp [gainImpl, hg, h, hk]
  · refine ⟨setOne kw "gain" (.leaf (.num k)), ?_, ?_, ?_⟩
    · cases v2 <;>
        simp [gainImpl, hg, gainToXml, h, hk, handleGainElement, parseGain, gainValue, attr?, elem,
          Xml.attrs, Xml.text, loadsNum_dumpsNum]
    · intro a ha
      simp only [gainImpl, List.mem_singleton] at ha; subst ha
      simp [gainImpl, hg, h, setOne, Kw.set]
    · intro a ha
      simp only [gainImpl, List.mem_singleton] at ha
      simp [setOne, Kw.set, ha]

theorem fieldOK_gain (ps : List (Property XV)) (e : Xml) (o cd : Obj XV) (v2 : Bool) (k : Int)
    (hg : o "gain" = .one (.leaf (.num k))) :
    FieldOK ps e o cd (.customElement "gain" none false (gainImpl v2)) :=
  ⟨fun x hx => by rw [ctag_gain v2 _ x hx]; exact matchesName_outName _, by simp [gainImpl],
    (run_gain' v2 o k hg).ctx, by simp⟩

theorem customEff_gain (v2 : Bool) (argOpt : Option String) (req : Bool) (o cd : Obj XV) (k : Int)
    (hg : o "gain" = .one (.leaf (.num k))) (hd : cd "gain" = .one (.leaf (.num 100000))) :
    ∀ a ∈ (Property.customElement "gain" argOpt req (gainImpl v2)).ownArgs,
      ((Property.customElement "gain" argOpt req (gainImpl v2)).customEff o a).getD (cd a) = o a := by
  intro a ha
  simp only [Property.ownArgs, gainImpl, List.mem_singleton] at ha; subst ha
  by_cases h : k = 100000 <;> simp [Property.customEff, gainImpl, hg, hd, h]

theorem fieldOK_noV2 (ps : List (Property XV)) (e : Xml) (o cd : Obj XV) (adm : String) :
    FieldOK ps e o cd (.customElement adm none false noV2Impl) := by
  refine ⟨by simp [noV2Impl], by simp [noV2Impl], ?_, by simp⟩
  intro kw _ _
  exact ⟨kw, by simp [noV2Impl], by simp [noV2Impl], fun _ _ => rfl⟩

/-! ### scalar fields -/

theorem scalar_leaf (o cd : Obj XV) (arg : String) (c : Codec Leaf) (req : Bool) (dflt l : Leaf)
    (ho : o arg = .one (.leaf l)) (hrt : l ≠ dflt → c.loads (c.dumps l) = some l)
    (hd : if req then l ≠ dflt else cd arg = .one (.leaf dflt)) :
    ScalarOK o cd arg (liftCodec c) req (.leaf dflt) := by
  refine ⟨.leaf l, ho, fun h => lift_roundtrip c l (hrt (fun hl => h (by rw [hl]))), ?_⟩
  cases req with
  | true => simp only [if_true] at hd ⊢; intro h; exact hd (by simpa using h)
  | false => simpa using hd

/-- a required string attribute (ids, names) -/
theorem scalar_reqStr (o cd : Obj XV) (arg : String) (s : String) (ho : o arg = .one (.leaf (.str s))) :
    ScalarOK o cd arg (liftCodec stringCodec) true noneLeaf :=
  scalar_leaf o cd arg stringCodec true .none (.str s) ho (fun _ => stringCodec_roundtrip s) (by simp)

theorem scalar_optStr (o cd : Obj XV) (arg : String) (s : Option String) (ho : o arg = .one (optStrV s))
    (hcd : cd arg = .one noneLeaf) : ScalarOK o cd arg (liftCodec stringCodec) false noneLeaf := by
  cases s with
  | none => exact scalar_leaf o cd arg stringCodec false .none .none ho (fun h => absurd rfl h) (by simpa using hcd)
  | some s =>
    exact scalar_leaf o cd arg stringCodec false .none (.str s) ho (fun _ => stringCodec_roundtrip s) (by simpa using hcd)

theorem scalar_optNum (o cd : Obj XV) (arg : String) (k : Option Int) (ho : o arg = .one (optNumV k))
    (hcd : cd arg = .one noneLeaf) : ScalarOK o cd arg (liftCodec floatCodec) false noneLeaf := by
  cases k with
  | none => exact scalar_leaf o cd arg floatCodec false .none .none ho (fun h => absurd rfl h) (by simpa using hcd)
  | some k =>
    exact scalar_leaf o cd arg floatCodec false .none (.num k) ho (fun _ => floatCodec_roundtrip k) (by simpa using hcd)

theorem scalar_optInt (o cd : Obj XV) (arg : String) (k : Option Int) (ho : o arg = .one (optIntV k))
    (hcd : cd arg = .one noneLeaf) : ScalarOK o cd arg (liftCodec intCodec) false noneLeaf := by
  cases k with
  | none => exact scalar_leaf o cd arg intCodec false .none .none ho (fun h => absurd rfl h) (by simpa using hcd)
  | some k =>
    exact scalar_leaf o cd arg intCodec false .none (.int k) ho (fun _ => intCodec_roundtrip k) (by simpa using hcd)

theorem scalar_optBool (o cd : Obj XV) (arg : String) (b : Option Bool) (ho : o arg = .one (optBoolV b))
    (hcd : cd arg = .one noneLeaf) : ScalarOK o cd arg (liftCodec boolCodec) false noneLeaf := by
  cases b with
  | none => exact scalar_leaf o cd arg boolCodec false .none .none ho (fun h => absurd rfl h) (by simpa using hcd)
  | some b =>
    exact scalar_leaf o cd arg boolCodec false .none (.bool b) ho (fun _ => boolCodec_roundtrip b) (by simpa using hcd)

/-- a time value in the domain of the version's time codec -/
def TimeOK (v2 : Bool) (t : Option Time) : Prop :=
  ∀ x, t = some x → (timeCodec v2).loads ((timeCodec v2).dumps (.time x)) = some (.time x)

theorem scalar_optTime (v2 : Bool) (o cd : Obj XV) (arg : String) (t : Option Time) (ho : o arg = .one (optTime t))
    (hcd : cd arg = .one noneLeaf) (ht : TimeOK v2 t) :
    ScalarOK o cd arg (liftCodec (timeCodec v2)) false noneLeaf := by
  cases t with
  | none => exact scalar_leaf o cd arg _ false .none .none ho (fun h => absurd rfl h) (by simpa using hcd)
  | some x => exact scalar_leaf o cd arg _ false .none (.time x) ho (fun _ => ht x rfl) (by simpa using hcd)

/-- an `Int` element with a non-`None` default (`importance`, default 10) -/
theorem scalar_int (o cd : Obj XV) (arg : String) (k d : Int) (ho : o arg = .one (.leaf (.int k)))
    (hcd : cd arg = .one (.leaf (.int d))) : ScalarOK o cd arg (liftCodec intCodec) false (.leaf (.int d)) :=
  scalar_leaf o cd arg intCodec false (.int d) (.int k) ho (fun _ => intCodec_roundtrip k) (by simpa using hcd)

/-- a list of strings (`speakerLabel`, reference lists) -/
theorem list_strs (ps : List (Property XV)) (e : Xml) (o cd : Obj XV) (adm arg : String) (ss : List String)
    (ho : o arg = .many (ss.map fun s => .leaf (.str s))) (hcd : cd arg = .many []) :
    FieldOK ps e o cd (.listElement adm arg (liftCodec stringCodec) false false) := by
  refine Or.inr ⟨rfl, _, ho, ?_, fun _ => ⟨rfl, hcd⟩⟩
  intro v hv
  obtain ⟨s, _, rfl⟩ := List.mem_map.mp hv
  exact lift_roundtrip _ _ (stringCodec_roundtrip s)


theorem RunOKC.mono {C C' : Kw XV → Prop} {o : Obj XV} {impl : CustomImpl XV} {run : Kw XV → Option (Kw XV)}
    (h : ∀ kw, C' kw → C kw) (hr : RunOKC C o impl run) : RunOKC C' o impl run :=
  fun kw hc hn => hr kw (h kw hc) hn

/-- a list handler whose element parser does not look at the other keyword arguments (`as_list_handler`) -/
theorem fieldOK_list (ps : List (Property XV)) (e : Xml) (o cd : Obj XV) (arg adm : String)
    (read : Kw XV → Xml → Option XV) (write : Obj XV → XV → Xml) (argOpt : Option String) (vs : List XV)
    (hv : o arg = .many vs) (htag : ∀ v, (write o v).tag = outName adm)
    (hr : ∀ kw, ∀ v ∈ vs, read kw (write o v) = some v) :
    FieldOK ps e o cd (.customElement adm argOpt false (listImpl arg adm read write)) := by
  refine ⟨?_, by simp [listImpl], ?_, by simp⟩
  · intro x hx
    simp only [listImpl, hv] at hx
    obtain ⟨v, _, rfl⟩ := List.mem_map.mp hx
    rw [htag v]; exact matchesName_outName _
  · exact RunOKC.mono (C := fun _ => True) (fun _ _ => trivial)
      (run_list arg adm read write o (fun _ => True) (fun _ _ _ => trivial) vs hv (fun kw _ v hv => hr kw v hv))

/-- `frequency` (0–2 elements accumulated into one `Frequency`) -/
theorem run_frequency (o : Obj XV) (f : Frequency) (hf : o "frequency" = .one (.freq f)) :
    RunOK o frequencyImpl (fun kw => (frequencyImpl.childrenOut o).foldlM frequencyImpl.handle kw) := by
  intro kw hnone
  have hk : kw "frequency" = none := hnone _ (by simp [frequencyImpl])
  obtain ⟨lo, hi⟩ := f
  by_cases hz : (⟨lo, hi⟩ : Frequency) = ⟨none, none⟩
  · refine ⟨kw, ?_, ?_, fun _ _ => rfl⟩
    · simp only [Frequency.mk.injEq] at hz
      simp [frequencyImpl, hf, frequencyToXml, hz.1, hz.2]
    · intro a ha
      simp only [frequencyImpl, List.mem_singleton] at ha; subst ha
      simp [frequencyImpl, hf, hk, hz]
  · refine ⟨setOne kw "frequency" (.freq ⟨lo, hi⟩), ?_, ?_, ?_⟩
    · cases lo <;> cases hi <;> (try (simp at hz)) <;>
        simp [frequencyImpl, hf, frequencyToXml, handleFrequency, attr?, elem, Xml.attrs, Xml.text, loadsNum_dumpsNum,
          hk, setOne, Kw.set]
      all_goals (funext b; by_cases hb : b = "frequency" <;> simp_all [Kw.set])
    · intro a ha
      simp only [frequencyImpl, List.mem_singleton] at ha; subst ha
      simp [frequencyImpl, hf, setOne, Kw.set, hz]
    · intro b hb
      simp only [frequencyImpl, List.mem_singleton] at hb
      simp [setOne, Kw.set, hb]

theorem frequencyToXml_tag (f : Frequency) : ∀ x ∈ frequencyToXml f, x.tag = outName "frequency" := by
  intro x hx
  simp only [frequencyToXml, List.mem_append] at hx
  rcases hx with hx | hx <;> (split at hx <;> simp at hx; subst hx; rfl)

theorem fieldOK_frequency (ps : List (Property XV)) (e : Xml) (o cd : Obj XV) (f : Frequency)
    (hf : o "frequency" = .one (.freq f)) : FieldOK ps e o cd (.customElement "frequency" none false frequencyImpl) := by
  refine ⟨?_, by simp [frequencyImpl], (run_frequency o f hf).ctx, by simp⟩
  intro x hx
  simp only [frequencyImpl, hf] at hx
  rw [frequencyToXml_tag f x hx]; exact matchesName_outName _

end Earverif.XmlBlocks
