/- Line protocol for the C02/C03 renderer model (sections separated by `;`, tokens by spaces;
   rationals `a/b` or `a`; `-` = None).

   run|spec ; cfg <sr> <B> <nout> <nin> ; taps <L> <L*nout rats, row major> ; parts <len...> ;
     x <T*nin ints, frame major> ;
     O <track> ; b <ostart> <odur> <rtime> <dur> <jump 0|1> <ilen> <2*nout rats: direct, diffuse> ; ...
     D <track> ; b ... <nout rats> ; ...
     H <ntracks> <track...> ; b ... <ntracks*nout rats: column per input track> ; ...
     `run`  -> the model (`Renderer.renderTrace`): `<number of blocks> # ` then blocks separated by `|` (last = tail), frames by `,`;
               ` ! <error>` appended if a call raised (blocks before it are kept)
     `spec` -> `RenderSpec.out` as one block
   fir ; cfg <B> <nch> ; taps <L> <L*nch rats> ; x <rats, frame major, multiple of B frames>
          -> successive `Fir.step` outputs (one block)
   vbs ; cfg <B> <nch> ; taps ... ; parts <len...> ; x <rats> -> `Vbs.run` over the partition
   `bad-op` for a malformed line. -/
import Earverif.Model.RenderSpec
import Earverif.Driver.Util
open Earverif.Stream Earverif.Timeline Earverif.Renderer Earverif.Driver

def parseRat? (s : String) : Option Rat :=
  match s.splitOn "/" with
  | [a] => (fun (n : Int) => (n : Rat)) <$> a.toInt?
  | [a, b] => do
    let n ← a.toInt?
    let d ← b.toNat?
    if d = 0 then none else some (mkRat n d)
  | _ => none

def parseOptRat? (s : String) : Option (Option Rat) :=
  if s = "-" then some none else some <$> parseRat? s

def showRat (q : Rat) : String :=
  if q.den = 1 then toString q.num else s!"{q.num}/{q.den}"

def toVec? (n : Nat) (l : List Rat) : Option (Frame n) :=
  if h : l.toArray.size = n then some ⟨⟨l.toArray, h⟩⟩ else none

/-- Split a list into consecutive chunks of `n` (must divide). -/
def chunks? {α : Type} (n : Nat) (l : List α) : Option (List (List α)) :=
  if n = 0 then (if l.isEmpty then some [] else none)
  else
    let rec go (fuel : Nat) (l : List α) : Option (List (List α)) :=
      match fuel with
      | 0 => if l.isEmpty then some [] else none
      | fuel + 1 =>
        if l.isEmpty then some []
        else if l.length < n then none
        else (l.take n :: ·) <$> go fuel (l.drop n)
    go l.length l

def vecs? (n : Nat) (l : List Rat) : Option (List (Frame n)) := do
  (← chunks? n l).mapM (toVec? n)

def showFrames {n : Nat} (fs : List (Frame n)) : String :=
  String.intercalate "," (fs.map fun v => String.intercalate " " (v.v.toList.map showRat))

def showErr : Err → String
  | .endsAfterObject => "endsAfterObject"
  | .rtimeDurationMix => "rtimeDurationMix"
  | .overlapping => "overlapping"
  | .interpTooLong => "interpTooLong"
  | .assertInf => "assertInf"
  | .underrun => "underrun"
  | .align .pastNotAtZero => "align-past"
  | .align .badRange => "align-range"
  | .align .noRound => "align-noround"

/-- Split a flat list by a partition (list of lengths); must cover exactly. -/
def splitBy? {α : Type} : List Nat → List α → Option (List (List α))
  | [], l => if l.isEmpty then some [] else none
  | k :: ks, l => if l.length < k then none else (l.take k :: ·) <$> splitBy? ks (l.drop k)

structure RawBlock where
  os : Option Rat
  od : Option Rat
  rt : Option Rat
  du : Option Rat
  jump : Bool
  il : Option Rat
  g : List Rat

def parseBlock? (ws : List String) : Option RawBlock :=
  match ws with
  | "b" :: a :: b :: c :: d :: j :: e :: rest => do
    let jump ← if j = "1" then some true else if j = "0" then some false else none
    some ⟨← parseOptRat? a, ← parseOptRat? b, ← parseOptRat? c, ← parseOptRat? d, jump, ← parseOptRat? e,
          ← rest.mapM parseRat?⟩
  | _ => none

def RawBlock.meta {G : Type} (r : RawBlock) (g : G) : MetaBlock G := ⟨r.os, r.od, r.rt, r.du, r.jump, r.il, g⟩

inductive RawItem where
  | obj (track : Nat) (bs : List RawBlock)
  | ds (track : Nat) (bs : List RawBlock)
  | hoa (tracks : List Nat) (bs : List RawBlock)

/-- Group `O/D/H` headers with the `b` sections that follow them (sections processed in order;
a `b` section is attached to the most recent header). -/
def parseItems? (secs : List (List String)) : Option (List RawItem) := do
  let step (acc : List RawItem) (ws : List String) : Option (List RawItem) :=
    match ws with
    | ["O", t] => (fun t => RawItem.obj t [] :: acc) <$> t.toNat?
    | ["D", t] => (fun t => RawItem.ds t [] :: acc) <$> t.toNat?
    | "H" :: nt :: ts => do
      let n ← nt.toNat?
      let tr ← ts.mapM String.toNat?
      if tr.length = n then some (RawItem.hoa tr [] :: acc) else none
    | "b" :: _ => do
      let blk ← parseBlock? ws
      match acc with
      | .obj t bs :: r => some (.obj t (bs ++ [blk]) :: r)
      | .ds t bs :: r => some (.ds t (bs ++ [blk]) :: r)
      | .hoa t bs :: r => some (.hoa t (bs ++ [blk]) :: r)
      | [] => none
    | _ => none
  let acc ← secs.foldlM step []
  some acc.reverse

def buildItems? (n : Nat) (items : List RawItem) :
    Option (List (ObjItem (Frame n)) × List (DsItem (Frame n)) × List (HoaItem (Frame n))) :=
  items.foldrM (init := ([], [], [])) fun it (os, ds, hs) =>
    match it with
    | .obj t bs => do
      let blocks ← bs.mapM fun r => do
        if r.g.length ≠ 2 * n then none
        some (r.meta ((← toVec? n (r.g.take n)), (← toVec? n (r.g.drop n))))
      some (⟨t, blocks⟩ :: os, ds, hs)
    | .ds t bs => do
      let blocks ← bs.mapM fun r => do some (r.meta (← toVec? n r.g))
      some (os, ⟨t, blocks⟩ :: ds, hs)
    | .hoa tr bs => do
      let blocks ← bs.mapM fun r => do
        let cols ← vecs? n r.g
        if cols.length ≠ tr.length then none
        some (r.meta cols)
      some (os, ds, ⟨tr, blocks⟩ :: hs)

def showTrace {n : Nat} (r : List (List (Frame n)) × Option Err) : String :=
  s!"{r.1.length} # " ++ String.intercalate " | " (r.1.map showFrames) ++
    (match r.2 with | some e => " ! " ++ showErr e | none => "")

def answerRender (mode : String) (secs : List (List String)) : Option String :=
  match secs with
  | ["cfg", sr, b, nout, nin] :: ("taps" :: l :: taps) :: ("parts" :: parts) :: ("x" :: xs) :: items => do
    let sr ← sr.toNat?
    let B ← b.toNat?
    let n ← nout.toNat?
    let nin ← nin.toNat?
    let L ← l.toNat?
    let taps ← vecs? n (← taps.mapM parseRat?)
    if taps.length ≠ L then none
    let parts ← parts.mapM String.toNat?
    let xi ← xs.mapM String.toInt?
    let frames ← chunks? nin (xi.map fun (i : Int) => (i : Rat))
    let frames := if nin = 0 then List.replicate parts.sum [] else frames
    let blocks ← splitBy? parts frames
    let (objs, dss, hoas) ← buildItems? n (← parseItems? items)
    let cfg : Cfg (Frame n) := ⟨sr, B, taps, nin⟩
    if mode = "run" then
      some (showTrace (renderTrace cfg (RState.init cfg objs dss hoas) blocks))
    else
      some (showFrames (Earverif.RenderSpec.out cfg objs dss hoas frames))
  | _ => none

def answerFir (secs : List (List String)) : Option String :=
  match secs with
  | [["cfg", b, nch], "taps" :: _ :: taps, "x" :: xs] => do
    let B ← b.toNat?
    let n ← nch.toNat?
    let taps ← vecs? n (← taps.mapM parseRat?)
    let frames ← vecs? n (← xs.mapM parseRat?)
    let blocks ← chunks? B frames
    let r := blocks.foldl (init := (Fir.init taps, ([] : List (Frame n)))) fun (h, acc) blk =>
      let (h', o) := Fir.step taps h blk
      (h', acc ++ o)
    some ("1 # " ++ showFrames r.2)
  | _ => none

def answerVbs (secs : List (List String)) : Option String :=
  match secs with
  | [["cfg", b, nch], "taps" :: _ :: taps, "parts" :: parts, "x" :: xs] => do
    let B ← b.toNat?
    let n ← nch.toNat?
    if B = 0 then none
    let taps ← vecs? n (← taps.mapM parseRat?)
    let frames ← vecs? n (← xs.mapM parseRat?)
    let parts ← parts.mapM String.toNat?
    let blocks ← splitBy? parts frames
    let st := Vbs.init (Fir.step taps) B (0 : Frame n) (Fir.init taps)
    let (os, _) := Vbs.run (Fir.step taps) B 0 st blocks
    some (s!"{os.length} # " ++ String.intercalate " | " (os.map showFrames))
  | _ => none

def answer (line : String) : String :=
  let secs := (line.splitOn ";").map words
  let r := match secs with
    | ["run"] :: rest => answerRender "run" rest
    | ["spec"] :: rest => answerRender "spec" rest
    | ["fir"] :: rest => answerFir rest
    | ["vbs"] :: rest => answerVbs rest
    | _ => none
  r.getD "bad-op"

def main : IO Unit := lineLoop answer
