/- C05 — exactness at a loudspeaker position, table side: soundness of the Bool checker `Cover.spkOk`
   (Model/PointSourceCover.lean, scaled integer arithmetic) with respect to the analytic lemmas of
   Proofs/C05Exact.lean / C05ExactList.lean on the real table coordinates. -/
import Earverif.Proofs.C05ExactList
import Earverif.Proofs.C05CoverQuadCert

namespace Earverif.PointSource.Cover
open Earverif.PointSource
open Earverif.GainCalc (quadRoot)

/-! ### Triplet -/

theorem tripletRejects_sound (a b c p : IV) (h : tripletRejects a b c p = true) :
    TripletOut (castV a) (castV b) (castV c) (castV p) := by
  unfold tripletRejects at h
  simp only [Bool.and_eq_true, bne_iff_ne, ne_eq, Bool.or_eq_true, decide_eq_true_eq] at h
  obtain ⟨hd, hc⟩ := h
  have hdR : ((idet a b c : ℤ) : ℝ) ≠ 0 := by exact_mod_cast hd
  have hd2 : (0 : ℝ) < (idet a b c : ℝ) * (idet a b c : ℝ) := mul_self_pos.mpr hdR
  have key : ∀ N : ℤ, bigTI * (N * idet a b c) < -(idet a b c * idet a b c) →
      (N : ℝ) / (idet a b c : ℝ) < -(1 / 100000000000) := by
    intro N hN
    have hR : (100000000000 : ℝ) * ((N : ℝ) * (idet a b c : ℝ)) < -((idet a b c : ℝ) * (idet a b c : ℝ)) := by
      have := hN
      unfold bigTI at this
      exact_mod_cast this
    have e : (N : ℝ) / (idet a b c : ℝ) = ((N : ℝ) * (idet a b c : ℝ)) / ((idet a b c : ℝ) * (idet a b c : ℝ)) := by
      field_simp
    rw [e, div_lt_iff₀ hd2]
    linarith
  refine ⟨by rw [det3_cast]; exact hdR, ?_⟩
  rw [det3_cast, det3_cast, det3_cast, det3_cast]
  rcases hc with (h1 | h1) | h1
  · exact Or.inl (key _ h1)
  · exact Or.inr (Or.inl (key _ h1))
  · exact Or.inr (Or.inr (key _ h1))

/-! ### quadratics -/

theorem qeval_real (A B C n m : ℤ) (hm : (m : ℝ) ≠ 0) :
    ((qeval (A, B, C) (n, m) : ℤ) : ℝ) =
      (m : ℝ) ^ 2 * ((A : ℝ) * ((n : ℝ) / m) ^ 2 + (B : ℝ) * ((n : ℝ) / m) + C) := by
  unfold qeval
  push_cast
  field_simp

theorem noRootIn_sound (A B C un um vn vm : ℤ) (h : noRootIn (A, B, C) (un, um) (vn, vm) = true) :
    NoRootIn (A : ℝ) B C ((un : ℝ) / um) ((vn : ℝ) / vm) := by
  unfold noRootIn at h
  simp only [Bool.and_eq_true, decide_eq_true_eq, Bool.or_eq_true] at h
  obtain ⟨⟨hum, hvm⟩, h⟩ := h
  have humR : (0 : ℝ) < um := by exact_mod_cast hum
  have hvmR : (0 : ℝ) < vm := by exact_mod_cast hvm
  have hu2 : (0 : ℝ) < (um : ℝ) ^ 2 := by positivity
  have hv2 : (0 : ℝ) < (vm : ℝ) ^ 2 := by positivity
  have qu := qeval_real A B C un um humR.ne'
  have qv := qeval_real A B C vn vm hvmR.ne'
  generalize hu : (un : ℝ) / um = u at qu ⊢
  generalize hv : (vn : ℝ) / vm = v at qv ⊢
  rcases h with h | h
  · -- empty interval
    apply noRootIn_empty
    rw [← hu, ← hv, div_le_div_iff₀ hvmR humR]
    exact_mod_cast h
  · by_cases hA : A = 0
    · subst hA
      simp only [beq_self_eq_true, if_true, Bool.and_eq_true, Bool.or_eq_true, decide_eq_true_eq, bne_iff_ne,
        ne_eq] at h
      obtain ⟨hs, hne⟩ := h
      simp only [Int.cast_zero, zero_mul, zero_add] at qu qv ⊢
      apply noRootIn_lin
      · rcases hs with ⟨a1, a2⟩ | ⟨a1, a2⟩
        · left
          have a1' : (0 : ℝ) ≤ ((qeval (0, B, C) (un, um) : ℤ) : ℝ) := by exact_mod_cast a1
          have a2' : (0 : ℝ) ≤ ((qeval (0, B, C) (vn, vm) : ℤ) : ℝ) := by exact_mod_cast a2
          rw [qu] at a1'; rw [qv] at a2'
          exact ⟨nonneg_of_mul_nonneg_right a1' hu2, nonneg_of_mul_nonneg_right a2' hv2⟩
        · right
          have a1' : ((qeval (0, B, C) (un, um) : ℤ) : ℝ) ≤ 0 := by exact_mod_cast a1
          have a2' : ((qeval (0, B, C) (vn, vm) : ℤ) : ℝ) ≤ 0 := by exact_mod_cast a2
          rw [qu] at a1'; rw [qv] at a2'
          constructor
          · by_contra hh
            exact absurd (mul_pos hu2 (not_le.mp hh)) (not_lt.mpr a1')
          · by_contra hh
            exact absurd (mul_pos hv2 (not_le.mp hh)) (not_lt.mpr a2')
      · rcases hne with a1 | a1
        · left
          intro h0
          apply a1
          have : ((qeval (0, B, C) (un, um) : ℤ) : ℝ) = 0 := by rw [qu, h0, mul_zero]
          exact_mod_cast this
        · right
          intro h0
          apply a1
          have : ((qeval (0, B, C) (vn, vm) : ℤ) : ℝ) = 0 := by rw [qv, h0, mul_zero]
          exact_mod_cast this
    · have hA' : (A == 0) = false := by simpa using hA
      simp only [hA', Bool.false_eq_true, if_false, Bool.or_eq_true, decide_eq_true_eq, Bool.and_eq_true] at h
      have hAR : (A : ℝ) ≠ 0 := by exact_mod_cast hA
      rcases h with ((h | h) | h) | h
      · apply noRootIn_disc
        exact_mod_cast h
      · obtain ⟨a1, a2⟩ := h
        have a1' : (A : ℝ) * ((qeval (A, B, C) (un, um) : ℤ) : ℝ) ≤ 0 := by exact_mod_cast a1
        have a2' : (A : ℝ) * ((qeval (A, B, C) (vn, vm) : ℤ) : ℝ) ≤ 0 := by exact_mod_cast a2
        rw [qu] at a1'; rw [qv] at a2'
        apply noRootIn_straddle _ _ _ _ _ hAR
        · by_contra hh
          have := mul_pos hu2 (not_le.mp hh)
          nlinarith
        · by_contra hh
          have := mul_pos hv2 (not_le.mp hh)
          nlinarith
      · obtain ⟨a1, a2⟩ := h
        have a1' : 0 ≤ (A : ℝ) * ((qeval (A, B, C) (un, um) : ℤ) : ℝ) := by exact_mod_cast a1
        have a2' : 0 ≤ (A : ℝ) * (2 * (A : ℝ) * un + (B : ℝ) * um) := by exact_mod_cast a2
        rw [qu] at a1'
        apply noRootIn_left _ _ _ _ _ hAR
        · by_contra hh
          have := mul_neg_of_pos_of_neg hu2 (not_le.mp hh)
          nlinarith
        · have e : (A : ℝ) * (2 * (A : ℝ) * un + (B : ℝ) * um) = um * ((A : ℝ) * (2 * (A : ℝ) * u + B)) := by
            rw [← hu]; field_simp
          rw [e] at a2'
          exact nonneg_of_mul_nonneg_right a2' humR
      · obtain ⟨a1, a2⟩ := h
        have a1' : 0 ≤ (A : ℝ) * ((qeval (A, B, C) (vn, vm) : ℤ) : ℝ) := by exact_mod_cast a1
        have a2' : (A : ℝ) * (2 * (A : ℝ) * vn + (B : ℝ) * vm) ≤ 0 := by exact_mod_cast a2
        rw [qv] at a1'
        apply noRootIn_right _ _ _ _ _ hAR
        · by_contra hh
          have := mul_neg_of_pos_of_neg hv2 (not_le.mp hh)
          nlinarith
        · have e : (A : ℝ) * (2 * (A : ℝ) * vn + (B : ℝ) * vm) = vm * ((A : ℝ) * (2 * (A : ℝ) * v + B)) := by
            rw [← hv]; field_simp
          rw [e] at a2'
          by_contra hh
          exact absurd (mul_pos hvmR (not_le.mp hh)) (not_lt.mpr a2')

theorem cplxOk_sound (A B C : ℤ) (h : cplxOk (A, B, C) = true) : CplxOk (A : ℝ) B C := by
  unfold cplxOk at h
  simp only [Bool.or_eq_true, beq_iff_eq, decide_eq_true_eq] at h
  rcases h with (h | h) | h
  · left; exact_mod_cast h
  · right; left; exact_mod_cast h
  · right; right
    rw [bigE_cast]
    exact_mod_cast h

/-- the selection for the quadratic `c` only returns clips of roots in `[xl, xh]` -/
def AxisIn (c : ℝ × ℝ × ℝ) (xl xh : ℝ) : Prop :=
  CplxOk c.1 c.2.1 c.2.2 ∧ NoRootIn c.1 c.2.1 c.2.2 (-eps) xl ∧ NoRootIn c.1 c.2.1 c.2.2 xh (1 + eps)

def castC (c : ℤ × ℤ × ℤ) : ℝ × ℝ × ℝ := ((c.1 : ℝ), (c.2.1 : ℝ), (c.2.2 : ℝ))

theorem winLo_real : ((winLo.1 : ℤ) : ℝ) / ((winLo.2 : ℤ) : ℝ) = -eps := by
  unfold winLo bigEI eps; norm_num

theorem winHi_real : ((winHi.1 : ℤ) : ℝ) / ((winHi.2 : ℤ) : ℝ) = 1 + eps := by
  unfold winHi bigEI eps; norm_num

theorem axisOk_sound (c : ℤ × ℤ × ℤ) (xl xh : Q2) (h : axisOk c xl xh = true) :
    AxisIn (castC c) ((xl.1 : ℝ) / xl.2) ((xh.1 : ℝ) / xh.2) := by
  obtain ⟨A, B, C⟩ := c
  unfold axisOk at h
  simp only [Bool.and_eq_true] at h
  obtain ⟨⟨h1, h2⟩, h3⟩ := h
  refine ⟨cplxOk_sound A B C h1, ?_, ?_⟩
  · have := noRootIn_sound A B C winLo.1 winLo.2 xl.1 xl.2 h2
    rw [winLo_real] at this
    exact this
  · have := noRootIn_sound A B C xh.1 xh.2 winHi.1 winHi.2 h3
    rw [winHi_real] at this
    exact this

theorem AxisIn.of_scaled {S : ℝ} (hS : S ≠ 0) {c : ℝ × ℝ × ℝ} {xl xh : ℝ}
    (h : AxisIn (S * c.1, S * c.2.1, S * c.2.2) xl xh) : AxisIn c xl xh :=
  ⟨h.1.of_scaled hS, h.2.1.of_scaled, h.2.2.of_scaled⟩

theorem AxisIn.mem {c : ℝ × ℝ × ℝ} {xl xh : ℝ} (h : AxisIn c xl xh) (x : ℝ) (hx : quadRoot c = some x) :
    clip01 xl ≤ x ∧ x ≤ clip01 xh := by
  obtain ⟨r, h1, h2, rfl⟩ := quadRoot_mem c.1 c.2.1 c.2.2 xl xh h.1 h.2.1 h.2.2 x hx
  exact ⟨clip01_mono h1, clip01_mono h2⟩

theorem AxisIn.none {c : ℝ × ℝ × ℝ} {xl xh : ℝ} (h : AxisIn c xl xh) (hlt : xh < xl) : quadRoot c = none :=
  quadRoot_none c.1 c.2.1 c.2.2 xl xh h.1 h.2.1 h.2.2 hlt

/-! ### the pan quadratics: integers, scaling -/

theorem panPoly_cast (a b c d p : IV) :
    QuadRegion.panPoly (castV a) (castV b) (castV c) (castV d) (castV p) = castC (ipanPoly a b c d p) := by
  unfold QuadRegion.panPoly ipanPoly castC
  simp only [sub3_cast, cross3_cast, add3_cast, dot3_cast]

theorem panPoly_smul (S : ℝ) (a b c d p : Vec3 ℝ) :
    QuadRegion.panPoly (smul3 S a) (smul3 S b) (smul3 S c) (smul3 S d) (smul3 S p) =
      (S ^ 3 * (QuadRegion.panPoly a b c d p).1, S ^ 3 * (QuadRegion.panPoly a b c d p).2.1,
        S ^ 3 * (QuadRegion.panPoly a b c d p).2.2) := by
  obtain ⟨a0, a1, a2⟩ := a
  obtain ⟨b0, b1, b2⟩ := b
  obtain ⟨c0, c1, c2⟩ := c
  obtain ⟨d0, d1, d2⟩ := d
  obtain ⟨p0, p1, p2⟩ := p
  simp only [QuadRegion.panPoly, dot3, cross3, add3, sub3, smul3]
  refine Prod.ext ?_ (Prod.ext ?_ ?_) <;> simp only <;> ring

/-- an accepted axis check on the scaled integer corners is a statement about the real pan quadratic -/
theorem axisOk_real (S : ℝ) (hS : 0 < S) (a b c d p : IV) (a' b' c' d' p' : Vec3 ℝ) (ea : castV a = smul3 S a')
    (eb : castV b = smul3 S b') (ec : castV c = smul3 S c') (ed : castV d = smul3 S d') (ep : castV p = smul3 S p')
    (xl xh : Q2) (h : axisOk (ipanPoly a b c d p) xl xh = true) :
    AxisIn (QuadRegion.panPoly a' b' c' d' p') ((xl.1 : ℝ) / xl.2) ((xh.1 : ℝ) / xh.2) := by
  have := axisOk_sound _ _ _ h
  rw [← panPoly_cast, ea, eb, ec, ed, ep, panPoly_smul] at this
  exact this.of_scaled (by positivity)

/-! ### rationals of the hints -/

theorem ltQ_real (s t : Q2) (hs : 0 < s.2) (ht : 0 < t.2) (h : ltQ s t = true) : (s.1 : ℝ) / s.2 < (t.1 : ℝ) / t.2 := by
  unfold ltQ at h
  simp only [decide_eq_true_eq] at h
  have hs' : (0 : ℝ) < s.2 := by exact_mod_cast hs
  have ht' : (0 : ℝ) < t.2 := by exact_mod_cast ht
  rw [div_lt_div_iff₀ hs' ht']
  exact_mod_cast h

theorem clipQ_pos (t : Q2) (ht : 0 < t.2) : 0 < (clipQ t).2 := by
  unfold clipQ
  split
  · decide
  · split
    · decide
    · exact ht

theorem clipQ_real (t : Q2) (ht : 0 < t.2) : (((clipQ t).1 : ℤ) : ℝ) / ((clipQ t).2 : ℤ) = clip01 ((t.1 : ℝ) / t.2) := by
  have ht' : (0 : ℝ) < t.2 := by exact_mod_cast ht
  unfold clipQ
  simp only [clip01, min_real, max_real, zero_real, one_real]
  split
  · rename_i h
    have h' : (t.1 : ℝ) < 0 := by exact_mod_cast h
    have : (t.1 : ℝ) / t.2 < 0 := div_neg_of_neg_of_pos h' ht'
    rw [max_eq_right this.le, min_eq_left zero_le_one]; simp
  · rename_i h
    have h' : (0 : ℝ) ≤ t.1 := by exact_mod_cast (not_lt.mp h)
    have h0 : 0 ≤ (t.1 : ℝ) / t.2 := div_nonneg h' ht'.le
    split
    · rename_i h2
      have h2' : (t.2 : ℝ) < t.1 := by exact_mod_cast h2
      have : 1 < (t.1 : ℝ) / t.2 := by rw [lt_div_iff₀ ht']; linarith
      rw [max_eq_left h0, min_eq_right this.le]; simp
    · rename_i h2
      have h2' : (t.1 : ℝ) ≤ t.2 := by exact_mod_cast (not_lt.mp h2)
      have : (t.1 : ℝ) / t.2 ≤ 1 := by rw [div_le_iff₀ ht']; linarith
      rw [max_eq_left h0, min_eq_left this]

theorem bilAt_real (al be ga de : ℤ) (x y : Q2) (hx : 0 < x.2) (hy : 0 < y.2) :
    ((bilAt al be ga de x y : ℤ) : ℝ) =
      (x.2 : ℝ) * y.2 * ((1 - (x.1 : ℝ) / x.2) * (1 - (y.1 : ℝ) / y.2) * al + (x.1 : ℝ) / x.2 * (1 - (y.1 : ℝ) / y.2) * be +
        (x.1 : ℝ) / x.2 * ((y.1 : ℝ) / y.2) * ga + (1 - (x.1 : ℝ) / x.2) * ((y.1 : ℝ) / y.2) * de) := by
  have hx' : (x.2 : ℝ) ≠ 0 := by exact_mod_cast hx.ne'
  have hy' : (y.2 : ℝ) ≠ 0 := by exact_mod_cast hy.ne'
  unfold bilAt
  push_cast
  field_simp

theorem dot3_smul_smul (S : ℝ) (a b : Vec3 ℝ) : dot3 (smul3 S a) (smul3 S b) = S ^ 2 * dot3 a b := by
  obtain ⟨a0, a1, a2⟩ := a
  obtain ⟨b0, b1, b2⟩ := b
  simp only [dot3, smul3]; ring

/-- one corner of the box of the sign test -/
theorem bilAt_corner (S : ℝ) (hS : 0 < S) (a b c d p : IV) (a' b' c' d' p' : Vec3 ℝ) (ea : castV a = smul3 S a')
    (eb : castV b = smul3 S b') (ec : castV c = smul3 S c') (ed : castV d = smul3 S d') (ep : castV p = smul3 S p')
    (x y : Q2) (hx : 0 < x.2) (hy : 0 < y.2)
    (h : bilAt (idot a p) (idot b p) (idot c p) (idot d p) (clipQ x) (clipQ y) ≤ 0) :
    (1 - clip01 ((x.1 : ℝ) / x.2)) * (1 - clip01 ((y.1 : ℝ) / y.2)) * dot3 a' p' +
      clip01 ((x.1 : ℝ) / x.2) * (1 - clip01 ((y.1 : ℝ) / y.2)) * dot3 b' p' +
      clip01 ((x.1 : ℝ) / x.2) * clip01 ((y.1 : ℝ) / y.2) * dot3 c' p' +
      (1 - clip01 ((x.1 : ℝ) / x.2)) * clip01 ((y.1 : ℝ) / y.2) * dot3 d' p' ≤ 0 := by
  have hR : ((bilAt (idot a p) (idot b p) (idot c p) (idot d p) (clipQ x) (clipQ y) : ℤ) : ℝ) ≤ 0 := by exact_mod_cast h
  have hcx := clipQ_pos x hx
  have hcy := clipQ_pos y hy
  rw [bilAt_real _ _ _ _ _ _ hcx hcy, clipQ_real x hx, clipQ_real y hy, ← dot3_cast, ← dot3_cast, ← dot3_cast,
    ← dot3_cast, ea, eb, ec, ed, ep, dot3_smul_smul, dot3_smul_smul, dot3_smul_smul, dot3_smul_smul] at hR
  have hcx' : (0 : ℝ) < (clipQ x).2 := by exact_mod_cast hcx
  have hcy' : (0 : ℝ) < (clipQ y).2 := by exact_mod_cast hcy
  have hpos : 0 < ((clipQ x).2 : ℝ) * (clipQ y).2 * S ^ 2 := by positivity
  set X := clip01 ((x.1 : ℝ) / x.2)
  set Y := clip01 ((y.1 : ℝ) / y.2)
  have e : ((clipQ x).2 : ℝ) * (clipQ y).2 * ((1 - X) * (1 - Y) * (S ^ 2 * dot3 a' p') + X * (1 - Y) * (S ^ 2 * dot3 b' p') +
      X * Y * (S ^ 2 * dot3 c' p') + (1 - X) * Y * (S ^ 2 * dot3 d' p')) =
      ((clipQ x).2 : ℝ) * (clipQ y).2 * S ^ 2 * ((1 - X) * (1 - Y) * dot3 a' p' + X * (1 - Y) * dot3 b' p' +
        X * Y * dot3 c' p' + (1 - X) * Y * dot3 d' p') := by ring
  rw [e] at hR
  by_contra hh
  exact absurd (mul_pos hpos (not_le.mp hh)) (not_lt.mpr hR)

/-! ### QuadRegion: rejection and exactness from the checks -/

theorem noRootIn_pos {c : ℤ × ℤ × ℤ} {u v : Q2} (h : noRootIn c u v = true) : 0 < u.2 ∧ 0 < v.2 := by
  unfold noRootIn at h
  simp only [Bool.and_eq_true, decide_eq_true_eq] at h
  exact h.1

theorem axisOk_pos {c : ℤ × ℤ × ℤ} {xl xh : Q2} (h : axisOk c xl xh = true) : 0 < xl.2 ∧ 0 < xh.2 := by
  unfold axisOk at h
  simp only [Bool.and_eq_true] at h
  exact ⟨(noRootIn_pos h.1.2).2, (noRootIn_pos h.2).1⟩

/-- the real ordered corners of a quad with positions `q0 … q3` and vertex order `o` -/
noncomputable def ocorner (q0 q1 q2 q3 : Vec3 ℝ) (o : List Nat) (k : Nat) : Vec3 ℝ :=
  [q0, q1, q2, q3].getD (o.getD k 0) zero3

theorem polys_eq (q0 q1 q2 q3 : Vec3 ℝ) (o : List Nat) (p : Vec3 ℝ) :
    (⟨[q0, q1, q2, q3], o⟩ : QuadRegion ℝ).polys p =
      (QuadRegion.panPoly (ocorner q0 q1 q2 q3 o 0) (ocorner q0 q1 q2 q3 o 1) (ocorner q0 q1 q2 q3 o 2)
          (ocorner q0 q1 q2 q3 o 3) p,
        QuadRegion.panPoly (ocorner q0 q1 q2 q3 o 1) (ocorner q0 q1 q2 q3 o 2) (ocorner q0 q1 q2 q3 o 3)
          (ocorner q0 q1 q2 q3 o 0) p) := rfl

/-- **a QuadRegion whose check `quadRejects` passed answers `None`** (with the closed-form root selection) -/
theorem quadRejects_sound (S : ℝ) (hS : 0 < S) (a b c d p : IV) (q0 q1 q2 q3 p' : Vec3 ℝ) (o : List Nat)
    (ho : isPermOfRange o 4 = true)
    (ea : castV a = smul3 S (ocorner q0 q1 q2 q3 o 0)) (eb : castV b = smul3 S (ocorner q0 q1 q2 q3 o 1))
    (ec : castV c = smul3 S (ocorner q0 q1 q2 q3 o 2)) (ed : castV d = smul3 S (ocorner q0 q1 q2 q3 o 3))
    (ep : castV p = smul3 S p') (h : QHint) (hq : quadRejects a b c d p h = true) :
    (⟨[q0, q1, q2, q3], o⟩ : QuadRegion ℝ).handle
      (quadRoot ((⟨[q0, q1, q2, q3], o⟩ : QuadRegion ℝ).polys p').1)
      (quadRoot ((⟨[q0, q1, q2, q3], o⟩ : QuadRegion ℝ).polys p').2) p' = none := by
  rw [polys_eq]
  simp only
  unfold quadRejects at hq
  simp only [Bool.or_eq_true, Bool.and_eq_true, decide_eq_true_eq] at hq
  rcases hq with (⟨hx, hlt⟩ | ⟨hy, hlt⟩) | hbox
  · have hax := axisOk_real S hS a b c d p _ _ _ _ p' ea eb ec ed ep _ _ hx
    have hpos := axisOk_pos hx
    rw [hax.none (ltQ_real _ _ hpos.2 hpos.1 hlt)]
    rfl
  · have hay := axisOk_real S hS b c d a p _ _ _ _ p' eb ec ed ea ep _ _ hy
    have hpos := axisOk_pos hy
    rw [hay.none (ltQ_real _ _ hpos.2 hpos.1 hlt)]
    cases quadRoot (QuadRegion.panPoly (ocorner q0 q1 q2 q3 o 0) (ocorner q0 q1 q2 q3 o 1) (ocorner q0 q1 q2 q3 o 2)
      (ocorner q0 q1 q2 q3 o 3) p') <;> rfl
  · obtain ⟨⟨⟨⟨⟨⟨⟨⟨⟨hx, hy⟩, pxl⟩, pxh⟩, pyl⟩, pyh⟩, c00⟩, c01⟩, c10⟩, c11⟩ := hbox
    have hax := axisOk_real S hS a b c d p _ _ _ _ p' ea eb ec ed ep _ _ hx
    have hay := axisOk_real S hS b c d a p _ _ _ _ p' eb ec ed ea ep _ _ hy
    cases hxr : quadRoot (QuadRegion.panPoly (ocorner q0 q1 q2 q3 o 0) (ocorner q0 q1 q2 q3 o 1) (ocorner q0 q1 q2 q3 o 2)
      (ocorner q0 q1 q2 q3 o 3) p') with
    | none => rfl
    | some x =>
      cases hyr : quadRoot (QuadRegion.panPoly (ocorner q0 q1 q2 q3 o 1) (ocorner q0 q1 q2 q3 o 2) (ocorner q0 q1 q2 q3 o 3)
        (ocorner q0 q1 q2 q3 o 0) p') with
      | none => rfl
      | some y =>
        obtain ⟨x0, x1⟩ := hax.mem x hxr
        obtain ⟨y0, y1⟩ := hay.mem y hyr
        apply quad_handle_none_of_box q0 q1 q2 q3 o ho p' x y _ _ _ _ x0 x1 y0 y1
        intro X hX Y hY
        simp only [List.mem_cons, List.mem_nil_iff, or_false] at hX hY
        rcases hX with rfl | rfl <;> rcases hY with rfl | rfl
        · exact bilAt_corner S hS a b c d p _ _ _ _ p' ea eb ec ed ep _ _ pxl pyl c00
        · exact bilAt_corner S hS a b c d p _ _ _ _ p' ea eb ec ed ep _ _ pxl pyh c01
        · exact bilAt_corner S hS a b c d p _ _ _ _ p' ea eb ec ed ep _ _ pxh pyl c10
        · exact bilAt_corner S hS a b c d p _ _ _ _ p' ea eb ec ed ep _ _ pxh pyh c11

/-- the check `rootIs`: the selection returns exactly the corner's pan value -/
theorem rootIs_sound (S : ℝ) (hS : 0 < S) (a b c d p : IV) (a' b' c' d' p' : Vec3 ℝ) (ea : castV a = smul3 S a')
    (eb : castV b = smul3 S b') (ec : castV c = smul3 S c') (ed : castV d = smul3 S d') (ep : castV p = smul3 S p')
    (r0 : ℤ) (h : rootIs (ipanPoly a b c d p) r0 = true) :
    quadRoot (QuadRegion.panPoly a' b' c' d' p') = some (r0 : ℝ) ∧ (r0 = 0 ∨ r0 = 1) := by
  have hS3 : S ^ 3 ≠ 0 := by positivity
  unfold rootIs at h
  simp only [Bool.and_eq_true, Bool.or_eq_true, beq_iff_eq, bne_iff_ne, ne_eq] at h
  obtain ⟨⟨⟨⟨hr01, hroot⟩, hne⟩, hlo⟩, hhi⟩ := h
  refine ⟨?_, hr01⟩
  have hc := panPoly_cast a b c d p
  rw [ea, eb, ec, ed, ep, panPoly_smul] at hc
  generalize QuadRegion.panPoly a' b' c' d' p' = P at hc ⊢
  generalize ipanPoly a b c d p = I at hc hroot hne hlo hhi
  obtain ⟨A, B, C⟩ := P
  obtain ⟨Ai, Bi, Ci⟩ := I
  simp only [castC, Prod.mk.injEq] at hc
  obtain ⟨hA, hB, hC⟩ := hc
  have hlo' := noRootIn_sound Ai Bi Ci winLo.1 winLo.2 r0 1 hlo
  have hhi' := noRootIn_sound Ai Bi Ci r0 1 winHi.1 winHi.2 hhi
  rw [winLo_real] at hlo'
  rw [winHi_real] at hhi'
  simp only [Int.cast_one, div_one] at hlo' hhi'
  rw [← hA, ← hB, ← hC] at hlo' hhi'
  have hrootR : ((qeval (Ai, Bi, Ci) (r0, 1) : ℤ) : ℝ) = 0 := by exact_mod_cast hroot
  rw [qeval_real Ai Bi Ci r0 1 (by norm_num)] at hrootR
  simp only [Int.cast_one, div_one, one_pow, one_mul] at hrootR
  rw [← hA, ← hB, ← hC] at hrootR
  have hrR : A * (r0 : ℝ) ^ 2 + B * (r0 : ℝ) + C = 0 := by
    have : S ^ 3 * (A * (r0 : ℝ) ^ 2 + B * (r0 : ℝ) + C) = 0 := by linear_combination hrootR
    exact (mul_eq_zero.mp this).resolve_left hS3
  have h01 : (0 : ℝ) ≤ r0 ∧ (r0 : ℝ) ≤ 1 := by
    rcases hr01 with rfl | rfl <;> norm_num
  apply quadRoot_exact A B C r0 h01.1 h01.2 hrR _ hlo'.of_scaled hhi'.of_scaled
  rintro ⟨rfl, rfl, rfl⟩
  simp only [mul_zero] at hA hB hC
  have a0 : Ai = 0 := by exact_mod_cast hA.symm
  have b0 : Bi = 0 := by exact_mod_cast hB.symm
  have c0 : Ci = 0 := by exact_mod_cast hC.symm
  rcases hne with (h | h) | h
  · exact h a0
  · exact h b0
  · exact h c0

/-- `mapM` succeeded on a list whose result has a head -/
theorem mapM_cons_some' {β γ : Type} (f : β → Option γ) (l : List β) (y : γ) (ys : List γ)
    (h : l.mapM f = some (y :: ys)) : ∃ x xs, f x = some y ∧ xs.mapM f = some ys ∧ l = x :: xs := by
  cases l with
  | nil => simp at h
  | cons x xs =>
    obtain ⟨y', ys', hy, hys, he⟩ := mapM_cons_some f x xs _ h
    simp only [List.cons.injEq] at he
    obtain ⟨rfl, rfl⟩ := he
    exact ⟨x, xs, hy, hys, rfl⟩

theorem mapM_nil' {β γ : Type} (f : β → Option γ) (l : List β) (h : l.mapM f = some []) : l = [] := by
  cases l with
  | nil => rfl
  | cons x xs =>
    obtain ⟨y', ys', _, _, he⟩ := mapM_cons_some f x xs _ h
    simp at he

/-! ### regions of the table -/

theorem mapM_scale_getD (K : Nat) : ∀ (pos : List P3) (ps : List IV), pos.mapM (scaleP3 K) = some ps → ∀ i : Nat,
    castV (ps.getD i (0, 0, 0)) = smul3 ((2 : ℝ) ^ K) ((pos.map (p3 (α := ℝ))).getD i zero3)
  | [], ps, h, i => by
    simp only [List.mapM_nil, Option.pure_def, Option.some.injEq] at h
    subst h
    simp [castV, smul3, zero3]
  | x :: pos, ps, h, i => by
    obtain ⟨y, ys, hy, hys, rfl⟩ := mapM_cons_some _ _ _ _ h
    cases i with
    | zero => simpa using scaleP3_real K x y hy
    | succ i => simpa using mapM_scale_getD K pos ys hys i

theorem mapM_length {β γ : Type} (f : β → Option γ) : ∀ (l : List β) (out : List γ), l.mapM f = some out →
    out.length = l.length
  | [], out, h => by
    simp only [List.mapM_nil, Option.pure_def, Option.some.injEq] at h
    subst h; rfl
  | x :: l, out, h => by
    obtain ⟨y, ys, _, hys, rfl⟩ := mapM_cons_some f x l out h
    simp [mapM_length f l ys hys]

theorem tripletRejects_real (K : Nat) (a b c p : IV) (a' b' c' p' : Vec3 ℝ) (ea : castV a = smul3 ((2 : ℝ) ^ K) a')
    (eb : castV b = smul3 ((2 : ℝ) ^ K) b') (ec : castV c = smul3 ((2 : ℝ) ^ K) c')
    (ep : castV p = smul3 ((2 : ℝ) ^ K) p') (h : tripletRejects a b c p = true) :
    Triplet.handle (a', b', c') p' = none := by
  have := tripletRejects_sound a b c p h
  rw [ea, eb, ec, ep] at this
  exact triplet_none_of_out (this.of_scaled (by positivity))

theorem idet_real (K : Nat) (a b c : IV) (a' b' c' : Vec3 ℝ) (ea : castV a = smul3 ((2 : ℝ) ^ K) a')
    (eb : castV b = smul3 ((2 : ℝ) ^ K) b') (ec : castV c = smul3 ((2 : ℝ) ^ K) c') (h : idet a b c ≠ 0) :
    det3 (a', b', c') ≠ 0 := by
  have : det3 (castV a, castV b, castV c) ≠ 0 := by rw [det3_cast]; exact_mod_cast h
  rw [ea, eb, ec, det3_smul] at this
  intro h0
  exact this (by rw [h0, mul_zero])

/-- the roots handed to a region by `pspHandle` / `handleSel quadRoot` at the direction `p` -/
def RootsFor (reg : Region ℝ) (roots : Option ℝ × Option ℝ) (p : Vec3 ℝ) : Prop :=
  ∀ ch q, reg = .quad ch q → roots = (quadRoot (q.polys p).1, quadRoot (q.polys p).2)

/-- **a region whose check `regionRejects` passed answers `None`** at the table position `v` -/
theorem regionRejects_sound (K : Nat) (r : RawRegion) (reg : Region ℝ) (hreg : r.toRegion = some reg) (v : P3) (p : IV)
    (hp : scaleP3 K v = some p) (h : QHint) (hr : regionRejects K r p h = true) (roots : Option ℝ × Option ℝ)
    (hroots : RootsFor reg roots (p3 v)) : reg.handle roots (p3 v) = none := by
  have ep := scaleP3_real K v p hp
  obtain ⟨kind, ch, pos, centre, cdm, order⟩ := r
  unfold regionRejects at hr
  simp only at hr
  split at hr
  · -- Triplet
    rename_i _ _ a b c hm
    obtain ⟨x0, xs0, f0, hm, hx0⟩ := mapM_cons_some' _ _ _ _ hm
    obtain ⟨x1, xs1, f1, hm, hx1⟩ := mapM_cons_some' _ _ _ _ hm
    obtain ⟨x2, xs2, f2, hm, hx2⟩ := mapM_cons_some' _ _ _ _ hm
    have hnil := mapM_nil' _ _ hm
    subst hnil hx2 hx1 hx0
    simp only [RawRegion.toRegion, Option.some.injEq] at hreg
    subst hreg
    simp only [Region.handle, Option.map_eq_none_iff]
    exact tripletRejects_real K _ _ _ p _ _ _ _ (scaleP3_real K _ _ f0) (scaleP3_real K _ _ f1) (scaleP3_real K _ _ f2) ep hr
  · -- VirtualNgon
    rename_i _ _ ps hm
    simp only [RawRegion.toRegion, Option.some.injEq] at hreg
    subst hreg
    split at hr
    · rename_i ce hce
      simp only [List.all_eq_true, List.mem_range] at hr
      have hlen := mapM_length _ _ _ hm
      simp only [Region.handle]
      apply ngon_none
      intro i hi
      simp only [List.length_map] at hi ⊢
      have := hr i (by rw [hlen]; exact hi)
      simp only [fanTri, hlen] at this
      exact tripletRejects_real K _ _ _ p _ _ _ _ (mapM_scale_getD K pos ps hm _) (mapM_scale_getD K pos ps hm _)
        (scaleP3_real K _ _ hce) ep this
    · exact absurd hr (by simp)
  · -- QuadRegion
    rename_i _ _ w0 w1 w2 w3 hm
    have hget := mapM_scale_getD K pos _ hm
    obtain ⟨x0, xs0, f0, hm, hx0⟩ := mapM_cons_some' _ _ _ _ hm
    obtain ⟨x1, xs1, f1, hm, hx1⟩ := mapM_cons_some' _ _ _ _ hm
    obtain ⟨x2, xs2, f2, hm, hx2⟩ := mapM_cons_some' _ _ _ _ hm
    obtain ⟨x3, xs3, f3, hm, hx3⟩ := mapM_cons_some' _ _ _ _ hm
    have hnil := mapM_nil' _ _ hm
    subst hnil hx3 hx2 hx1 hx0
    simp only [RawRegion.toRegion, Option.some.injEq] at hreg
    subst hreg
    simp only [Bool.and_eq_true] at hr
    obtain ⟨ho, hq⟩ := hr
    have hro := hroots _ _ rfl
    simp only [Region.handle, hro, List.map_cons, List.map_nil]
    exact quadRejects_sound ((2 : ℝ) ^ K) (by positivity) _ _ _ _ p _ _ _ _ (p3 v) order ho (hget _) (hget _) (hget _)
      (hget _) ep h hq
  · exact absurd hr (by simp)

theorem getD_eq_of_getElem? {β : Type} (l : List β) (i : Nat) (a d : β) (h : l[i]? = some a) : l.getD i d = a := by
  rw [List.getD_eq_getElem?_getD, h]; rfl

/-- **a region whose check `regionExact` passed answers the unit vector of the slot** at the table position of the slot -/
theorem regionExact_sound (K : Nat) (r : RawRegion) (reg : Region ℝ) (hreg : r.toRegion = some reg) (s : Nat) (v : P3)
    (hv : r.pos[s]? = some v) (p : IV) (hp : scaleP3 K v = some p) (hlen : r.pos.length = r.ch.length)
    (he : regionExact K r s p = true) (roots : Option ℝ × Option ℝ) (hroots : RootsFor reg roots (p3 v)) :
    reg.handle roots (p3 v) = some (unitV r.ch.length s) := by
  have ep := scaleP3_real K v p hp
  obtain ⟨kind, ch, pos, centre, cdm, order⟩ := r
  simp only at hv hlen ⊢
  unfold regionExact at he
  simp only at he
  split at he
  · -- Triplet
    rename_i _ _ a b c hm
    obtain ⟨x0, xs0, f0, hm, hx0⟩ := mapM_cons_some' _ _ _ _ hm
    obtain ⟨x1, xs1, f1, hm, hx1⟩ := mapM_cons_some' _ _ _ _ hm
    obtain ⟨x2, xs2, f2, hm, hx2⟩ := mapM_cons_some' _ _ _ _ hm
    have hnil := mapM_nil' _ _ hm
    subst hnil hx2 hx1 hx0
    simp only [RawRegion.toRegion, Option.some.injEq] at hreg
    subst hreg
    simp only [Bool.and_eq_true, bne_iff_ne, ne_eq] at he
    have hdet := idet_real K _ _ _ _ _ _ (scaleP3_real K _ _ f0) (scaleP3_real K _ _ f1) (scaleP3_real K _ _ f2) he.1
    obtain ⟨e1, e2, e3⟩ := triplet_at_vertex _ _ _ hdet
    obtain ⟨v1, v2, v3⟩ := vecList_unit
    simp only [List.length_cons, List.length_nil] at hlen
    simp only [Region.handle, ← hlen]
    match s, hv with
    | 0, hv =>
      simp only [List.getElem?_cons_zero, Option.some.injEq] at hv; subst hv
      rw [e1, Option.map_some, v1]
    | 1, hv =>
      simp only [List.getElem?_cons_succ, List.getElem?_cons_zero, Option.some.injEq] at hv; subst hv
      rw [e2, Option.map_some, v2]
    | 2, hv =>
      simp only [List.getElem?_cons_succ, List.getElem?_cons_zero, Option.some.injEq] at hv; subst hv
      rw [e3, Option.map_some, v3]
    | n + 3, hv => simp at hv
  · -- VirtualNgon
    rename_i _ _ ps hm
    simp only [RawRegion.toRegion, Option.some.injEq] at hreg
    subst hreg
    split at he
    · rename_i ce hce
      have hpl := mapM_length _ _ _ hm
      simp only [Bool.and_eq_true, beq_iff_eq] at he
      obtain ⟨⟨hcdm, _⟩, he⟩ := he
      split at he
      · rename_i j hfind
        obtain ⟨hpj, hjr, _⟩ := List.find?_range_eq_some.mp hfind
        have hjn : j < pos.length := by rw [← hpl]; exact List.mem_range.mp hjr
        simp only [Bool.and_eq_true, List.all_eq_true, List.mem_range, bne_iff_ne, ne_eq, decide_eq_true_eq] at he
        obtain ⟨⟨⟨⟨hpre, hdet⟩, ho1⟩, ho2⟩, hne⟩ := he
        simp only [fanTri, hpl] at hpre hdet
        rw [hpl] at ho1 ho2 hne hpj hcdm
        have hgv : (pos.map (p3 (α := ℝ))).getD s zero3 = p3 v := getD_map_p3 pos s v hv
        simp only [Region.handle]
        have := ngon_exact ⟨pos.map p3, p3 centre, cdm.map OfF2.ofF2, order⟩ (p3 v) j s (by simpa using hjn)
          (by simpa using hcdm)
          (by
            intro i hi
            simp only [List.length_map]
            exact tripletRejects_real K _ _ _ p _ _ _ _ (mapM_scale_getD K pos ps hm _) (mapM_scale_getD K pos ps hm _)
              (scaleP3_real K _ _ hce) ep (hpre i hi))
          (by
            simp only [List.length_map]
            exact idet_real K _ _ _ _ _ _ (mapM_scale_getD K pos ps hm _) (mapM_scale_getD K pos ps hm _)
              (scaleP3_real K _ _ hce) hdet)
          (by simpa using ho1) (by simpa using ho2) (by simpa using hne)
          (by
            simp only [List.length_map]
            simp only [Bool.or_eq_true, beq_iff_eq] at hpj
            rcases hpj with h | h
            · left; exact ⟨h, by rw [h, hgv]⟩
            · right; exact ⟨h, by rw [h, hgv]⟩)
        rw [this]
        simp only [List.length_map, hlen]
      · exact absurd he (by simp)
    · exact absurd he (by simp)
  · -- QuadRegion
    rename_i _ _ w0 w1 w2 w3 hm
    have hget := mapM_scale_getD K pos _ hm
    obtain ⟨x0, xs0, f0, hm, hx0⟩ := mapM_cons_some' _ _ _ _ hm
    obtain ⟨x1, xs1, f1, hm, hx1⟩ := mapM_cons_some' _ _ _ _ hm
    obtain ⟨x2, xs2, f2, hm, hx2⟩ := mapM_cons_some' _ _ _ _ hm
    obtain ⟨x3, xs3, f3, hm, hx3⟩ := mapM_cons_some' _ _ _ _ hm
    have hnil := mapM_nil' _ _ hm
    subst hnil hx3 hx2 hx1 hx0
    simp only [RawRegion.toRegion, Option.some.injEq] at hreg
    subst hreg
    simp only [Bool.and_eq_true] at he
    obtain ⟨ho, he⟩ := he
    have hro := hroots _ _ rfl
    have hgv : ([x0, x1, x2, x3].map (p3 (α := ℝ))).getD s zero3 = p3 v := getD_map_p3 _ s v hv
    simp only [List.map_cons, List.map_nil] at hgv hget
    simp only [List.length_cons, List.length_nil] at hlen
    split at he
    · rename_i kk hfind
      obtain ⟨hpk, hkr, _⟩ := List.find?_range_eq_some.mp hfind
      simp only [beq_iff_eq] at hpk
      unfold quadExactAt at he
      simp only [Bool.and_eq_true, decide_eq_true_eq] at he
      obtain ⟨hpp, he⟩ := he
      have hppR : 0 < dot3 (p3 v : Vec3 ℝ) (p3 v) := by
        have : (0 : ℝ) < ((idot p p : ℤ) : ℝ) := by exact_mod_cast hpp
        rw [← dot3_cast, ep, dot3_smul_smul] at this
        have hS : (0 : ℝ) < ((2 : ℝ) ^ K) ^ 2 := by positivity
        exact (pos_iff_pos_of_mul_pos this).mp hS
      have hS : (0 : ℝ) < (2 : ℝ) ^ K := by positivity
      have key : ∀ (x0' y0' : ℤ),
          rootIs (ipanPoly ([w0, w1, w2, w3].getD (order.getD 0 0) (0, 0, 0)) ([w0, w1, w2, w3].getD (order.getD 1 0) (0, 0, 0))
            ([w0, w1, w2, w3].getD (order.getD 2 0) (0, 0, 0)) ([w0, w1, w2, w3].getD (order.getD 3 0) (0, 0, 0)) p) x0' = true →
          rootIs (ipanPoly ([w0, w1, w2, w3].getD (order.getD 1 0) (0, 0, 0)) ([w0, w1, w2, w3].getD (order.getD 2 0) (0, 0, 0))
            ([w0, w1, w2, w3].getD (order.getD 3 0) (0, 0, 0)) ([w0, w1, w2, w3].getD (order.getD 0 0) (0, 0, 0)) p) y0' = true →
          (((x0' : ℤ) : ℝ), ((y0' : ℤ) : ℝ), kk) ∈ [((0 : ℝ), (0 : ℝ), 0), (1, 0, 1), (1, 1, 2), (0, 1, 3)] →
          (Region.quad ch ⟨[p3 x0, p3 x1, p3 x2, p3 x3], order⟩ : Region ℝ).handle roots (p3 v) = some (unitV ch.length s) := by
        intro x0' y0' hx hy hmem
        obtain ⟨rx, _⟩ := rootIs_sound _ hS _ _ _ _ p _ _ _ _ (p3 v) (hget _) (hget _) (hget _) (hget _) ep x0' hx
        obtain ⟨ry, _⟩ := rootIs_sound _ hS _ _ _ _ p _ _ _ _ (p3 v) (hget _) (hget _) (hget _) (hget _) ep y0' hy
        simp only [Region.handle, hro, List.map_cons, List.map_nil, polys_eq]
        unfold ocorner
        rw [rx, ry, quad_handle_corner _ _ _ _ order ho kk _ _ hmem (p3 v) (by rw [hpk, hgv]) hppR, hpk, ← hlen]
      match kk, he with
      | 0, he =>
        simp only [Bool.and_eq_true] at he
        exact key 0 0 he.1.2 he.2 (by simp)
      | 1, he =>
        simp only [Bool.and_eq_true] at he
        exact key 1 0 he.1.2 he.2 (by simp)
      | 2, he =>
        simp only [Bool.and_eq_true] at he
        exact key 1 1 he.1.2 he.2 (by simp)
      | 3, he =>
        simp only [Bool.and_eq_true] at he
        exact key 0 1 he.1.2 he.2 (by simp)
      | n + 4, he => exact absurd he (by simp)
    · exact absurd he (by simp)
  · exact absurd he (by simp)

/-! ### the whole table -/

theorem toRegion_channels (r : RawRegion) (reg : Region ℝ) (h : r.toRegion = some reg) : reg.channels = r.ch := by
  obtain ⟨kind, ch, pos, centre, cdm, order⟩ := r
  unfold RawRegion.toRegion at h
  split at h <;> first | (simp only [Option.some.injEq] at h; subst h; rfl) | exact absurd h (by simp)

/-- every region of a well-formed table converts -/
theorem mapM_toRegion_of_wf (l : RawLayout) (hwf : l.wellFormed = true) :
    ∃ regions, l.regions.mapM (RawRegion.toRegion (α := ℝ)) = some regions := by
  have hall : ∀ rs : List RawRegion, (∀ x ∈ rs, x.wellFormed l.nInner = true) →
      rs.mapM (RawRegion.toRegion (α := ℝ)) ≠ none := by
    intro rs
    induction rs with
    | nil => intro _; simp
    | cons x xs ih =>
      intro hx
      have hxw := hx x (by simp)
      have hxs := ih fun y hy => hx y (by simp [hy])
      obtain ⟨ys, hys⟩ := Option.ne_none_iff_exists'.mp hxs
      obtain ⟨kind, ch, pos, centre, cdm, order⟩ := x
      simp only [RawRegion.wellFormed, Bool.and_eq_true, beq_iff_eq] at hxw
      obtain ⟨⟨⟨_, _⟩, hposlen⟩, hk⟩ := hxw
      rw [List.mapM_cons, hys]
      rcases kind with _ | _ | _ | kind
      · simp only [beq_iff_eq] at hk
        match pos, hposlen with
        | [a, b, d], _ => simp [RawRegion.toRegion]
        | [], h => simp [hk] at h
        | [_], h => simp [hk] at h
        | [_, _], h => simp [hk] at h
        | _ :: _ :: _ :: _ :: _, h => simp [hk] at h
      · simp [RawRegion.toRegion]
      · simp [RawRegion.toRegion]
      · simp at hk
  simp only [RawLayout.wellFormed, Bool.and_eq_true, List.all_eq_true] at hwf
  exact Option.ne_none_iff_exists'.mp (hall l.regions hwf.1.1.1)

theorem rootsOf_for (regions : List (Region ℝ)) (p : Vec3 ℝ) (i : Nat) (reg : Region ℝ) (h : regions[i]? = some reg) :
    RootsFor reg (rootsOf quadRoot regions p i) p := by
  intro ch q hq
  subst hq
  simp [rootsOf, h]

theorem f2_one : (OfF2.ofF2 ((1 : Int), (0 : Int)) : ℝ) = 1 := by
  simp [OfF2.ofF2, f2Rat]

/-- column `k` of the downmix matrix over ℝ -/
theorem downmixRows_col (l : RawLayout) (k : Nat) (hk : k < l.nInner) (hc : columnUnit l k = true) (i : Nat)
    (hi : i < l.nReal) : ((l.downmixRows (α := ℝ)).getD i []).getD k 0 = if i = k then 1 else 0 := by
  unfold columnUnit at hc
  simp only [List.all_eq_true, List.mem_range, beq_iff_eq] at hc
  have hci := hc i hi
  have getD_map_range : ∀ {β : Type} (f : Nat → β) (n j : Nat) (d : β), j < n → ((List.range n).map f).getD j d = f j := by
    intro β f n j d hj
    rw [List.getD_eq_getElem?_getD, List.getElem?_map, List.getElem?_range hj]; rfl
  unfold RawLayout.downmixRows
  rw [getD_map_range _ _ _ _ hi, getD_map_range _ _ _ _ hk]
  by_cases hik : i = k
  · subst hik
    simp only [if_true, Option.map_eq_some_iff] at hci
    obtain ⟨e, he, he2⟩ := hci
    rw [he]
    simp only [he2, if_true]
    exact f2_one
  · rw [if_neg hik, Option.map_eq_none_iff] at hci
    rw [hci]
    simp [hik]

theorem length_downmixRows' (l : RawLayout) : (l.downmixRows (α := ℝ)).length = l.nReal := by
  simp [RawLayout.downmixRows]

/-- **A loudspeaker whose check `spkOk` passed**: at its table position the inner panner (first accepting region) followed
    by the downmix answers exactly `e_k`. -/
theorem spkOk_sound (K : Nat) (l : RawLayout) (hwf : l.wellFormed = true) (k : Nat) (c : SpkCert)
    (h : spkOk K l k c = true) :
    k < l.nReal ∧ ∃ v, speakerPos l k = some v ∧ ∃ regions, l.regions.mapM (RawRegion.toRegion (α := ℝ)) = some regions ∧
      PointSourcePannerDownmix.handle (l.downmixRows (α := ℝ))
        (PointSourcePanner.handle regions l.nInner (rootsOf quadRoot regions (p3 v)) (p3 v)) = some (unitV l.nReal k) := by
  obtain ⟨regions, hregs⟩ := mapM_toRegion_of_wf l hwf
  unfold spkOk at h
  split at h
  · exact absurd h (by simp)
  · rename_i r hr
    simp only [Bool.and_eq_true, decide_eq_true_eq, beq_iff_eq, List.all_eq_true] at h
    obtain ⟨⟨⟨⟨⟨⟨⟨⟨hk, hle⟩, hcol⟩, hslot⟩, hdist⟩, hchlt⟩, hlen⟩, hpos⟩, h⟩ := h
    split at h
    · exact absurd h (by simp)
    · rename_i p hp
      cases hv : r.pos[c.slot]? with
      | none => simp [hv] at hp
      | some v =>
        simp only [hv, Option.bind_some] at hp
        simp only [Bool.and_eq_true, List.all_eq_true, List.mem_range] at h
        obtain ⟨hpre, hex⟩ := h
        refine ⟨hk, v, by rw [hpos, hv], regions, hregs, ?_⟩
        obtain ⟨reg, hreg, hto⟩ := mapM_getElem? _ _ _ hregs _ _ hr
        have hinner : PointSourcePanner.handle regions l.nInner (rootsOf quadRoot regions (p3 v)) (p3 v) =
            some (unitV l.nInner k) := by
          rw [panner_first regions l.nInner _ (p3 v) c.region reg hreg (unitV r.ch.length c.slot) ?_ ?_]
          · rw [toRegion_channels r reg hto, zeros_eq, scatter_unit l.nInner r.ch c.slot k hslot hdist]
          · intro j hj rj hrj
            have := hpre j hj
            cases hlj : l.regions[j]? with
            | none => simp [hlj] at this
            | some rawj =>
              simp only [hlj] at this
              obtain ⟨rj', hrj', htoj⟩ := mapM_getElem? _ _ _ hregs _ _ hlj
              rw [hrj] at hrj'
              simp only [Option.some.injEq] at hrj'
              subst hrj'
              exact regionRejects_sound K rawj rj htoj v p hp _ this _ (rootsOf_for regions _ j rj hrj)
          · exact regionExact_sound K r reg hto c.slot v hv p hp hlen hex _ (rootsOf_for regions _ _ reg hreg)
        rw [hinner]
        simp only [PointSourcePannerDownmix.handle, Option.map_some, Option.some.injEq]
        have hkI : k < l.nInner := by omega
        have hm := matVec_unitV (l.downmixRows (α := ℝ)) l.nInner k hkI (by rw [length_downmixRows']; exact hk)
          (fun i hi => downmixRows_col l k hkI hcol i (by rw [length_downmixRows'] at hi; exact hi))
        rw [hm, length_downmixRows', normalise_unitV _ _ hk]

/-- **A table whose check `exactLayoutOk` passed**: at the table position of every loudspeaker the modelled
    `configure(layout).handle` (closed-form root selection) answers exactly that loudspeaker's unit vector; for 0+2+0
    (stereo wrapper): M+030 ↦ left only, M-030 ↦ right only. -/
theorem exactLayoutOk_sound (K : Nat) (l : RawLayout) (hwf : l.wellFormed = true) (cs : List SpkCert)
    (h : exactLayoutOk K l cs = true) (k : Nat) (hk : k < nSpeakers l) :
    ∃ v, speakerPos l k = some v ∧ handleSel quadRoot l (p3 v) = some (unitV (nSpeakers l) (speakerOut l k)) := by
  unfold exactLayoutOk at h
  simp only [Bool.and_eq_true, beq_iff_eq, decide_eq_true_eq, List.all_eq_true, List.mem_range] at h
  obtain ⟨⟨⟨hlen, hle⟩, hall⟩, hst⟩ := h
  obtain ⟨hkr, v, hv, regions, hregs, hdm⟩ := spkOk_sound K l hwf k _ (hall k (by rw [hlen]; exact hk))
  refine ⟨v, hv, ?_⟩
  unfold handleSel
  rw [hregs]
  simp only
  unfold RawLayout.handle
  rw [hregs]
  simp only [hdm]
  unfold nSpeakers speakerOut at *
  cases hs : l.stereo with
  | none => simp only
  | some lr =>
    obtain ⟨a, b⟩ := lr
    simp only [hs, Bool.and_eq_true, decide_eq_true_eq, beq_iff_eq, bne_iff_ne, ne_eq] at hst hk ⊢
    obtain ⟨⟨⟨ha, hb⟩, hab⟩, h5⟩ := hst
    obtain ⟨s1, s2⟩ := scatter_pair a b ha hb hab
    rw [h5]
    have hk' : k = 0 ∨ k = 1 := by omega
    rcases hk' with rfl | rfl
    · rw [stereo_unit0]; simp only [remap, Option.map_some, if_true, s1]
    · rw [stereo_unit1]; simp only [remap, Option.map_some, s2]; rfl

theorem exactTablesOk_layout (K : Nat) (ls : List RawLayout) (cs : List (List SpkCert)) (h : exactTablesOk K ls cs = true)
    (l : RawLayout) (hl : l ∈ ls) : ∃ c ∈ cs, exactLayoutOk K l c = true := by
  unfold exactTablesOk at h
  simp only [Bool.and_eq_true, beq_iff_eq, List.all_eq_true] at h
  obtain ⟨i, hi, rfl⟩ := List.mem_iff_getElem.mp hl
  have hi' : i < cs.length := h.1 ▸ hi
  refine ⟨cs[i], List.getElem_mem hi', h.2 (ls[i], cs[i]) ?_⟩
  rw [List.mem_iff_getElem]
  exact ⟨i, by simp [hi, hi'], by simp⟩

end Earverif.PointSource.Cover
