/-
C16 — PCM decode/encode is exact for every sample code.

Model: `Model/Ieee.lean` (`rn53`: IEEE-754 binary64 round-to-nearest-even over exact rationals)
and `Model/Pcm.lean` (`decode`, `encode`, byte packing, interleaving), a transliteration of
`ear/fileio/bw64/utils.py`.  Lemmas: `Proofs/C16Ieee.lean` (rounding), `Proofs/C16Pcm.lean`
(error analysis of the round trip), `Proofs/C16Table.lean` (the 2·(b-1)+4 codes per depth that the
analysis does not cover: 0, ±2^f, ±M, -2^(b-1); kernel evaluation), `Proofs/C16Lists.lean`.

What the real code rejects (outside every statement below): bit depths other than 16/24/32
(`RuntimeError`; `none` in `pack`/`unpack`), byte strings that are not a whole number of samples
(`ValueError`; `none`), NaN samples.
-/
import Earverif.Proofs.C16Pcm
import Earverif.Proofs.C16Step
import Earverif.Proofs.C16Lists

namespace Earverif.Pcm
open Earverif.Ieee

/-- The supported bit depths. -/
def Depth (b : ℕ) : Prop := b = 16 ∨ b = 24 ∨ b = 32

/-- A sample code of depth `b`. -/
def IsCode (b : ℕ) (c : ℤ) : Prop := -(2 : ℤ) ^ (b - 1) ≤ c ∧ c < (2 : ℤ) ^ (b - 1)

/-! ### the rounding model -/

/-- `rn53` is within half a unit in the last place: on the binade `2^e ≤ |x| < 2^(e+1)` the
error is at most `2^(e-53)`. -/
theorem rn53_error (x : ℚ) (e : ℤ) (h1 : (2 : ℚ) ^ e ≤ |x|) (h2 : |x| < (2 : ℚ) ^ (e + 1)) :
    |rn53 x - x| ≤ (2 : ℚ) ^ (e - 53) := by
  have hz : (2 : ℚ) ^ (e - 53) = (2 : ℚ) ^ (e - 52) / 2 := by
    have : e - 53 = e - 52 - 1 := by ring
    rw [this, zpow_sub_one₀ (by norm_num)]; rfl
  rw [hz]
  rcases le_or_gt 0 x with h | h
  · rw [abs_of_nonneg h] at h1 h2
    rw [rn53_pos x e h1 h2]; exact rnAt_err e x
  · rw [abs_of_neg h] at h1 h2
    have := rnAt_err e (-x)
    rw [← rn53_pos (-x) e h1 h2, rn53_neg] at this
    have e2 : -rn53 x - -x = -(rn53 x - x) := by ring
    rwa [e2, abs_neg] at this

/-- A value strictly closer than half a grid step to a grid point `N·2^(e-52)` of its own binade
rounds to that grid point. -/
theorem rn53_snap (y : ℚ) (e N : ℤ) (h1 : (2 : ℚ) ^ e ≤ y) (h2 : y < (2 : ℚ) ^ (e + 1))
    (h : |y - N * (2 : ℚ) ^ (e - 52)| < (2 : ℚ) ^ (e - 53)) : rn53 y = N * (2 : ℚ) ^ (e - 52) := by
  have hz : (2 : ℚ) ^ (e - 53) = (2 : ℚ) ^ (e - 52) / 2 := by
    have : e - 53 = e - 52 - 1 := by ring
    rw [this, zpow_sub_one₀ (by norm_num)]; rfl
  rw [rn53_pos y e h1 h2]
  exact rnAt_snap e y N (by rw [← hz]; exact h)

/-- Representable values are fixed points. -/
theorem rn53_exact (e N : ℤ) (h1 : (2 : ℚ) ^ e ≤ N * (2 : ℚ) ^ (e - 52))
    (h2 : N * (2 : ℚ) ^ (e - 52) < (2 : ℚ) ^ (e + 1)) :
    rn53 (N * (2 : ℚ) ^ (e - 52)) = N * (2 : ℚ) ^ (e - 52) :=
  rn53_snap _ e N h1 h2 (by rw [sub_self, abs_zero]; exact two_zpow_pos _)

/-- `rn53` is odd and keeps `[-1, 1]` invariant. -/
theorem rn53_odd_unit (x : ℚ) : rn53 (-x) = -rn53 x ∧ (|x| ≤ 1 → |rn53 x| ≤ 1) :=
  ⟨rn53_neg x, rn53_abs_le_one x⟩

/-! ### one sample code -/

theorem tables (b : ℕ) (hb : Depth b) :
    (∀ f < b - 1, powOk b f = true) ∧ specialOk b = true ∧ b - 1 ≤ 52 ∧ 1 ≤ b - 1 := by
  rcases hb with rfl | rfl | rfl
  · exact ⟨pow_table16, special_table.1, by norm_num, by norm_num⟩
  · exact ⟨pow_table24, special_table.2.1, by norm_num, by norm_num⟩
  · exact ⟨pow_table32, special_table.2.2, by norm_num, by norm_num⟩

/-- Dividing a code by the scale and multiplying the rounded quotient by the scale again gives,
after rounding, exactly the code — for every code up to full scale. -/
theorem div_mul_exact (b : ℕ) (hb : Depth b) (c : ℤ) (hlo : -scale b ≤ c) (hhi : c ≤ scale b) :
    rn53 (rn53 ((c : ℚ) / (scale b : ℚ)) * (scale b : ℚ)) = c := by
  obtain ⟨hp, hs, h52, -⟩ := tables b hb
  exact div_mul_of_tables b (b - 1) rfl h52 hp hs c (by unfold scale at hlo; omega) (by unfold scale at hhi; omega)

/-- **C16.** Decoding a sample code and encoding the result reproduces the code, except that the
most negative code comes back as the negated maximum — for all `2^b` codes of all three depths. -/
theorem C16_roundtrip (b : ℕ) (hb : Depth b) (c : ℤ) (hc : IsCode b c) :
    encode b (decode b c) = if c = -(2 : ℤ) ^ (b - 1) then -((2 : ℤ) ^ (b - 1) - 1) else c := by
  obtain ⟨hp, hs, h52, -⟩ := tables b hb
  exact roundtrip_of_tables b (b - 1) rfl h52 hp hs c hc.1 hc.2

/-- Decoded values lie in `[-1 - 1/M, 1]`; all but the most negative code in `[-1, 1]`. -/
theorem decode_range (b : ℕ) (hb : Depth b) (c : ℤ) (hc : IsCode b c) :
    -1 - 1 / (scale b : ℚ) ≤ decode b c ∧ decode b c ≤ 1 ∧
    (c ≠ -(2 : ℤ) ^ (b - 1) → -1 ≤ decode b c) := by
  obtain ⟨-, hs, -, h1⟩ := tables b hb
  exact decode_range_of_tables b (b - 1) rfl h1 hs c hc.1 hc.2

/-- Values outside `[-1, 1]` are clipped to full scale on encoding. -/
theorem encode_clips (b : ℕ) (hb : Depth b) (x : ℚ) :
    (1 < x → encode b x = scale b) ∧ (x < -1 → encode b x = -scale b) :=
  encode_clips_of_tables b (tables b hb).2.1 x

/-! ### byte strings -/

/-- Packing codes into bytes and unpacking them gives the codes back. -/
theorem pack_unpack (b : ℕ) (hb : Depth b) (cs : List ℤ) (h : ∀ c ∈ cs, IsCode b c) :
    ∃ bs, pack b cs = some bs ∧ unpack b bs = some cs ∧ bs.length = b / 8 * cs.length := by
  rcases hb with rfl | rfl | rfl
  · obtain ⟨bs, p, u, l⟩ := pack_unpack16 cs (fun c hc => by have := h c hc; unfold IsCode at this; simpa using this)
    exact ⟨bs, p, by simp [unpack, u], by omega⟩
  · obtain ⟨bs, p, u, l⟩ := pack_unpack24go cs (fun c hc => by have := h c hc; unfold IsCode at this; simpa using this)
    exact ⟨bs, p, by simp [unpack, unpack24_eq bs (by omega), u], by omega⟩
  · obtain ⟨bs, p, u, l⟩ := pack_unpack32 cs (fun c hc => by have := h c hc; unfold IsCode at this; simpa using this)
    exact ⟨bs, p, by simp [unpack, u], by omega⟩

/-- Every byte string holding a whole number of samples unpacks (no exception) into codes of the
depth, and packing those codes gives the byte string back. -/
theorem unpack_pack (b : ℕ) (hb : Depth b) (bs : List ℕ) (hbytes : ∀ x ∈ bs, x < 256)
    (hlen : bs.length % (b / 8) = 0) :
    ∃ cs, unpack b bs = some cs ∧ pack b cs = some bs ∧ (∀ c ∈ cs, IsCode b c) ∧
      cs.length = bs.length / (b / 8) := by
  rcases hb with rfl | rfl | rfl
  · obtain ⟨cs, u, p, r, l⟩ := unpack_pack16 (bs.length / 2) bs (by omega) hbytes
    exact ⟨cs, by simp [unpack, u], p, fun c hc => by have := r c hc; unfold IsCode; simpa using this, l⟩
  · obtain ⟨cs, u, p, r, l⟩ := unpack_pack24go (bs.length / 3) bs (by omega) hbytes
    exact ⟨cs, by simp [unpack, unpack24_eq bs (by omega), u], p,
      fun c hc => by have := r c hc; unfold IsCode; simpa using this, l⟩
  · obtain ⟨cs, u, p, r, l⟩ := unpack_pack32 (bs.length / 4) bs (by omega) hbytes
    exact ⟨cs, by simp [unpack, u], p, fun c hc => by have := r c hc; unfold IsCode; simpa using this, l⟩

/-- **C16, byte level.** `encode_pcm_samples(decode_pcm_samples(bytes))` is the canonical form of
`bytes` (most negative code replaced by the negated maximum), never an exception, for every byte
string holding whole samples; and it is `bytes` itself when the most negative code does not occur. -/
theorem C16_roundtrip_bytes (b : ℕ) (hb : Depth b) (bs : List ℕ) (hbytes : ∀ x ∈ bs, x < 256)
    (hlen : bs.length % (b / 8) = 0) :
    (decodeBytes b bs).bind (encodeBytes b) = canonBytes b bs ∧
    (∃ cs, unpack b bs = some cs ∧
      ((∀ c ∈ cs, c ≠ -(2 : ℤ) ^ (b - 1)) → (decodeBytes b bs).bind (encodeBytes b) = some bs)) := by
  obtain ⟨cs, u, p, r, -⟩ := unpack_pack b hb bs hbytes hlen
  have key : List.map (encode b) (List.map (decode b) cs) = cs.map (canonCode b) := by
    rw [List.map_map]
    apply List.map_congr_left
    intro c hc
    simp only [Function.comp, canonCode]
    exact C16_roundtrip b hb c (r c hc)
  have e1 : (decodeBytes b bs).bind (encodeBytes b) = pack b (cs.map (canonCode b)) := by
    simp only [decodeBytes, u, Option.map_some, Option.bind_some, encodeBytes, key]
  refine ⟨by rw [e1]; simp only [canonBytes, u, Option.bind_some], cs, u, ?_⟩
  intro hne
  have : cs.map (canonCode b) = cs := by
    conv_rhs => rw [← List.map_id cs]
    apply List.map_congr_left
    intro c hc
    simp only [canonCode, if_neg (hne c hc), id]
  rw [e1, this, p]

/-! ### channels -/

/-- De-interleaving what `interleave` produced from `ch`-channel frames gives the frames back. -/
theorem interleave_deinterleave {α} [Inhabited α] (ch : ℕ) (hch : 0 < ch) (frames : List (List α))
    (hfr : ∀ fr ∈ frames, fr.length = ch) :
    deinterleave ch (interleave ch frames) = some frames :=
  il_deil ch hch frames hfr

/-- A flat sample list holding whole frames de-interleaves (no exception) into `ch`-channel frames
whose interleaving is the flat list again. -/
theorem deinterleave_interleave {α} [Inhabited α] (ch : ℕ) (hch : 0 < ch) (flat : List α)
    (h : flat.length % ch = 0) :
    ∃ frames, deinterleave ch flat = some frames ∧ interleave ch frames = flat ∧
      (∀ fr ∈ frames, fr.length = ch) ∧ frames.length = flat.length / ch :=
  deil_il ch hch flat h

/-! ### arbitrary samples (used by C09: what a written sample reads back as) -/

theorem scale_bounds (b : ℕ) (hb : Depth b) : 0 < scale b ∧ scale b < (2 : ℤ) ^ 52 := by
  rcases hb with rfl | rfl | rfl <;> (unfold scale; norm_num)

/-- Whatever float is handed to the encoder (any value, `±inf` included as `±2^1024`), the code it
produces is a code of the depth and never the most negative one. -/
theorem encode_isCode (b : ℕ) (hb : Depth b) (x : ℚ) :
    IsCode b (encode b x) ∧ encode b x ≠ -(2 : ℤ) ^ (b - 1) := by
  obtain ⟨h0, h52⟩ := scale_bounds b hb
  obtain ⟨lo, hi⟩ := encode_range_of b h0 h52 x
  unfold scale at lo hi
  unfold IsCode
  refine ⟨⟨by omega, by omega⟩, by omega⟩

/-- **One quantisation step.**  For every bit depth and every sample `x ∈ [-1, 1]` (every rational,
hence every binary64 value the real encoder can be given in that range):
`|decode (encode x) - x| < 1/(2^(b-1) - 1) + 2^-54` — strictly less than one quantisation step from the
truncation plus at most `2^-54` from the rounding of the final float division.  (The bound
`≤ 1/(2^(b-1)-1)` without the `2^-54` is not provable: the decoded value is itself a rounded quotient.) -/
theorem encode_within_step (b : ℕ) (hb : Depth b) (x : ℚ) (hx : |x| ≤ 1) :
    |decode b (encode b x) - x| < 1 / (scale b : ℚ) + (2 : ℚ) ^ (-54 : ℤ) := by
  obtain ⟨h0, h52⟩ := scale_bounds b hb
  exact encode_within_step_of b h0 h52 x hx

/-- Samples outside `[-1, 1]` read back as exactly `±1` (full scale). -/
theorem encode_clipped (b : ℕ) (hb : Depth b) (x : ℚ) :
    (1 < x → decode b (encode b x) = 1) ∧ (x < -1 → decode b (encode b x) = -1) := by
  obtain ⟨-, hs, -, -⟩ := tables b hb
  obtain ⟨-, -, -, -, -, -, d1, d2, -, -⟩ := specialOk_spec hs
  obtain ⟨c1, c2⟩ := encode_clips b hb x
  exact ⟨fun h => by rw [c1 h, d1], fun h => by rw [c2 h, d2]⟩

/-- **Representable values are returned exactly**: a sample that is the decoded value of a code
(other than the most negative one) is a fixed point of encode-then-decode. -/
theorem decode_encode_representable (b : ℕ) (hb : Depth b) (c : ℤ) (hc : IsCode b c)
    (hne : c ≠ -(2 : ℤ) ^ (b - 1)) : decode b (encode b (decode b c)) = decode b c := by
  rw [C16_roundtrip b hb c hc, if_neg hne]

theorem canonCode_isCode (b : ℕ) (_hb : Depth b) (c : ℤ) (hc : IsCode b c) : IsCode b (canonCode b c) := by
  have h1 : (1 : ℤ) ≤ (2 : ℤ) ^ (b - 1) := one_le_pow₀ (by norm_num)
  unfold canonCode IsCode at *
  split_ifs <;> constructor <;> omega

/-- **C16, byte level, totality.**  On every byte string holding whole samples neither function raises:
`decode_pcm_samples` returns one float per sample and `encode_pcm_samples` of those floats returns a byte
string of the original length, which is the canonical form of the input (the input itself when the most
negative code does not occur; the most negative code included: it comes back as the negated maximum). -/
theorem C16_roundtrip_bytes_some (b : ℕ) (hb : Depth b) (bs : List ℕ) (hbytes : ∀ x ∈ bs, x < 256)
    (hlen : bs.length % (b / 8) = 0) :
    ∃ cs xs out, unpack b bs = some cs ∧ decodeBytes b bs = some xs ∧ xs = cs.map (decode b) ∧
      xs.length = bs.length / (b / 8) ∧ encodeBytes b xs = some out ∧
      canonBytes b bs = some out ∧ out.length = bs.length ∧
      ((∀ c ∈ cs, c ≠ -(2 : ℤ) ^ (b - 1)) → out = bs) := by
  obtain ⟨cs, u, p, r, l⟩ := unpack_pack b hb bs hbytes hlen
  have key : List.map (encode b) (List.map (decode b) cs) = cs.map (canonCode b) := by
    rw [List.map_map]
    apply List.map_congr_left
    intro c hc
    simp only [Function.comp, canonCode]
    exact C16_roundtrip b hb c (r c hc)
  obtain ⟨out, po, -, lo⟩ := pack_unpack b hb (cs.map (canonCode b)) (by
    intro c hc
    obtain ⟨c', hc', rfl⟩ := List.mem_map.mp hc
    exact canonCode_isCode b hb c' (r c' hc'))
  have hb8 : 0 < b / 8 := by rcases hb with rfl | rfl | rfl <;> norm_num
  refine ⟨cs, cs.map (decode b), out, u, by simp [decodeBytes, u], rfl, by simp [l], ?_, ?_, ?_, ?_⟩
  · simp only [encodeBytes, key, po]
  · simp only [canonBytes, u, Option.bind_some, po]
  · rw [lo, List.length_map, l]
    exact Nat.mul_div_cancel' (Nat.dvd_of_mod_eq_zero hlen)
  · intro hne
    have : cs.map (canonCode b) = cs := by
      conv_rhs => rw [← List.map_id cs]
      apply List.map_congr_left
      intro c hc
      simp only [canonCode, if_neg (hne c hc), id]
    rw [this, p] at po
    exact (Option.some.inj po).symm

/-- **Copying audio through the library's tools does not alter it.**  For every channel count and every
byte string holding whole frames: decode → deinterleave → interleave → encode succeeds at every stage
(no exception), yields `len / (bytes per frame)` frames of `ch` samples, and the bytes that come out are
the canonical form of the bytes that went in — identical unless the most negative code occurs, which
comes back as the negated maximum. -/
theorem C16_copy_through_tools (b ch : ℕ) (hb : Depth b) (hch : 0 < ch) (bs : List ℕ)
    (hbytes : ∀ x ∈ bs, x < 256) (hlen : bs.length % (b / 8 * ch) = 0) :
    ∃ cs xs frames out, unpack b bs = some cs ∧ decodeBytes b bs = some xs ∧
      deinterleave ch xs = some frames ∧
      frames.length = bs.length / (b / 8 * ch) ∧ (∀ fr ∈ frames, fr.length = ch) ∧
      encodeBytes b (interleave ch frames) = some out ∧ canonBytes b bs = some out ∧
      out.length = bs.length ∧ ((∀ c ∈ cs, c ≠ -(2 : ℤ) ^ (b - 1)) → out = bs) := by
  have hb8 : 0 < b / 8 := by rcases hb with rfl | rfl | rfl <;> norm_num
  obtain ⟨q, hq⟩ := Nat.dvd_of_mod_eq_zero hlen
  have hlen8 : bs.length % (b / 8) = 0 := by rw [hq, Nat.mul_assoc]; exact Nat.mul_mod_right _ _
  obtain ⟨cs, xs, out, u, d, hx, lx, e, c, lo, hid⟩ := C16_roundtrip_bytes_some b hb bs hbytes hlen8
  have hxl : xs.length = ch * q := by
    rw [lx, hq, Nat.mul_assoc, Nat.mul_div_cancel_left _ hb8]
  obtain ⟨frames, df, il, fl, fn⟩ := deinterleave_interleave ch hch xs (by rw [hxl]; exact Nat.mul_mod_right _ _)
  refine ⟨cs, xs, frames, out, u, d, df, ?_, fl, by rw [il]; exact e, c, lo, hid⟩
  rw [fn, hxl, hq, Nat.mul_div_cancel_left _ hch, Nat.mul_div_cancel_left _ (Nat.mul_pos hb8 hch)]

/-! ### non-vacuity: concrete inputs satisfying the hypotheses, and the exceptional code -/

example : Depth 24 ∧ IsCode 24 (-8388608) ∧ IsCode 24 8388607 ∧ IsCode 24 12345 := by
  unfold Depth IsCode; norm_num
example : encode 16 (decode 16 (-32768)) = -32767 ∧ encode 16 (decode 16 12345) = 12345 ∧
    decode 16 32767 = 1 ∧ decode 16 (-32768) < -1 := by decide +kernel
example : unpack 24 [0xff, 0xff, 0x7f, 0x00, 0x00, 0x80] = some [8388607, -8388608] ∧
    canonBytes 24 [0x00, 0x00, 0x80] = some [0x01, 0x00, 0x80] := by decide +kernel
example : deinterleave 2 [1, 2, 3, 4, 5, 6] = some [[1, 2], [3, 4], [5, 6]] ∧
    deinterleave 2 [1, 2, 3] = (none : Option (List (List ℤ))) := by decide +kernel

example : |decode 16 (encode 16 (1 / 3)) - 1 / 3| < 1 / (scale 16 : ℚ) + (2 : ℚ) ^ (-54 : ℤ) ∧
    encode 16 (1 / 3) = 10922 ∧ decode 16 (encode 16 (1 / 3)) ≠ 1 / 3 ∧
    decode 24 (encode 24 (3 / 2)) = 1 ∧ decode 32 (encode 32 (-7)) = -1 := by decide +kernel
/-- the hex digits `3fd5555555555555` are the double nearest to 1/3, and back -/
example : (ofBits 0x3fd5555555555555).bind toBits = some 0x3fd5555555555555 ∧
    ofBits 0x3fd5555555555555 = some (rn53 (1 / 3)) ∧ toBits (-3 / 2) = some 0xbff8000000000000 := by
  decide +kernel
example : ∃ cs xs frames out, unpack 24 [1, 0, 0, 0, 0, 0x80, 0xff, 0xff, 0x7f, 2, 0, 0] = some cs ∧
    decodeBytes 24 [1, 0, 0, 0, 0, 0x80, 0xff, 0xff, 0x7f, 2, 0, 0] = some xs ∧
    deinterleave 2 xs = some frames ∧ frames.length = 2 ∧
    encodeBytes 24 (interleave 2 frames) = some out ∧
    out = [1, 0, 0, 1, 0, 0x80, 0xff, 0xff, 0x7f, 2, 0, 0] :=
  ⟨_, _, _, _, rfl, rfl, rfl, by decide +kernel, rfl, by decide +kernel⟩

end Earverif.Pcm
