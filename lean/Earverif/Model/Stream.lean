/-
Stream components of the renderer (C02/C03), transliterated from

* `ear/core/delay.py`          `Delay.process`
* `ear/core/convolver.py`      `VariableBlockSizeAdapter.__init__/process`,
                               `OverlapSaveConvolver` (stand-in: direct-form FIR with history)
* `ear/core/block_aligner.py`  `BlockAligner.add/get`

numpy arrays of shape `(n, nchannels)` are lists of frames; the frame type `V` is generic
(`RMod V`: addition, zero, scalar multiplication by a rational, channel-wise product).  The
driver runs the models at `V = Frame n` (vectors of `n` rationals); the theorems are stated for any `V`
satisfying the module laws.  Core Lean only.
-/
namespace Earverif.Stream

/-- Frames: what one row of a numpy sample array is.  `smul c v` is `c * v`, `pmul a b` is the
channel-wise product `a * b` of two rows (used for per-channel FIR taps). -/
class RMod (V : Type) extends Add V, Zero V where
  smul : Rat → V → V
  pmul : V → V → V

instance : RMod Rat where
  smul := (· * ·)
  pmul := (· * ·)

/-- A row of `n` exact samples (own type, so that `+`/`0` are the ones defined here). -/
structure Frame (n : Nat) where
  v : Vector Rat n

instance {n : Nat} : RMod (Frame n) where
  add a b := ⟨Vector.zipWith (· + ·) a.v b.v⟩
  zero := ⟨Vector.replicate n 0⟩
  smul c a := ⟨a.v.map (c * ·)⟩
  pmul a b := ⟨Vector.zipWith (· * ·) a.v b.v⟩

instance {V W : Type} [RMod V] [RMod W] : RMod (V × W) where
  add a b := (a.1 + b.1, a.2 + b.2)
  zero := (0, 0)
  smul c a := (RMod.smul c a.1, RMod.smul c a.2)
  pmul a b := (RMod.pmul a.1 b.1, RMod.pmul a.2 b.2)

/-- numpy `l[start:start+len(vals)] = vals` for an in-range slice. -/
def setSlice {α : Type} (l : List α) (start : Nat) (vals : List α) : List α :=
  l.take start ++ vals ++ l.drop (start + vals.length)

/-- numpy `l[a:b]` for `0 ≤ a`, `0 ≤ b`. -/
def slice {α : Type} (l : List α) (a b : Nat) : List α := (l.take b).drop a

/-- numpy `l[a:b] += vals` (`vals` as long as the slice). -/
def addSlice {V : Type} [Add V] (l : List V) (a : Nat) (vals : List V) : List V :=
  setSlice l a (List.zipWith (· + ·) (slice l a (a + vals.length)) vals)

/-! ### `Delay` -/

/-- `Delay.__init__`: `delaymem = zeros((delay, nchannels))`. -/
def Delay.init {α : Type} (z : α) (delay : Nat) : List α := List.replicate delay z

/-- `Delay.process`: returns `(output, new delaymem)`.  The three slice copies of the Python,
in order; `src = [mem, inp]`, `dst = [output, mem]`. -/
def Delay.process {α : Type} (z : α) (mem inp : List α) : List α × List α :=
  -- output = np.zeros_like(input_samples)
  let output := List.replicate inp.length z
  -- start_len = min(len(src[0]), len(dst[0])); if start_len: dst[0][:start_len] = src[0][:start_len]
  let start_len := min mem.length output.length
  let output := if start_len ≠ 0 then setSlice output 0 (mem.take start_len) else output
  -- overlap = len(src[0]) - len(dst[0])
  let r : List α × List α :=
    if mem.length > output.length then
      -- overlap > 0: dst[1][:overlap] = src[0][-overlap:]
      let overlap := mem.length - output.length
      (output, setSlice mem 0 (mem.drop (mem.length - overlap)))
    else if mem.length < output.length then
      -- overlap < 0: dst[0][overlap:] = src[1][:-overlap]
      let k := output.length - mem.length
      (setSlice output (output.length - k) (inp.take k), mem)
    else (output, mem)
  let output := r.1
  let mem := r.2
  -- end_len = min(len(src[1]), len(dst[1])); if end_len: dst[1][-end_len:] = src[1][-end_len:]
  let end_len := min inp.length mem.length
  let mem := if end_len ≠ 0 then setSlice mem (mem.length - end_len) (inp.drop (inp.length - end_len)) else mem
  (output, mem)

/-- Feed a sequence of blocks through a `Delay`; returns the outputs and the final memory. -/
def Delay.run {α : Type} (z : α) : List α → List (List α) → List (List α) × List α
  | mem, [] => ([], mem)
  | mem, b :: bs =>
    let (o, mem') := Delay.process z mem b
    let (os, mem'') := Delay.run z mem' bs
    (o :: os, mem'')

/-! ### `VariableBlockSizeAdapter` around a stateful block function -/

/-- State of the adapter plus the state `σ` of the wrapped `process_func`. -/
structure Vbs (σ α : Type) where
  buffer : List α
  buffer_input : Nat
  fstate : σ

/-- `VariableBlockSizeAdapter.__init__`: `buffer = process_func(zeros((block_size, n)))` — the wrapped
function is *called once on a zero block* by the constructor. -/
def Vbs.init {σ α : Type} (f : σ → List α → σ × List α) (B : Nat) (z : α) (s0 : σ) : Vbs σ α :=
  let r := f s0 (List.replicate B z)
  ⟨r.2, 0, r.1⟩

/-- The `while n_done < n_input` loop of `VariableBlockSizeAdapter.process`, with fuel. -/
def Vbs.loop {σ α : Type} (f : σ → List α → σ × List α) (B : Nat) (inp : List α) :
    Nat → Vbs σ α → Nat → List α → Vbs σ α × List α
  | 0, st, _, out => (st, out)
  | fuel + 1, st, n_done, out =>
    if n_done < inp.length then
      let to_xfer := min (inp.length - n_done) (B - st.buffer_input)
      -- output_samples[samples_slice] = self.buffer[buffer_slice]
      let out := setSlice out n_done (slice st.buffer st.buffer_input (st.buffer_input + to_xfer))
      -- self.buffer[buffer_slice] = input_samples[samples_slice]
      let buffer := setSlice st.buffer st.buffer_input (slice inp n_done (n_done + to_xfer))
      let bi := st.buffer_input + to_xfer
      let n_done := n_done + to_xfer
      if bi = B then
        let r := f st.fstate buffer
        Vbs.loop f B inp fuel ⟨r.2, 0, r.1⟩ n_done out
      else
        Vbs.loop f B inp fuel ⟨buffer, bi, st.fstate⟩ n_done out
    else (st, out)

/-- `VariableBlockSizeAdapter.process`.  Fuel `len(input)+1` suffices when `block_size ≥ 1` (every
iteration then transfers at least one sample); with `block_size = 0` the Python loop does not
terminate. -/
def Vbs.process {σ α : Type} (f : σ → List α → σ × List α) (B : Nat) (z : α) (st : Vbs σ α)
    (inp : List α) : Vbs σ α × List α :=
  Vbs.loop f B inp (inp.length + 1) st 0 (List.replicate inp.length z)

def Vbs.run {σ α : Type} (f : σ → List α → σ × List α) (B : Nat) (z : α) :
    Vbs σ α → List (List α) → List (List α) × Vbs σ α
  | st, [] => ([], st)
  | st, b :: bs =>
    let (st', o) := Vbs.process f B z st b
    let (os, st'') := Vbs.run f B z st' bs
    (o :: os, st'')

/-! ### FIR with history (stand-in for `OverlapSaveConvolver.filter_block`)

`taps[k]` is row `k` of the `(n, nchannels)` filter array; output frame `t` is
`Σ_k taps[k] * x[t-k]` (channel-wise), with `x` = zeros before the first call.  The state is the
last `len(taps) - 1` input frames. -/

def Fir.init {V : Type} [RMod V] (taps : List V) : List V := List.replicate (taps.length - 1) 0

/-- One output frame: `Σ_k taps[k] * xs[pos - k]`, terms with `k > pos` dropped. -/
def Fir.at {V : Type} [RMod V] (taps : List V) (xs : List V) (pos : Nat) : V :=
  ((List.range taps.length).map fun k =>
    if k ≤ pos then RMod.pmul (taps.getD k 0) (xs.getD (pos - k) 0) else 0).foldl (· + ·) 0

/-- `filter_block`: history `hist` (the last `len(taps)-1` input frames), block in, block out. -/
def Fir.step {V : Type} [RMod V] (taps : List V) (hist block : List V) : List V × List V :=
  let xs := hist ++ block
  let out := (List.range block.length).map fun i => Fir.at taps xs (hist.length + i)
  (xs.drop (xs.length - (taps.length - 1)), out)

/-! ### `BlockAligner` -/

inductive AlignErr where
  | pastNotAtZero   -- assert self.buf_start == 0
  | badRange        -- assert 0 <= start_buf and 0 < end_buf
  | noRound         -- assert self.first_end is not None
  deriving Repr, DecidableEq

structure Aligner (V : Type) where
  buf : List V
  buf_start : Int
  first_end : Option Int

/-- `BlockAligner.__init__`. -/
def Aligner.init {V : Type} : Aligner V := ⟨[], 0, none⟩

/-- `BlockAligner.add`. -/
def Aligner.strip {V : Type} (a : Aligner V) (start : Int) (samples : List V) :
    Except AlignErr (Int × List V) :=
  -- strip off any samples before time 0
  if start < a.buf_start then
    if a.buf_start ≠ 0 then .error AlignErr.pastNotAtZero
    else
      let to_discard : Int := min (a.buf_start - start) samples.length
      .ok (start + to_discard, samples.drop to_discard.toNat)
  else .ok (start, samples)

def Aligner.add {V : Type} [RMod V] (a : Aligner V) (start : Int) (samples : List V) :
    Except AlignErr (Aligner V) :=
  match a.strip start samples with
  | .error e => .error e
  | .ok (start, samples) =>
    let end_ : Int := start + samples.length
    let start_buf := start - a.buf_start
    let end_buf := end_ - a.buf_start
    -- if end_buf > len(self.buf): self.buf.resize(...)   (zero-filled)
    let buf := if end_buf > a.buf.length then a.buf ++ List.replicate (end_buf.toNat - a.buf.length) 0 else a.buf
    -- if len(samples): assert 0 <= start_buf and 0 < end_buf; self.buf[start_buf:end_buf] += samples
    if samples.length ≠ 0 ∧ ¬ (0 ≤ start_buf ∧ 0 < end_buf) then .error AlignErr.badRange
    else
      let buf := if samples.length ≠ 0 then addSlice buf start_buf.toNat samples else buf
      let first_end := match a.first_end with
        | none => some end_
        | some fe => if fe > end_ then some end_ else some fe
      .ok ⟨buf, a.buf_start, first_end⟩

/-- `BlockAligner.get`: returns the completed samples and the new state. -/
def Aligner.get {V : Type} [RMod V] (a : Aligner V) : Except AlignErr (List V × Aligner V) :=
  match a.first_end with
  | none => .error AlignErr.noRound
  | some fe =>
    let n_samples := (max (fe - a.buf_start) 0).toNat
    let to_return := a.buf.take n_samples
    -- buf[:len-n] = buf[n:]; buf[len-n:] = 0
    let buf := a.buf.drop n_samples ++ List.replicate (a.buf.length - (a.buf.length - n_samples)) 0
    .ok (to_return, ⟨buf, a.buf_start + n_samples, none⟩)

end Earverif.Stream
