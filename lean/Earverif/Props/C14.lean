/-
C14 — item selection fails only with ADM errors, and rejects what it cannot resolve.

Theorems about the model `Earverif.Validate.selectItems` (a transliteration of
`select_rendering_items` with the pack allocator abstracted to an oracle, see Model/Validate.lean);
the model is tied to /repo by harness/c14.py on every run.

`select_no_internal_partial` is PARTIAL only because these are outside the model: message formatting, attrs
type validators (and with them cross-class references), `RecursionError` (graph walks use fuel = number of
elements; the loop validations run first), rtime/duration and the HOA/absoluteDistance parameters that generated
documents leave unset.  Inside the model since round 2: the Matrix branch (`_validate_matrix_types`,
`matrix.type_of`, `input_pack_format`, `get_wrapped_packs`/`wrap_matrix_pack`,
`MatrixAllocationPack.output_channel_allocation`), `_validate_avs_references` / `_get_alternativeValueSet`, and
the proof of `MultitreeSound` (`multitree_sound`), which is no longer a hypothesis.
Structural hypotheses (always true of parsed documents, like dangling references being impossible):
`wellScoped` and `avsOwned` (an alternativeValueSet element is the child of one audioObject).
-/
import Earverif.Proofs.C14Matrix
namespace Earverif.Validate
open Earverif.AdmV

/-- the graph-theoretic fact `_get_pack_format_path`'s `[found_path] = ...` relies on -/
def MultitreeSound (d : Doc) : Prop := validateMultitree d = .ok () → uniquePaths d = true

/-- proved (round 2): a successful `_validate_pack_channel_multitree` DFS visited pairwise different nodes, so
every channel below a pack is yielded once by `pack_format_channels` and lies on exactly one pack path -/
theorem multitreeSound_holds (d : Doc) : MultitreeSound d := multitree_sound d

/-- After `validate_structure` succeeded every later unpacking / dereference / assert / `type_of` is safe: item
selection never ends in a non-ADM exception — on every well-scoped document graph, Matrix packs included, for
every programme / complementary-object selection and every outcome of the allocator. -/
theorem select_no_internal_partial (d : Doc) (prog : Option Nat) (sel : List Nat) (oracle : Oracle)
    (hw : d.wellScoped = true) (hown : d.avsOwned = true)
    (hprog : ∀ p, prog = some p → p < d.programmes.length)
    (horacle : ∀ pats, patterns d = .ok pats → OracleScoped pats oracle) :
    ∀ k, selectItems d prog sel oracle ≠ .error (.internal k) := by
  intro k hk
  unfold selectItems at hk
  split at hk
  · rename_i e he; injection hk with hk; subst hk
    exact validateStructure_noInt d k he
  · rename_i hv
    have hs := validateStructure_ok hv
    split at hk
    · rename_i e he; injection hk with hk; subst hk
      exact patterns_noInt hs k he
    · rename_i pats hpats
      split at hk
      · rename_i e he; injection hk with hk; subst hk
        exact selectComplementary_noInt d sel k he
      · split at hk
        · rename_i e he; injection hk with hk; subst hk
          exact selectStates_noInt hprog k he
        · rename_i states hstates
          exact sumE_noInt (fun i st hst => processState_noInt hw hs (patterns_ok hs hpats) (horacle pats hpats)
            (multitree_sound d hs.multitree) i st
            (avsSelected_noInt hs hown (selectStates_ok hstates st (List.mem_filter.mp hst).1))) 0 k hk

/-- The allocator's packs can always be built after validation: `matrix.type_of`, `[encode_pack] = ...` and
`encode_pack.inputPackFormat` in `wrap_matrix_pack` are total, whatever the declaration order of the packs. -/
theorem allocator_init_no_internal (d : Doc) (hv : validateStructure d = .ok ()) :
    ∀ k, patterns d ≠ .error (.internal k) := patterns_noInt (validateStructure_ok hv)

/-- `validate_structure` alone raises only ADM errors, on every document graph (no hypothesis at all), Matrix
branch and `_validate_avs_references` included: every `matrix.type_of`, `[encode_apf] = ...`,
`[block_format] = ...` and `assert obj is not None` in it is preceded by its guard, in any declaration order of
the packs (`_partial` only for what is outside the model: attrs validators, messages, unset parameters). -/
theorem validate_no_internal_partial (d : Doc) :
    ∀ k, validateStructure d ≠ .error (.internal k) := validateStructure_noInt d

/-- `_get_alternativeValueSet`'s `assert ... "more than one active alternativeValueSet"` cannot fail for a state
yielded by `_select_programme_content_objects` once `_validate_avs_references` accepted the document. -/
theorem avs_assert_total (d : Doc) (prog : Option Nat) (states : List State)
    (hv : validateStructure d = .ok ()) (hown : d.avsOwned = true) (hst : selectStates d prog = .ok states) :
    ∀ st ∈ states, ∀ k, avsSelected d st ≠ .error (.internal k) :=
  fun st h => avsSelected_noInt (validateStructure_ok hv) hown (selectStates_ok hst st h)

/-- No allocation (0 solutions): `select_pack_mapping` never yields items, and what it raises is not a
non-ADM exception — the diagnostics in `raise_error` are total on the validated tracks. -/
theorem conflicting_is_error (d : Doc) (pats : List Pattern) (oracle : Oracle) (i : Nat) (st : State)
    (hw : d.wellScoped = true) (hs : validateStructure d = .ok ()) (ho : oracle i = some []) :
    (∀ m, processState d pats oracle i st ≠ .ok m) ∧ ∀ k, processState d pats oracle i st ≠ .error (.internal k) := by
  refine ⟨processState_conflicting_never_items ho, ?_⟩
  have hso := validateStructure_ok hs
  have hlt := selectedOf_tracks_lt hw st
  have hok := processState_tracksOk hw hso st
  intro k hk
  unfold processState at hk
  rcases hsel : selectedOf d st with ⟨packs, tracks, n⟩
  rw [hsel] at hk hlt hok
  simp only [ho] at hk hlt hok
  have hrefs : ∀ t ∈ tracks, TrackRefsOk d t := fun t ht => trackRefsOk_of_valid hw hso (hlt t ht)
  split at hk
  · rename_i e he; injection hk with hk; subst hk
    exact forE_noInt (fun t ht => validateSelectedTrack_noInt (hrefs t ht)) k he
  · rename_i hv
    split at hk
    · rename_i e he; injection hk with hk; subst hk
      exact mapE_noInt (fun t ht => channelForTrack_noInt (hrefs t ht)) k he
    · exact raiseError_noInt (hok hv) k hk

/-- Ambiguous allocation (≥ 2 solutions): never resolved to items, never a non-ADM exception. -/
theorem ambiguous_is_error (d : Doc) (pats : List Pattern) (oracle : Oracle) (i : Nat) (st : State)
    (s1 s2 : List Nat) (rest : List (List Nat))
    (hw : d.wellScoped = true) (hs : validateStructure d = .ok ()) (ho : oracle i = some (s1 :: s2 :: rest)) :
    (∀ m, processState d pats oracle i st ≠ .ok m) ∧ ∀ k, processState d pats oracle i st ≠ .error (.internal k) := by
  refine ⟨processState_ambiguous_never_items ho, ?_⟩
  have hso := validateStructure_ok hs
  have hlt := selectedOf_tracks_lt hw st
  have hok := processState_tracksOk hw hso st
  intro k hk
  unfold processState at hk
  rcases hsel : selectedOf d st with ⟨packs, tracks, n⟩
  rw [hsel] at hk hlt hok
  simp only [ho] at hk hlt hok
  have hrefs : ∀ t ∈ tracks, TrackRefsOk d t := fun t ht => trackRefsOk_of_valid hw hso (hlt t ht)
  split at hk
  · rename_i e he; injection hk with hk; subst hk
    exact forE_noInt (fun t ht => validateSelectedTrack_noInt (hrefs t ht)) k he
  · rename_i hv
    split at hk
    · rename_i e he; injection hk with hk; subst hk
      exact mapE_noInt (fun t ht => channelForTrack_noInt (hrefs t ht)) k he
    · exact raiseError_noInt (hok hv) k hk

/-- whenever the raise-error path is reached the result is the ADM error asked for, provided the
diagnostics terminate normally (which `diagnostics_total` shows) -/
theorem raiseError_adm (d : Doc) (packs : Option (List Nat)) (tracks : List Nat) (n : Nat) (a : AdmKind)
    (h : ∀ t ∈ tracks, TrackOk d t) :
    raiseError d packs tracks n a = .error (.adm a) ∨
      ∃ a', possibleReferenceErrors d packs tracks n = .error (.adm a') ∨
        possibleReferenceErrors d packs tracks n = .error .noOracle := by
  unfold raiseError
  cases hp : possibleReferenceErrors d packs tracks n with
  | ok l => left; rfl
  | error e =>
    right
    cases e with
    | adm a' => exact ⟨a', Or.inl rfl⟩
    | internal k => exact absurd hp (possibleReferenceErrors_noInt h k)
    | noOracle => exact ⟨a, Or.inr rfl⟩

/-- `possible_reference_errors` yields no non-ADM exception for either referencing style, on tracks that
passed `validate_selected_audioTrackUID` in a validated document (`TrackOk`; for a v1-style track the
trackFormat → streamFormat → channelFormat chain is complete, for a v2-style track the direct
channelFormat reference is present). This is the obligation the tree before commit 0d9f6b4 fails. -/
theorem diagnostics_total (d : Doc) (packs : Option (List Nat)) (tracks : List Nat) (n : Nat)
    (h : ∀ t ∈ tracks, TrackOk d t) :
    ∀ k, possibleReferenceErrors d packs tracks n ≠ .error (.internal k) :=
  possibleReferenceErrors_noInt h

/-! ### Non-vacuity and counter-examples (kernel evaluation) -/

deriving instance DecidableEq for Except

def objBlock : Block := {}
def hoaBlock (o g : Int) : Block := { order := some o, degree := some g }

/-- valid BS.2076-1 style document: programme → content → object → pack/track; track → trackFormat → stream → channel -/
def docV1 : Doc := {
  v2Allowed := false
  programmes := [{ contents := [0] }], contents := [{ objects := [0] }]
  objects := [{ packs := [0], tracks := [some 0] }]
  packs := [{ type := .objects, channels := [0] }]
  channels := [{ type := .objects, blocks := [objBlock] }]
  streams := [{ channel := some 0 }], trackFormats := [{ stream := some 0 }]
  trackUIDs := [{ trackIndex := some 1, pack := some 0, trackFormat := some 0 }] }

/-- valid BS.2076-2 style document: track → channel directly -/
def docV2 : Doc := {
  v2Allowed := true
  programmes := [{ contents := [0] }], contents := [{ objects := [0] }]
  objects := [{ packs := [0], tracks := [some 0] }]
  packs := [{ type := .objects, channels := [0] }]
  channels := [{ type := .objects, blocks := [objBlock] }]
  trackUIDs := [{ trackIndex := some 1, pack := some 0, channel := some 0 }] }

def oracleOne : Oracle := fun _ => some [[0]]
def oracleNone : Oracle := fun _ => some []
def oracleTwo : Oracle := fun _ => some [[0], [0]]

example : docV1.wellScoped = true ∧ uniquePaths docV1 = true := by decide
example : selectItems docV1 none [] oracleOne = .ok 1 := by decide
example : selectItems docV2 none [] oracleOne = .ok 1 := by decide
example : selectItems docV1 (some 0) [] oracleOne = .ok 1 := by decide
-- conflicting / ambiguous references, both styles: the ADM error, via total diagnostics
example : selectItems docV1 none [] oracleNone = .error (.adm .conflicting) := by decide
example : selectItems docV2 none [] oracleNone = .error (.adm .conflicting) := by decide
example : selectItems docV1 none [] oracleTwo = .error (.adm .ambiguous) := by decide
example : selectItems docV2 none [] oracleTwo = .error (.adm .ambiguous) := by decide
-- one faulty document per modelled fault class
example : selectItems { docV1 with trackFormats := [{ stream := none }] } none [] oracleOne = .error (.adm .tfnostream) := by decide
example : selectItems { docV1 with streams := [{}] } none [] oracleOne = .error (.adm .streamnone) := by decide
example : selectItems { docV1 with streams := [{ channel := some 0, pack := some 0 }] } none [] oracleOne = .error (.adm .streamboth) := by decide
example : selectItems { docV1 with streams := [{ pack := some 0 }] } none [] oracleOne = .error (.adm .streamnochannel) := by decide
example : selectItems { docV1 with objects := [{ packs := [0], tracks := [some 0], objects := [0] }] } none [] oracleOne = .error (.adm .objloop) := by decide
example : selectItems { docV1 with objects := [{ objects := [1], params := true }, { packs := [0], tracks := [some 0] }] } none [] oracleOne = .error (.adm .leafparam) := by decide
example : selectItems { docV1 with channels := [{ type := .directSpeakers, blocks := [objBlock] }] } none [] oracleOne = .error (.adm .packchtype) := by decide
example : selectItems { docV1 with packs := [{ type := .objects, channels := [0], packs := [1] }, { type := .directSpeakers }] } none [] oracleOne = .error (.adm .subpacktype) := by decide
example : selectItems { docV1 with packs := [{ type := .objects, channels := [0], packs := [0] }] } none [] oracleOne = .error (.adm .packloop) := by decide
example : selectItems { docV1 with packs := [{ type := .objects, channels := [0, 0] }] } none [] oracleOne = .error (.adm .diamond) := by decide
example : selectItems { docV1 with channels := [{ type := .objects, freq := true, blocks := [objBlock] }] } none [] oracleOne = .error (.adm .objfreq) := by decide
example : selectItems { docV1 with channels := [{ type := .objects, blocks := [{ cartMismatch := true }] }] } none [] oracleOne = .error (.adm .cartesian) := by decide
example : selectItems { docV1 with packs := [{ type := .objects, channels := [0], input := some 0 }] } none [] oracleOne = .error (.adm .nmxinput) := by decide
example : selectItems { docV1 with trackUIDs := [{ trackIndex := some 1, pack := some 0, trackFormat := some 0, channel := some 0 }] } none [] oracleOne = .error (.adm .v2ref) := by decide
example : selectItems { docV2 with trackUIDs := [{ trackIndex := some 1, pack := some 0 }] } none [] oracleOne = .error (.adm .tracknone) := by decide
example : selectItems { docV2 with trackUIDs := [{ trackIndex := some 1, pack := some 0, channel := some 0, trackFormat := some 0 }], trackFormats := [{ stream := some 0 }], streams := [{ channel := some 0 }] } none [] oracleOne = .error (.adm .trackboth) := by decide
example : selectItems { docV2 with trackUIDs := [{ pack := some 0, channel := some 0 }] } none [] oracleOne = .error (.adm .noindex) := by decide
example : selectItems { docV2 with trackUIDs := [{ trackIndex := some 1, channel := some 0 }] } none [] oracleOne = .error (.adm .nopack) := by decide
example : selectItems docV2 none [0] oracleOne = .error (.adm .compnotgroup) := by decide

/-- first-order-less HOA document: one HOA pack with one channel -/
def docHoa : Doc := {
  v2Allowed := true
  programmes := [{ contents := [0] }], contents := [{ objects := [0] }]
  objects := [{ packs := [0], tracks := [some 0] }]
  packs := [{ type := .hoa, channels := [0] }]
  channels := [{ type := .hoa, blocks := [hoaBlock 0 0] }]
  trackUIDs := [{ trackIndex := some 1, pack := some 0, channel := some 0 }] }

example : selectItems docHoa none [] oracleOne = .ok 1 := by decide
example : selectItems { docHoa with channels := [{ type := .hoa, blocks := [] }] } none [] oracleOne = .error (.adm .hoablocks) := by decide
example : selectItems { docHoa with channels := [{ type := .hoa, blocks := [{ degree := some 0 }] }] } none [] oracleOne = .error (.adm .hoaorder) := by decide

/-- former finding F1 (fixed in 03146b0): a HOA pack that references no channel is rejected with an ADM error
(before the fix `get_single_param` indexed `pack_paths_channels[0]`: IndexError) -/
theorem hoa_empty_pack_is_adm :
    selectItems { docHoa with packs := [{ type := .hoa, channels := [] }] } none [] oracleOne
      = .error (.adm .hoaempty) := by decide

/-- former finding F4 (fixed in 76cae51): a consistent Binaural document is rejected with an ADM error
(before the fix `_get_rendering_items` raised NotImplementedError) -/
theorem unsupported_type_is_adm :
    selectItems { docV2 with packs := [{ type := .binaural, channels := [0] }],
                             channels := [{ type := .binaural, blocks := [objBlock] }] } none [] oracleOne
      = .error (.adm .unsupportedtype) := by decide

/-! ### Matrix documents -/

def dsBlock : Block := {}
def mxBlock (out : Option Nat) (ins : List Nat) : Block := { outCh := out, coeffs := ins.map (fun c => { input := some c }) }

/-- mono → stereo direct matrix: packs 0 mono (channel 0), 1 stereo (channels 1,2), 2 direct matrix (channels 3,4);
the object references the matrix pack, its track the mono channel -/
def docDirect : Doc := {
  v2Allowed := true
  programmes := [{ contents := [0] }], contents := [{ objects := [0] }]
  objects := [{ packs := [2], tracks := [some 0] }]
  packs := [{ type := .directSpeakers, channels := [0] }, { type := .directSpeakers, channels := [1, 2] },
            { type := .matrix, channels := [3, 4], input := some 0, output := some 1 }]
  channels := [{ type := .directSpeakers, blocks := [dsBlock] }, { type := .directSpeakers, blocks := [dsBlock] },
               { type := .directSpeakers, blocks := [dsBlock] },
               { type := .matrix, blocks := [mxBlock (some 1) [0]] }, { type := .matrix, blocks := [mxBlock (some 2) [0]] }]
  trackUIDs := [{ trackIndex := some 1, pack := some 2, channel := some 0 }] }

/-- `_PackAllocator.packs` of `docDirect`: mono, stereo, matrix/input-channels, matrix/pre-applied -/
example : (patterns docDirect).map (·.length) = .ok 4 := by decide
example : docDirect.wellScoped = true := by decide
/-- direct use: the allocator's third pack; two DirectSpeakers items -/
example : selectItems docDirect none [] (fun _ => some [[2]]) = .ok 2 := by decide
example : selectItems docDirect none [] oracleNone = .error (.adm .conflicting) := by decide
-- matrix fault classes
example : selectItems { docDirect with packs := [{ type := .directSpeakers, channels := [0] }, { type := .directSpeakers, channels := [1, 2] },
    { type := .matrix, channels := [3, 4] }] } none [] oracleNone = .error (.adm .mxnoio) := by decide
example : selectItems { docDirect with channels := [{ type := .directSpeakers, blocks := [dsBlock] }, { type := .directSpeakers, blocks := [dsBlock] },
    { type := .directSpeakers, blocks := [dsBlock] },
    { type := .matrix, blocks := [mxBlock (some 1) [1]] }, { type := .matrix, blocks := [mxBlock (some 2) [0]] }] } none [] oracleNone
      = .error (.adm .mxinputch) := by decide
example : selectItems { docDirect with channels := [{ type := .directSpeakers, blocks := [dsBlock] }, { type := .directSpeakers, blocks := [dsBlock] },
    { type := .directSpeakers, blocks := [dsBlock] },
    { type := .matrix, blocks := [mxBlock none [0]] }, { type := .matrix, blocks := [mxBlock (some 2) [0]] }] } none [] oracleNone
      = .error (.adm .mxoutmissing) := by decide
example : selectItems { docDirect with channels := [{ type := .directSpeakers, blocks := [dsBlock] }, { type := .directSpeakers, blocks := [dsBlock] },
    { type := .directSpeakers, blocks := [dsBlock] },
    { type := .matrix, blocks := [] }, { type := .matrix, blocks := [mxBlock (some 2) [0]] }] } none [] oracleNone
      = .error (.adm .mxchblocks) := by decide

/-- former finding F2 (fixed in 76cae51): a matrix coefficient without inputChannelFormat is an ADM error from
`ADM.validate()` (was ValueError) -/
theorem coefficient_without_input_is_adm :
    selectItems { docDirect with channels := [{ type := .directSpeakers, blocks := [dsBlock] }, { type := .directSpeakers, blocks := [dsBlock] },
      { type := .directSpeakers, blocks := [dsBlock] },
      { type := .matrix, blocks := [{ outCh := some 1, coeffs := [{ input := none }] }] },
      { type := .matrix, blocks := [mxBlock (some 2) [0]] }] } none [] oracleNone
      = .error (.adm .coeffnoinput) := by decide

/-- former finding F3 (fixed in 592dfc9): a decode matrix pack (pack 0) declared BEFORE the Matrix pack it
references as encode pack (pack 1), which has neither input nor output reference: ADM error (was the
`assert False` of `matrix.type_of`) -/
theorem encode_without_refs_is_adm :
    selectItems { v2Allowed := true,
                  packs := [{ type := .matrix, output := some 2, encodePacks := [1] }, { type := .matrix },
                            { type := .directSpeakers }] } none [] oracleNone
      = .error (.adm .mxnoio) := by decide

/-! ### alternativeValueSets -/

/-- object 0 owns AVS tokens 7 and 8; the programme references 7 -/
def docAvs : Doc := { docV2 with
  programmes := [{ contents := [0], avs := [7] }]
  objects := [{ packs := [0], tracks := [some 0], params := true, avs := [7, 8] }] }

example : docAvs.avsOwned = true ∧ docAvs.wellScoped = true := by decide
example : selectItems docAvs none [] oracleOne = .ok 1 := by decide
example : selectItems { docAvs with programmes := [{ contents := [0], avs := [9] }] } none [] oracleOne
    = .error (.adm .avsnotin) := by decide
example : selectItems { docAvs with programmes := [{ contents := [0], avs := [7, 7] }] } none [] oracleOne
    = .error (.adm .avsdup) := by decide
example : selectItems { docAvs with contents := [{ objects := [0], avs := [7] }] } none [] oracleOne
    = .error (.adm .avsboth) := by decide
example : selectItems { docAvs with contents := [{ objects := [0], avs := [8] }] } none [] oracleOne
    = .error (.adm .avsmulti) := by decide

/-- why `avsOwned` is a hypothesis: an AVS shared by two objects (impossible in a parsed document) defeats the
conflict check of `_validate_avs_references` (it files the reference under the first owner only) and the assert
in `_get_alternativeValueSet` fails for the second owner -/
theorem shared_avs_defeats_validation :
    selectItems { docV2 with
      programmes := [{ contents := [0], avs := [7, 8] }]
      contents := [{ objects := [0, 1] }]
      objects := [{ packs := [0], tracks := [some 0], params := true, avs := [7] },
                  { packs := [0], tracks := [some 0], params := true, avs := [7, 8] }] } none []
      (fun _ => some [[0]]) = .error (.internal .assert) := by decide

end Earverif.Validate
