/-
Class-level round trips of the nested element parsers: loudnessMetadata, audioProgrammeReferenceScreen,
audioObjectInteraction, alternativeValueSet, the Matrix coefficient — `parse (to_xml x) = x`, the second
generation gives the same tree, and the class constructor (`ofObj`) gives the value back.
-/
import Earverif.Proofs.C08Impls

namespace Earverif.XmlBlocks
open Earverif.XmlCodec Earverif.XmlCustom Earverif.TimeFormat

/-! ### loudnessMetadata (purely declarative) -/

theorem loudness_keys : KeysOK loudnessPs := by
  refine ⟨?_, ?_, ?_, ?_⟩ <;>
    simp [loudnessPs, Property.attrKeys, Property.elemNames, allArgs, Property.ownArgs, Property.textHandler?]

theorem loudness_fields (name : String) (l : Loudness) :
    ∀ p ∈ loudnessPs, FieldOK loudnessPs (toXml loudnessPs name l.toObj) l.toObj noneDefaults p := by
  intro p hp
  simp only [loudnessPs, List.mem_cons, List.not_mem_nil, or_false] at hp
  rcases hp with rfl | rfl | rfl | rfl | rfl | rfl | rfl | rfl | rfl
  · exact scalar_optStr _ _ _ l.loudnessMethod (by simp [Loudness.toObj]) rfl
  · exact scalar_optStr _ _ _ l.loudnessRecType (by simp [Loudness.toObj]) rfl
  · exact scalar_optStr _ _ _ l.loudnessCorrectionType (by simp [Loudness.toObj]) rfl
  · exact Or.inr ⟨rfl, scalar_optNum _ _ _ l.integratedLoudness (by simp [Loudness.toObj]) rfl⟩
  · exact Or.inr ⟨rfl, scalar_optNum _ _ _ l.loudnessRange (by simp [Loudness.toObj]) rfl⟩
  · exact Or.inr ⟨rfl, scalar_optNum _ _ _ l.maxTruePeak (by simp [Loudness.toObj]) rfl⟩
  · exact Or.inr ⟨rfl, scalar_optNum _ _ _ l.maxMomentary (by simp [Loudness.toObj]) rfl⟩
  · exact Or.inr ⟨rfl, scalar_optNum _ _ _ l.maxShortTerm (by simp [Loudness.toObj]) rfl⟩
  · exact Or.inr ⟨rfl, scalar_optNum _ _ _ l.dialogueLoudness (by simp [Loudness.toObj]) rfl⟩

/-- **loudnessMetadata, class level**: every `LoudnessMetadata` (any subset of the three strings and six numbers)
comes back from what `to_xml` writes, and a second generation gives the same tree. -/
theorem loudness_roundtrip (name : String) (l : Loudness) :
    parse loudnessPs noneDefaults (toXml loudnessPs name l.toObj) = some l.toObj ∧
    (parse loudnessPs noneDefaults (toXml loudnessPs name l.toObj)).map (toXml loudnessPs name)
      = some (toXml loudnessPs name l.toObj) := by
  refine codec_roundtrip_pure loudnessPs name l.toObj noneDefaults ⟨loudness_keys, loudness_fields name l⟩ ?_ ?_
  · intro p hp
    simp only [loudnessPs, List.mem_cons, List.not_mem_nil, or_false] at hp
    rcases hp with rfl | rfl | rfl | rfl | rfl | rfl | rfl | rfl | rfl <;> rfl
  · intro a ha
    simp only [allArgs, loudnessPs, Property.ownArgs, List.flatMap_cons, List.flatMap_nil, Bool.false_eq_true, if_false,
      List.cons_append, List.nil_append, List.mem_cons, List.not_mem_nil, or_false, not_or] at ha
    simp [Loudness.toObj, noneDefaults, ha]

theorem get_optStrV (s : Option String) : getOptStr (.one (optStrV s)) = some s := by cases s <;> rfl
theorem get_optNumV (k : Option Int) : getOptNum (.one (optNumV k)) = some k := by cases k <;> rfl
theorem get_optIntV (k : Option Int) : getOptInt (.one (optIntV k)) = some k := by cases k <;> rfl
theorem get_optBoolV (b : Option Bool) : getOptBool (.one (optBoolV b)) = some b := by cases b <;> rfl
theorem get_optTime (t : Option Time) : getOptTime (.one (optTime t)) = some t := by cases t <;> rfl

theorem loudness_ofObj (l : Loudness) : Loudness.ofObj l.toObj = some l := by
  simp [Loudness.ofObj, Loudness.toObj, get_optStrV, get_optNumV]

/-- the element handler built by `as_list_handler` reads back what it wrote for one `LoudnessMetadata` -/
theorem loudness_read (l : Loudness) :
    ((parse loudnessPs noneDefaults (toXml loudnessPs "loudnessMetadata" l.toObj)).bind Loudness.ofObj).map XV.loud
      = some (.loud l) := by
  rw [(loudness_roundtrip _ l).1]; simp [loudness_ofObj]

/-! ### audioProgrammeReferenceScreen (by direct computation: the two hand-written handlers share `screen_type`) -/

theorem centre_tag (c : CentrePosition) : (centrePositionToXml c).tag = outName "screenCentrePosition" := by
  cases c <;> rfl
theorem width_tag (b : Bool) (w : Int) : (screenWidthToXml b w).tag = outName "screenWidth" := rfl

theorem lookup_centre : lookupElem screenPs (outName "screenCentrePosition") = some centreImpl.handle := by
  simp [lookupElem, screenPs, Property.elemHandler?, matchesName, outName, namespaces, defaultNs]
theorem lookup_width : lookupElem screenPs (outName "screenWidth") = some widthImpl.handle := by
  simp [lookupElem, screenPs, Property.elemHandler?, matchesName, outName, namespaces, defaultNs]
theorem lookup_aspect : lookupAttr screenPs "aspectRatio" =
    some (fun kw v => ((liftCodec floatCodec).loads v).map fun x => kw.set "aspectRatio" (.one x)) := by
  simp [lookupAttr, screenPs, Property.attrHandler?]

/-- the screen value seen through the keyword arguments of `make_screen` -/
def Screen.kw (s : Screen) : Kw XV :=
  ((((Kw.empty.set "aspectRatio" (.one (.leaf (.num s.aspectRatio)))).set "centrePosition"
    (.one (.cpos s.centrePosition))).set "screen_type" (.one (.leaf (.str s.centrePosition.kind)))).set "width"
    (.one (.leaf (.num s.width)))).set "screen_type" (.one (.leaf (.str s.centrePosition.kind)))

theorem screen_kw (name : String) (s : Screen) (h : s.centrePosition.inRange) :
    parseKw screenPs (toXml screenPs name s.toObj) = some s.kw := by
  obtain ⟨ar, c, w⟩ := s
  have hc := centrePosition_roundtrip c h none (Or.inl rfl)
  have hw := screenWidth_roundtrip (c.kind == "cartesian") w (some c.kind) (Or.inr (by cases c <;> rfl))
  have hkind : widthKind (c.kind == "cartesian") = c.kind := by cases c <;> rfl
  simp only [hkind] at hw
  have hattrs : (toXml screenPs name (Screen.toObj ⟨ar, c, w⟩)).attrs = [("aspectRatio", dumpsNum ar)] := by
    simp [toXml, Xml.attrs, screenPs, Property.attrsOut, Screen.toObj, centreImpl, widthImpl, liftCodec, floatCodec]
  have hkids : (toXml screenPs name (Screen.toObj ⟨ar, c, w⟩)).children =
      [centrePositionToXml c, screenWidthToXml (c.kind == "cartesian") w] := by
    simp [toXml, Xml.children, screenPs, Property.childrenOut, Screen.toObj, centreImpl, widthImpl]
  have hreq : screenPs.filterMap (·.requiredArg?) = ["aspectRatio", "centrePosition", "width"] := by
    simp [screenPs, Property.requiredArg?]
  have hgen : screenPs.filterMap (·.generic?) = [] := by simp [screenPs, Property.generic?]
  have htext : screenPs.findSome? (·.textHandler?) = none := by simp [screenPs, Property.textHandler?]
  simp only [parseKw, parseStages, hattrs, hkids, parseAttrs, lookup_aspect, parseChildren, centre_tag, width_tag,
    lookup_centre, lookup_width, parseText, htext, hgen, parseGenerics, hreq, Option.bind_eq_bind]
  simp [liftCodec, floatCodec, loadsNum_dumpsNum, centreImpl, widthImpl, curType, Kw.empty, Kw.set, setOne, hc, hw,
    Screen.kw]

theorem screen_obj (s : Screen) : (fun a => (s.kw a).getD (noneDefaults a)) = s.toObj := by
  funext a
  simp only [Screen.kw, Kw.set, Kw.empty, Screen.toObj, noneDefaults]
  by_cases h1 : a = "screen_type" <;> by_cases h2 : a = "width" <;> by_cases h3 : a = "centrePosition" <;>
    by_cases h4 : a = "aspectRatio" <;> simp_all

/-- **audioProgrammeReferenceScreen, class level**: a polar screen whose centre position is in the ranges
`PolarPosition` accepts, or any Cartesian screen, comes back from what `to_xml` writes. -/
theorem screen_roundtrip (name : String) (s : Screen) (h : s.centrePosition.inRange) :
    parse screenPs noneDefaults (toXml screenPs name s.toObj) = some s.toObj ∧
    (parse screenPs noneDefaults (toXml screenPs name s.toObj)).map (toXml screenPs name)
      = some (toXml screenPs name s.toObj) := by
  have : parse screenPs noneDefaults (toXml screenPs name s.toObj) = some s.toObj := by
    unfold parse; rw [screen_kw name s h]; simp only [Option.map_some]; rw [screen_obj]
  exact ⟨this, by rw [this]; rfl⟩

theorem screen_ofObj (s : Screen) : Screen.ofObj s.toObj = some s := by
  simp [Screen.ofObj, Screen.toObj, getNum, getStr]

theorem screen_read (s : Screen) (h : s.centrePosition.inRange) :
    ((parse screenPs noneDefaults (toXml screenPs "audioProgrammeReferenceScreen" s.toObj)).bind Screen.ofObj).map
      XV.screen = some (.screen s) := by
  rw [(screen_roundtrip _ s h).1]; simp [screen_ofObj]

/-- non-vacuity: the default screen and a Cartesian one -/
example : defaultScreen.centrePosition.inRange ∧ (Screen.mk 178000 (.cartesian 0 100000 0) 50000).centrePosition.inRange :=
  ⟨by simp [defaultScreen, CentrePosition.inRange], trivial⟩

/-! ### audioObjectInteraction -/

theorem gainRangeToXml_tag (r : Option GainRange) : ∀ x ∈ gainRangeToXml r, x.tag = outName "gainInteractionRange" := by
  intro x hx
  cases r with
  | none => cases hx
  | some r =>
    simp only [gainRangeToXml, List.mem_append] at hx
    rcases hx with hx | hx <;> (split at hx <;> simp at hx; subst hx; rfl)

theorem dumpIRange_tag (c : String) (r : IRange) : ∀ x ∈ dumpIRange c r, x.tag = outName "positionInteractionRange" := by
  intro x hx
  simp only [dumpIRange, List.mem_append] at hx
  rcases hx with hx | hx <;> (split at hx <;> simp at hx; subst hx; rfl)

theorem posRangeToXml_tag (r : Option PosRange) : ∀ x ∈ posRangeToXml r, x.tag = outName "positionInteractionRange" := by
  intro x hx
  cases r with
  | none => cases hx
  | some r =>
    cases r <;> simp only [posRangeToXml, List.mem_append] at hx <;>
      (rcases hx with (hx | hx) | hx <;> exact dumpIRange_tag _ _ x hx)

/-- the values of an `AudioObjectInteraction` inside the stated domain -/
structure InteractionValid (i : Interaction) : Prop where
  /-- gains on the grid (not read from dB), at least one bound (an empty range is the excluded point) -/
  gain : ∀ r, i.gainInteractionRange = some r → ∃ mn mx, r = linRange mn mx ∧ (mn.isSome ∨ mx.isSome)
  pos : ∀ r, i.positionInteractionRange = some r → r.nonempty

theorem interaction_keys (v2 : Bool) : KeysOK (interactionPs v2) := by
  refine ⟨?_, ?_, ?_, ?_⟩ <;>
    simp [interactionPs, Property.attrKeys, Property.elemNames, allArgs, Property.ownArgs, Property.textHandler?,
      gainRangeImpl, posRangeImpl, xpathImpl]

theorem interaction_tags (v2 : Bool) : ∀ q ∈ interactionPs v2, TagsOK q := by
  intro q hq
  simp only [interactionPs, List.mem_cons, List.not_mem_nil, or_false] at hq
  rcases hq with rfl | rfl | rfl | rfl | rfl
  · exact tagsOK_attr _ _ _ _ _
  · exact tagsOK_attr _ _ _ _ _
  · exact tagsOK_attr _ _ _ _ _
  · exact tagsOK_generic _ _ _ (tags_xpath _ _ _ _ (fun v x hx => by
      split at hx
      · exact gainRangeToXml_tag _ x hx
      · cases hx))
  · exact tagsOK_generic _ _ _ (tags_xpath _ _ _ _ (fun v x hx => by
      split at hx
      · exact posRangeToXml_tag _ x hx
      · cases hx))

theorem interaction_lookup (v2 : Bool) (k : QName) : lookupElem (interactionPs v2) k = none := by
  simp [lookupElem, interactionPs, Property.elemHandler?]

def optGRange : Option GainRange → XV
  | some r => .grange r
  | none => noneLeaf
def optPRange : Option PosRange → XV
  | some r => .prange r
  | none => noneLeaf

theorem gainRangeToXml_ne (mn mx : Option Int) (h : mn.isSome ∨ mx.isSome) :
    gainRangeToXml (some (linRange mn mx)) ≠ [] := by
  cases mn <;> cases mx <;> simp [gainRangeToXml, linRange, linear?] at h ⊢

theorem dumpIRange_ne (c : String) (r : IRange) (h : r.isEmpty = false) : dumpIRange c r ≠ [] := by
  obtain ⟨mn, mx⟩ := r
  cases mn <;> cases mx <;> simp [dumpIRange, IRange.isEmpty] at h ⊢

theorem posRangeToXml_ne (p : PosRange) (h : p.nonempty) : posRangeToXml (some p) ≠ [] := by
  cases p with
  | polar a e d =>
    simp only [PosRange.nonempty] at h
    simp only [posRangeToXml, ne_eq, List.append_eq_nil_iff, not_and]
    rcases h with h | h | h
    · intro h1; exact absurd h1.1 (dumpIRange_ne _ _ h)
    · intro h1; exact absurd h1.2 (dumpIRange_ne _ _ h)
    · intro _; exact dumpIRange_ne _ _ h
  | cartesian a e d =>
    simp only [PosRange.nonempty] at h
    simp only [posRangeToXml, ne_eq, List.append_eq_nil_iff, not_and]
    rcases h with h | h | h
    · intro h1; exact absurd h1.1 (dumpIRange_ne _ _ h)
    · intro h1; exact absurd h1.2 (dumpIRange_ne _ _ h)
    · intro _; exact dumpIRange_ne _ _ h

theorem interaction_fields (v2 : Bool) (name : String) (i : Interaction) (hv : InteractionValid i) :
    ∀ p ∈ interactionPs v2,
      FieldOK (interactionPs v2) (toXml (interactionPs v2) name i.toObj) i.toObj noneDefaults p := by
  intro p hp
  simp only [interactionPs, List.mem_cons, List.not_mem_nil, or_false] at hp
  rcases hp with rfl | rfl | rfl | rfl | rfl
  · exact scalar_leaf _ _ _ boolCodec true .none (.bool i.onOffInteract) (by simp [Interaction.toObj])
      (fun _ => boolCodec_roundtrip _) (by simp)
  · exact scalar_optBool _ _ _ i.gainInteract (by simp [Interaction.toObj]) rfl
  · exact scalar_optBool _ _ _ i.positionInteract (by simp [Interaction.toObj]) rfl
  · have hv0 : i.toObj "gainInteractionRange" = .one (optGRange i.gainInteractionRange) := by
      cases h : i.gainInteractionRange <;> simp [Interaction.toObj, optGRange, h]
    have hx := xpath_own (interactionPs v2) name i.toObj
      [boolAttr "onOffInteract" true, boolAttr "gainInteract" false, boolAttr "positionInteract" false]
      [.genericElement none false posRangeImpl] (.genericElement none false (gainRangeImpl v2))
      "gainInteractionRange" rfl (interaction_tags v2)
      (fun x hx => by
        simp only [Property.childrenOut, gainRangeImpl, xpathImpl] at hx
        split at hx
        · split at hx
          · exact gainRangeToXml_tag _ x hx
          · cases hx
        · cases hx)
      (by simp [outNames, posRangeImpl, xpathImpl])
    simp only [Property.childrenOut, gainRangeImpl, xpathImpl, hv0] at hx
    refine fieldOK_xpath _ _ _ _ _ _ _ _ _ hv0 ?_ (interaction_lookup v2 _) hx ?_
    · intro x hx
      split at hx
      · exact gainRangeToXml_tag _ x hx
      · cases hx
    · cases h : i.gainInteractionRange with
      | none => simp [optGRange, parseGainRange]
      | some r =>
        obtain ⟨mn, mx, rfl, hne⟩ := hv.gain r h
        have := gainRangeToXml_ne mn mx hne
        simp [optGRange, gainRange_roundtrip v2 mn mx hne, this]
  · have hv0 : i.toObj "positionInteractionRange" = .one (optPRange i.positionInteractionRange) := by
      cases h : i.positionInteractionRange <;> simp [Interaction.toObj, optPRange, h]
    have hx := xpath_own (interactionPs v2) name i.toObj
      [boolAttr "onOffInteract" true, boolAttr "gainInteract" false, boolAttr "positionInteract" false,
        .genericElement none false (gainRangeImpl v2)]
      [] (.genericElement none false posRangeImpl)
      "positionInteractionRange" rfl (interaction_tags v2)
      (fun x hx => by
        simp only [Property.childrenOut, posRangeImpl, xpathImpl] at hx
        split at hx
        · split at hx
          · exact posRangeToXml_tag _ x hx
          · cases hx
        · cases hx)
      (by simp [outNames, gainRangeImpl, xpathImpl])
    simp only [Property.childrenOut, posRangeImpl, xpathImpl, hv0] at hx
    refine fieldOK_xpath _ _ _ _ _ _ _ _ _ hv0 ?_ (interaction_lookup v2 _) hx ?_
    · intro x hx
      split at hx
      · exact posRangeToXml_tag _ x hx
      · cases hx
    · cases h : i.positionInteractionRange with
      | none => simpa [optPRange, posRangeToXml] using posRange_none
      | some r =>
        have := posRangeToXml_ne r (hv.pos r h)
        simp [optPRange, posRange_roundtrip r (hv.pos r h), this]


/-- **audioObjectInteraction, class level** (either version) -/
theorem interaction_roundtrip (v2 : Bool) (name : String) (i : Interaction) (hv : InteractionValid i) :
    parse (interactionPs v2) noneDefaults (toXml (interactionPs v2) name i.toObj) = some i.toObj ∧
    (parse (interactionPs v2) noneDefaults (toXml (interactionPs v2) name i.toObj)).map (toXml (interactionPs v2) name)
      = some (toXml (interactionPs v2) name i.toObj) := by
  refine codec_roundtrip_full (interactionPs v2) name i.toObj noneDefaults
    ⟨interaction_keys v2, interaction_fields v2 name i hv⟩ ?_ ?_
  · intro p hp hc
    simp only [interactionPs, List.mem_cons, List.not_mem_nil, or_false] at hp
    rcases hp with rfl | rfl | rfl | rfl | rfl <;> simp [Property.isCustom] at hc
    · exact customEff_xpath _ _ _ _ _ _ _ _ (optGRange i.gainInteractionRange)
        (by cases h : i.gainInteractionRange <;> simp [Interaction.toObj, optGRange, h])
        (fun hw => by
          cases h : i.gainInteractionRange with
          | none => simp [optGRange, noneDefaults]
          | some r =>
            obtain ⟨mn, mx, rfl, hne⟩ := hv.gain r h
            simp only [h, optGRange] at hw
            exact absurd hw (gainRangeToXml_ne mn mx hne))
    · exact customEff_xpath _ _ _ _ _ _ _ _ (optPRange i.positionInteractionRange)
        (by cases h : i.positionInteractionRange <;> simp [Interaction.toObj, optPRange, h])
        (fun hw => by
          cases h : i.positionInteractionRange with
          | none => simp [optPRange, noneDefaults]
          | some r =>
            simp only [h, optPRange] at hw
            exact absurd hw (posRangeToXml_ne r (hv.pos r h)))
  · intro a ha
    simp only [allArgs, interactionPs, Property.ownArgs, gainRangeImpl, posRangeImpl, xpathImpl, List.flatMap_cons,
      List.flatMap_nil, List.cons_append, List.nil_append, List.mem_cons, List.not_mem_nil, or_false, not_or] at ha
    simp [Interaction.toObj, noneDefaults, ha]

theorem interaction_ofObj (i : Interaction) : Interaction.ofObj i.toObj = some i := by
  obtain ⟨a, b, c, d, e⟩ := i
  cases d <;> cases e <;> simp [Interaction.ofObj, Interaction.toObj, getBool, get_optBoolV]

theorem interaction_read (v2 : Bool) (i : Interaction) (hv : InteractionValid i) :
    ((parse (interactionPs v2) noneDefaults (toXml (interactionPs v2) "audioObjectInteraction" i.toObj)).bind
      Interaction.ofObj).map XV.interaction = some (.interaction i) := by
  rw [(interaction_roundtrip v2 _ i hv).1]; simp [interaction_ofObj]

/-- non-vacuity: on/off interaction with a gain range (max only) and a Cartesian position range -/
example : InteractionValid ⟨true, some true, none, some (linRange none (some 200000)),
    some (.cartesian ⟨some (-50000), some 50000⟩ ⟨none, none⟩ ⟨none, some 100000⟩)⟩ :=
  { gain := fun r h => ⟨none, some 200000, by simpa using h.symm, by simp⟩,
    pos := fun r h => by
      simp only [Option.some.injEq] at h; subst h
      exact Or.inl (by simp [IRange.isEmpty]) }

/-! ### alternativeValueSet -/

theorem positionOffsetToXml_tag (p : Option PositionOffset) :
    ∀ x ∈ positionOffsetToXml p, x.tag = outName "positionOffset" := by
  intro x hx
  have hd : ∀ c v, ∀ y ∈ dumpOffset c v, y.tag = outName "positionOffset" := by
    intro c v y hy
    unfold dumpOffset at hy
    split at hy
    · simp at hy; subst hy; rfl
    · cases hy
  cases p with
  | none => cases hx
  | some q =>
    cases q <;> simp only [positionOffsetToXml, List.mem_append] at hx <;>
      (rcases hx with (hx | hx) | hx <;> exact hd _ _ x hx)

theorem positionOffsetToXml_ne (q : PositionOffset) (h : q.nonzero) : positionOffsetToXml (some q) ≠ [] := by
  cases q <;> simp only [PositionOffset.nonzero] at h <;>
    simp only [positionOffsetToXml, dumpOffset, ne_eq, List.append_eq_nil_iff, not_and] <;>
    (rcases h with h | h | h <;> simp [h])

theorem optionalGainToXml_tag (g : Option Int) : ∀ x ∈ optionalGainToXml g, x.tag = outName "gain" := by
  intro x hx; cases g <;> simp [optionalGainToXml] at hx; subst hx; rfl

structure AVSValid (a : AVS) : Prop where
  /-- an all-zero offset is the excluded point -/
  offset : ∀ q, a.positionOffset = some q → q.nonzero
  interaction : ∀ i, a.audioObjectInteraction = some i → InteractionValid i

theorem avs_keys (v2 : Bool) : KeysOK (avsPs v2) := by
  refine ⟨?_, ?_, ?_, ?_⟩ <;>
    simp [avsPs, Property.attrKeys, Property.elemNames, allArgs, Property.ownArgs, Property.textHandler?,
      optGainImpl, offsetImpl, interactionImpl, singleImpl, xpathImpl]

theorem avs_tags (v2 : Bool) : ∀ q ∈ avsPs v2, TagsOK q := by
  intro q hq
  simp only [avsPs, List.mem_cons, List.not_mem_nil, or_false] at hq
  rcases hq with rfl | rfl | rfl | rfl | rfl
  · exact tagsOK_attr _ _ _ _ _
  · exact tagsOK_custom _ _ _ _ (tags_single _ _ _ _ (fun v x hx => by
      split at hx
      · exact optionalGainToXml_tag _ x hx
      · cases hx))
  · exact tagsOK_attrElement _ _ _ _ _ _
  · exact tagsOK_generic _ _ _ (tags_xpath _ _ _ _ (fun v x hx => by
      split at hx
      · exact positionOffsetToXml_tag _ x hx
      · cases hx))
  · exact tagsOK_custom _ _ _ _ (tags_single _ _ _ _ (fun v x hx => by
      split at hx
      · simp at hx; subst hx; rfl
      · cases hx))

theorem avs_fields (v2 : Bool) (name : String) (a : AVS) (hv : AVSValid a) :
    ∀ p ∈ avsPs v2, FieldOK (avsPs v2) (toXml (avsPs v2) name a.toObj) a.toObj noneDefaults p := by
  intro p hp
  simp only [avsPs, List.mem_cons, List.not_mem_nil, or_false] at hp
  rcases hp with rfl | rfl | rfl | rfl | rfl
  · exact scalar_reqStr _ _ _ a.id (by simp [AVS.toObj])
  · refine fieldOK_single _ _ _ _ _ _ _ _ _ (optNumV a.gain) (by simp [AVS.toObj]) ?_ ?_
    · intro x hx
      split at hx
      · exact optionalGainToXml_tag _ x hx
      · cases hx
    · cases h : a.gain with
      | none => left; simp [optNumV]
      | some k =>
        right
        refine ⟨elem "gain" [] (dumpsNum k), by simp [optNumV, optionalGainToXml], ?_⟩
        simp [optNumV, handleGainElement, parseGain, gainValue, attr?, elem, Xml.attrs, Xml.text, loadsNum_dumpsNum]
  · exact Or.inr ⟨rfl, scalar_optBool _ _ _ a.mute (by simp [AVS.toObj]) rfl⟩
  · have hv0 : a.toObj "positionOffset" = .one (optOffset a.positionOffset) := by simp [AVS.toObj]
    have hx := xpath_own (avsPs v2) name a.toObj
      [strAttr "alternativeValueSetID" "id" true, .customElement "gain" none false optGainImpl,
        .attrElement "mute" "mute" (liftCodec boolCodec) false noneLeaf false]
      [.customElement "audioObjectInteraction" (some "audioObjectInteraction") false (interactionImpl v2)]
      (.genericElement none false offsetImpl) "positionOffset" rfl (avs_tags v2)
      (fun x hx => by
        simp only [Property.childrenOut, offsetImpl, xpathImpl] at hx
        split at hx
        · split at hx
          · exact positionOffsetToXml_tag _ x hx
          · cases hx
        · cases hx)
      (by simp [outNames])
    simp only [Property.childrenOut, offsetImpl, xpathImpl, hv0] at hx
    refine fieldOK_xpath _ _ _ _ _ _ _ _ _ hv0 ?_ ?_ hx ?_
    · intro x hx
      split at hx
      · exact positionOffsetToXml_tag _ x hx
      · cases hx
    · simp [lookupElem, avsPs, Property.elemHandler?, matchesName, outName]
    · cases h : a.positionOffset with
      | none => simp [optOffset, parsePositionOffset, offsetFinish]
      | some q =>
        have hq := hv.offset q h
        have := positionOffsetToXml_ne q hq
        simp [optOffset, positionOffset_roundtrip (some q) (fun _ h => by cases h; exact hq), this]
  · refine fieldOK_single _ _ _ _ _ _ _ _ _ (optInteraction a.audioObjectInteraction) (by simp [AVS.toObj]) ?_ ?_
    · intro x hx
      split at hx
      · simp at hx; subst hx; rfl
      · cases hx
    · cases h : a.audioObjectInteraction with
      | none => left; simp [optInteraction]
      | some i =>
        right
        exact ⟨_, by simp [optInteraction], interaction_read v2 i (hv.interaction i h)⟩

/-- **alternativeValueSet, class level** -/
theorem avs_roundtrip (v2 : Bool) (name : String) (a : AVS) (hv : AVSValid a) :
    parse (avsPs v2) noneDefaults (toXml (avsPs v2) name a.toObj) = some a.toObj ∧
    (parse (avsPs v2) noneDefaults (toXml (avsPs v2) name a.toObj)).map (toXml (avsPs v2) name)
      = some (toXml (avsPs v2) name a.toObj) := by
  refine codec_roundtrip_full (avsPs v2) name a.toObj noneDefaults ⟨avs_keys v2, avs_fields v2 name a hv⟩ ?_ ?_
  · intro p hp hc
    simp only [avsPs, List.mem_cons, List.not_mem_nil, or_false] at hp
    rcases hp with rfl | rfl | rfl | rfl | rfl <;> simp [Property.isCustom] at hc
    · exact customEff_single _ _ _ _ _ _ _ _ (optNumV a.gain) (by simp [AVS.toObj])
        (fun hw => by cases h : a.gain <;> simp [h, optNumV, optionalGainToXml, noneDefaults] at hw ⊢)
    · exact customEff_xpath _ _ _ _ _ _ _ _ (optOffset a.positionOffset) (by simp [AVS.toObj])
        (fun hw => by
          cases h : a.positionOffset with
          | none => simp [optOffset, noneDefaults]
          | some q =>
            simp only [h, optOffset] at hw
            exact absurd hw (positionOffsetToXml_ne q (hv.offset q h)))
    · exact customEff_single _ _ _ _ _ _ _ _ (optInteraction a.audioObjectInteraction) (by simp [AVS.toObj])
        (fun hw => by cases h : a.audioObjectInteraction <;> simp [h, optInteraction, noneDefaults] at hw ⊢)
  · intro k hk
    simp only [allArgs, avsPs, Property.ownArgs, optGainImpl, offsetImpl, interactionImpl, singleImpl, xpathImpl,
      List.flatMap_cons, List.flatMap_nil, Bool.false_eq_true, if_false, List.cons_append, List.nil_append,
      List.mem_cons, List.not_mem_nil, or_false, not_or] at hk
    simp [AVS.toObj, noneDefaults, hk]

/-- non-vacuity: gain, mute, a Cartesian offset and an interaction with a position range -/
example : AVSValid ⟨"AVS_1001_0001", some 200000, some true, some (.cartesian 0 50000 0),
    some ⟨false, none, some true, none, some (.polar ⟨some (-3000000), some 3000000⟩ ⟨none, none⟩ ⟨none, none⟩)⟩⟩ :=
  { offset := fun q h => by simp at h; subst h; exact Or.inr (Or.inl (by decide)),
    interaction := fun i h => by
      simp at h; subst h
      exact ⟨fun r h => by simp at h, fun r h => by
        simp only [Option.some.injEq] at h; subst h
        exact Or.inl (by simp [IRange.isEmpty])⟩ }

theorem avs_ofObj (a : AVS) : AVS.ofObj a.toObj = some a := by
  obtain ⟨i, g, m, p, x⟩ := a
  cases p <;> cases x <;>
    simp [AVS.ofObj, AVS.toObj, getStr, get_optNumV, get_optBoolV, getOptOffset, getOptInteraction, optOffset,
      optInteraction]

theorem avs_read (v2 : Bool) (a : AVS) (hv : AVSValid a) :
    ((parse (avsPs v2) noneDefaults (toXml (avsPs v2) "alternativeValueSet" a.toObj)).bind AVS.ofObj).map XV.avs
      = some (.avs a) := by
  rw [(avs_roundtrip v2 _ a hv).1]; simp [avs_ofObj]

end Earverif.XmlBlocks
