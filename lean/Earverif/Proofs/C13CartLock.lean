/-
C13 — the composed Cartesian path (`renderCartLock`): helper lemmas over ℝ.
-/
import Earverif.Proofs.C13Allo
import Earverif.Proofs.C13Real
import Earverif.Proofs.C13Lock

namespace Earverif.C13
open Earverif.Zone Earverif.Lock Earverif.CartLock
open Earverif.GainCalc (Leaf alloHandle)

/-! ### `positions[~excluded]` -/

theorem keep_sublist {β : Type} : ∀ (m : List Bool) (l : List β), (keep m l).Sublist l := by
  intro m
  induction m with
  | nil => intro l; cases l <;> simp [keep]
  | cons b m ih =>
    intro l
    cases l with
    | nil => cases b <;> simp [keep]
    | cons a as =>
      cases b with
      | false => simp only [keep]; exact (ih as).cons_cons a
      | true => simp only [keep]; exact (ih as).cons a

/-- number of non-excluded loudspeakers before index `i` -/
def rank : List Bool → Nat → Nat
  | _, 0 => 0
  | [], _ => 0
  | false :: m, i + 1 => rank m i + 1
  | true :: m, i + 1 => rank m i

def countF : List Bool → Nat
  | [] => 0
  | false :: m => countF m + 1
  | true :: m => countF m

theorem keep_length {β : Type} : ∀ (m : List Bool) (l : List β), m.length = l.length → (keep m l).length = countF m := by
  intro m
  induction m with
  | nil => intro l _; cases l <;> rfl
  | cons b m ih =>
    intro l h
    cases l with
    | nil => simp at h
    | cons a as =>
      have h' : m.length = as.length := by simpa using h
      cases b <;> simp [keep, countF, ih as h']

/-- a non-excluded loudspeaker keeps its position, at index `rank` -/
theorem keep_getElem {β : Type} : ∀ (m : List Bool) (l : List β) (i : Nat) (q : β),
    m[i]? = some false → l[i]? = some q → (keep m l)[rank m i]? = some q := by
  intro m
  induction m with
  | nil => intro l i q h; simp at h
  | cons b m ih =>
    intro l i q hm hl
    cases l with
    | nil => simp at hl
    | cons a as =>
      cases i with
      | zero =>
        simp only [List.getElem?_cons_zero, Option.some.injEq] at hm hl
        subst hm; subst hl
        simp [keep, rank]
      | succ i =>
        simp only [List.getElem?_cons_succ] at hm hl
        cases b with
        | false => simpa [keep, rank] using ih as i q hm hl
        | true => simpa [keep, rank] using ih as i q hm hl

theorem rank_lt : ∀ (m : List Bool) (i : Nat), m[i]? = some false → rank m i < countF m := by
  intro m
  induction m with
  | nil => intro i h; simp at h
  | cons b m ih =>
    intro i h
    cases i with
    | zero =>
      simp only [List.getElem?_cons_zero, Option.some.injEq] at h
      subst h; simp [rank, countF]
    | succ i =>
      simp only [List.getElem?_cons_succ] at h
      cases b with
      | false => simpa [rank, countF] using ih i h
      | true => simpa [rank, countF] using ih i h

/-! ### scattering a unit vector -/

theorem scatter_zeros : ∀ (m : List Bool) (k : Nat),
    scatter m (List.replicate k (0 : ℝ)) = List.replicate m.length (0 : ℝ) := by
  intro m
  induction m with
  | nil => intro k; rfl
  | cons b m ih =>
    intro k
    cases b with
    | true => simp [scatter, ih k, List.replicate_succ]
    | false =>
      cases k with
      | zero => simpa [scatter, List.replicate_succ] using ih 0
      | succ k => simp [scatter, ih k, List.replicate_succ]

/-- `gains_full[~excluded] = e_rank` is `e_i` -/
theorem scatter_unit : ∀ (m : List Bool) (i : Nat), m[i]? = some false →
    scatter m ((List.replicate (countF m) (0 : ℝ)).set (rank m i) 1) = (List.replicate m.length (0 : ℝ)).set i 1 := by
  intro m
  induction m with
  | nil => intro i h; simp at h
  | cons b m ih =>
    intro i h
    cases i with
    | zero =>
      simp only [List.getElem?_cons_zero, Option.some.injEq] at h
      subst h
      simp [scatter, rank, countF, List.replicate_succ, scatter_zeros]
    | succ i =>
      simp only [List.getElem?_cons_succ] at h
      cases b with
      | true => simp [scatter, rank, countF, List.replicate_succ, ih i h]
      | false => simp [scatter, rank, countF, List.replicate_succ, ih i h]

/-! ### lengths of the masks -/

theorem mapOpt_length {β γ : Type} (f : β → Option γ) : ∀ (l : List β) (out : List γ), mapOpt f l = some out →
    out.length = l.length := by
  intro l
  induction l with
  | nil => intro out h; simp [mapOpt] at h; subst h; rfl
  | cons x xs ih =>
    intro out h
    simp only [mapOpt] at h
    cases hfx : f x with
    | none => simp [hfx] at h
    | some y =>
      cases hxs : mapOpt f xs with
      | none => simp [hfx, hxs] at h
      | some ys =>
        simp [hfx, hxs] at h
        subst h
        simp [ih ys hxs]

theorem orMask_length : ∀ (a b : List Bool), a.length = b.length → (orMask a b).length = a.length := by
  intro a
  induction a with
  | nil => intro b _; cases b <;> rfl
  | cons x xs ih =>
    intro b h
    cases b with
    | nil => simp at h
    | cons y ys => simp [orMask, ih ys (by simpa using h)]

theorem getExcluded_length {α : Type} [Scalar α] (fuel : Nat) (spks : List (Spk α)) :
    ∀ (zones : List (Zone α)) (m : List Bool), getExcluded fuel spks zones = some m → m.length = spks.length := by
  intro zones
  induction zones with
  | nil => intro m h; simp [getExcluded] at h; subst h; simp
  | cons z zs ih =>
    intro m h
    simp only [getExcluded] at h
    cases h1 : mapOpt (zoneMatch fuel z) spks with
    | none => simp [h1] at h
    | some m1 =>
      cases h2 : getExcluded fuel spks zs with
      | none => simp [h1, h2] at h
      | some m2 =>
        simp [h1, h2] at h
        subst h
        have l1 := mapOpt_length _ _ _ h1
        have l2 := ih m2 h2
        rw [orMask_length m1 m2 (by omega), l1]

theorem alloExcluded_length {α : Type} [Scalar α] (pos : List (P3 α)) (m : List Bool) (h : pos.length = m.length) :
    (alloExcluded pos m).length = m.length := by
  have this : (alloExtend pos m).length = m.length := alloExtendFrom_length pos pos 0 m h
  unfold alloExcluded
  by_cases hall : (alloExtend pos m).all id = true
  · simp [hall, this]
  · simp [hall, this]

theorem isExcl_false_getElem? (m : List Bool) (i : Nat) (hi : i < m.length) (h : isExcl m i = false) :
    m[i]? = some false := by
  unfold isExcl at h
  simp only [List.getD, List.getElem?_eq_getElem hi, Option.getD_some] at h
  simp [List.getElem?_eq_getElem hi, h]

/-! ### the tail of `render` on a unit vector -/

theorem renderCart_unit (final : List Bool) (i : Nat) (hi : final[i]? = some false) (gain diffuse : ℝ) :
    let out := renderCart final [(List.replicate (countF final) (0 : ℝ)).set (rank final i) 1] [Scalar.one] gain diffuse
    out.1 = ((List.replicate final.length (0 : ℝ)).set i 1).map (fun v => v * gain * Real.sqrt (1 - diffuse)) ∧
    out.2 = ((List.replicate final.length (0 : ℝ)).set i 1).map (fun v => v * gain * Real.sqrt diffuse) := by
  have hv : ∀ v ∈ (List.replicate final.length (0 : ℝ)).set i 1, v = 0 ∨ v = 1 := by
    intro v hv
    rcases List.mem_or_eq_of_mem_set hv with h | h
    · left; exact (List.mem_replicate.mp h).2
    · right; exact h
  have hpow : powerSum final.length [(Scalar.one : ℝ)] [scatter final ((List.replicate (countF final) (0 : ℝ)).set (rank final i) 1)]
      = (List.replicate final.length (0 : ℝ)).set i 1 := by
    rw [scatter_unit final i hi]
    unfold powerSum
    apply List.ext_getElem
    · simp
    · intro j h1 h2
      simp only [List.getElem_map, List.getElem_range, List.zipWith_cons_cons, List.zipWith_nil_right, sumList,
        List.foldl_cons, List.foldl_nil, real_add, real_mul, real_zero, real_one, real_sqrt]
      have hj : j < ((List.replicate final.length (0 : ℝ)).set i 1).length := by simpa using h2
      have hg : ((List.replicate final.length (0 : ℝ)).set i 1).getD j 0 = ((List.replicate final.length (0 : ℝ)).set i 1)[j] := by
        simp [List.getD, List.getElem?_eq_getElem hj]
      rw [hg]
      rcases hv _ (List.getElem_mem hj) with h | h <;> rw [h] <;> simp
  unfold renderCart
  simp only [List.map_cons, List.map_nil]
  rw [hpow]
  simp only [finishGains, real_mul, real_nanToNum, real_sqrt, real_sub, real_one, List.map_map]
  constructor <;> (apply List.map_congr_left; intro v _; simp [Function.comp])

/-! ### rational tables → real positions -/

def castP3 (p : P3 Rat) : P3 ℝ := ⟨(p.x : ℝ), (p.y : ℝ), (p.z : ℝ)⟩

/-- pairwise distinct positions, decidable form for the regenerated tables -/
def distinctB : List (P3 Rat) → Bool
  | [] => true
  | a :: l => l.all (fun b => !(a.x == b.x && a.y == b.y && a.z == b.z)) && distinctB l

theorem distinct_cast : ∀ (ps : List (P3 Rat)), distinctB ps = true → Distinct (ps.map castP3) := by
  intro ps
  induction ps with
  | nil => intro _; simp [Distinct]
  | cons a l ih =>
    intro h
    simp only [distinctB, Bool.and_eq_true, List.all_eq_true, Bool.not_eq_true', Bool.and_eq_false_imp,
      beq_iff_eq] at h
    unfold Distinct
    rw [List.map_cons, List.pairwise_cons]
    refine ⟨?_, ih h.2⟩
    intro b hb
    simp only [List.mem_map] at hb
    obtain ⟨b0, hb0, rfl⟩ := hb
    rintro ⟨hx, hy, hz⟩
    simp only [castP3, Rat.cast_inj] at hx hy hz
    have := h.1 b0 hb0 ⟨hx, hy⟩
    simp [hz] at this

theorem distinct_keep (m : List Bool) (ps : List (P3 ℝ)) (h : Distinct ps) : Distinct (keep m ps) :=
  List.Pairwise.sublist (keep_sublist m ps) h

end Earverif.C13
