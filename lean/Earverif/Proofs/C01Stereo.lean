/- C01: the 0+2+0 point-source panner over its regenerated table (`StereoPanDownmix` around the inner 0+5+0 panner):
   a result for a direction longer than 1/2 has two non-negative entries with power in [1/2, 1]
   (`pspHandle_stereo_contract`; composition of `panner_inner_spec`, `downmixed_spec` and C05's `stereo_level`), and
   `calc_pv_spread` in the point-only regime keeps a power in `[lo, hi]` within `[(1 − 1e-10)·lo, hi]`. -/
import Earverif.Proofs.C01PspNz

namespace Earverif.GainCalc
open Earverif.PointSource (RawLayout RawRegion Region)

theorem sumsq_two_swap (l r : Nat) (hl : l < 2) (hr : r < 2) (hne : l ≠ r) (a b : ℝ) :
    sumSq (PointSource.scatter (PointSource.zeros 2) [l, r] [a, b]) = a * a + b * b ∧
    (0 ≤ a → 0 ≤ b → Nonneg (PointSource.scatter (PointSource.zeros 2) [l, r] [a, b])) ∧
    (PointSource.scatter (PointSource.zeros 2) [l, r] [a, b]).length = 2 := by
  have h : (l = 0 ∧ r = 1) ∨ (l = 1 ∧ r = 0) := by omega
  rcases h with ⟨rfl, rfl⟩ | ⟨rfl, rfl⟩
  · refine ⟨by simp [PointSource.scatter, PointSource.zeros], ?_, by simp [PointSource.scatter, PointSource.zeros]⟩
    intro ha hb x hx
    simp [PointSource.scatter, PointSource.zeros] at hx
    rcases hx with rfl | rfl <;> assumption
  · refine ⟨by simp [PointSource.scatter, PointSource.zeros]; ring, ?_, by simp [PointSource.scatter, PointSource.zeros]⟩
    intro ha hb x hx
    simp [PointSource.scatter, PointSource.zeros] at hx
    rcases hx with rfl | rfl <;> assumption

/-- **The 0+2+0 panner over its table**: a result for a direction longer than 1/2 has length 2, is non-negative and has
    power in [1/2, 1] -/
theorem pspHandle_stereo_contract (L : RawLayout) (hwf : L.wellFormed = true) (l r : Nat) (hst : L.stereo = some (l, r))
    (hz : pspNzOk L = true) (pos : V3 ℝ) (hpos : 1 / 4 < pos.1 * pos.1 + pos.2.1 * pos.2.1 + pos.2.2 * pos.2.2)
    (p : List ℝ) (h : pspHandle L pos = some p) :
    p.length = 2 ∧ Nonneg p ∧ 1 / 2 ≤ sumSq p ∧ sumSq p ≤ 1 := by
  have hw := hwf
  simp only [RawLayout.wellFormed, Bool.and_eq_true, hst, decide_eq_true_eq, bne_iff_ne, ne_eq, beq_iff_eq] at hw
  obtain ⟨⟨⟨_, _⟩, hdm⟩, ⟨⟨hl2, hr2⟩, hne⟩, hn5⟩ := hw
  simp only [pspHandle] at h
  split at h
  · exact absurd h (by simp)
  · rename_i regions hmap
    simp only [RawLayout.handle, hmap, hst] at h
    simp only [PointSource.remap, Option.map_eq_some_iff] at h
    obtain ⟨out, hout, rfl⟩ := h
    -- the inner (0+5+0) answer
    generalize hin : PointSource.PointSourcePanner.handle regions L.nInner _ pos = inner at hout
    cases inner with
    | none => simp [PointSource.PointSourcePannerDownmix.handle, PointSource.StereoPanDownmix.handle] at hout
    | some v =>
      have hQ : (∀ x ∈ v, 0 ≤ x) ∧ HasPos v ∧ v.length = L.nInner := by
        refine panner_inner_spec L hwf hz regions hmap _ ?_ ?_ pos hpos v hin
        · intro k xv hxv
          split at hxv
          · exact quadRoot_range _ xv (by simpa using hxv)
          · simp at hxv
        · intro k yv hyv
          split at hyv
          · exact quadRoot_range _ yv (by simpa using hyv)
          · simp at hyv
      obtain ⟨hwn, hwu, _, hwl⟩ := downmixed_spec L hdm v hQ.1 hQ.2.1 hQ.2.2
      simp only [PointSource.PointSourcePannerDownmix.handle, Option.map_some] at hout
      generalize PointSource.normalise (PointSource.matVec (L.downmixRows : List (List ℝ)) v) = w at hout hwn hwu hwl
      rw [hn5] at hwl
      match w, hwl with
      | [g0, g1, g2, g3, g4], _ =>
        obtain ⟨out', ho', hlen, hnn, hlo, hhi⟩ := PointSource.stereo_level g0 g1 g2 g3 g4 (hwn g0 (by simp))
          (hwn g1 (by simp)) (hwn g2 (by simp)) (hwn g3 (by simp)) (hwn g4 (by simp)) hwu
        rw [ho'] at hout
        simp only [Option.some.injEq] at hout
        subst hout
        match out', hlen with
        | [a, b], _ =>
          obtain ⟨e1, e2, e3⟩ := sumsq_two_swap l r hl2 hr2 hne a b
          refine ⟨e3, e2 (hnn a (by simp)) (hnn b (by simp)), ?_, ?_⟩
          · rw [e1]; simpa [PointSource.sumsq] using hlo
          · rw [e1]; simpa [PointSource.sumsq] using hhi

/-- `calc_pv_spread` when only the point branch runs (`ammount_spread ≤ 1e-10`): the power of `p` is scaled by
    `1 − ammount_spread ∈ [1 − 1e-10, 1]` -/
theorem pvSpread_point_only_bounds (n : Nat) (a lo hi : ℝ) (p s : List ℝ) (h0 : 0 ≤ a)
    (hsmall : ¬ (k (1 / 10000000000) : ℝ) < a) (hp : p.length = n) (hlo : lo ≤ sumSq p) (hhi : sumSq p ≤ hi)
    (hlo0 : 0 ≤ lo) :
    (calcPvSpread n a p s).length = n ∧ Nonneg (calcPvSpread n a p s) ∧
    (1 - 1 / 10000000000) * lo ≤ sumSq (calcPvSpread n a p s) ∧ sumSq (calcPvSpread n a p s) ≤ hi := by
  have ha : a ≤ 1 / 10000000000 := by
    have := not_lt.mp hsmall
    simpa [k_real] using this
  have hpt : (k (1 / 10000000000) : ℝ) < one - a := by
    simp only [k_real, one_real]; push_cast; linarith
  simp only [calcPvSpread, hpt, if_true, hsmall, if_false]
  have hz : (zeros n : List ℝ).length = (p.map fun x => (one - a) * (x * x)).length := by simp [hp]
  have hnn : Nonneg (vadd (zeros n) (p.map fun x => (one - a) * (x * x))) :=
    vadd_nonneg (zeros_nonneg n) (scaled_sq_nonneg (by simp only [one_real]; linarith) p)
  refine ⟨by simp [length_vadd, hp], vsqrt_nonneg _, ?_, ?_⟩ <;>
    rw [sumSq_vsqrt hnn, sum_vadd hz, sum_zeros, zero_add, sum_scaled_sq] <;> simp only [one_real]
  · have hs0 : 0 ≤ sumSq p := sumSq_nonneg p
    nlinarith
  · have hs0 : 0 ≤ sumSq p := sumSq_nonneg p
    nlinarith

end Earverif.GainCalc
