/-
C08: composition of the grid model of the float leaf (`Leaf.num k`, `dumpsNum`) with the real float text
(`fmt5` / `parseFloat`, `Model/FloatText.lean`) along the GENERIC handler-table path: every text that a declarative
`FloatType` row (`Attribute` / `AttrElement` / `ListElement`) of a regenerated parser table writes for an object whose
values under that row are bounded grid numbers is the text the real `FloatType.dumps` writes for the nearest double,
`float()` of that text is that double, and printing it again gives the same text.

The hand-written handlers (`Model/XmlCustom.lean` / `XmlBlocks.lean`) hold their numbers as `Int` fields written with
`dumpsNum` directly; they are traversed handler by handler: the five gain handlers (`gainRow_texts`), jumpPosition
interpolationLength as `SecondsType` (`jumpRow_texts`), and through `siteSpecs` / `siteRow_texts`: Objects position,
DirectSpeakers position with bounds, channelLock maxDistance, objectDivergence, zoneExclusion, positionOffset,
frequency, reference-screen centre position / width, gain / position interaction ranges.  `custom_rows_classified`
(kernel-decided on the regenerated table) says no other number-writing handler pair occurs in the tables.
Which texts of a written element are number texts is specified per handler (text / attribute names), not derived.
A gain in dB (`XV.gainDB`, dB bounds of a gain interaction range) is symbolic and never written.
-/
import Earverif.Proofs.C08Float
import Earverif.Proofs.C08Tables

namespace Earverif.FloatDoc
open Earverif.XmlCodec Earverif.XmlBlocks Earverif.XmlElements Earverif.FloatText Earverif.Ieee

/-- the double (as a `PyFloat`) nearest to the grid value `k / 10^5` -/
noncomputable def gridDouble (k : ℤ) : PyFloat := .fin (decide (k < 0)) (rn53 ((k.natAbs : ℚ) / 100000))

/-- `t` is the text the real `FloatType.dumps` (`"{:.5f}".format`) writes for the double nearest to `k / 10^5`;
the real `FloatType.loads` (`float()`) reads it as exactly that double; writing what was read gives `t` again -/
def RealFloatText (k : ℤ) (t : String) : Prop :=
  IsDouble (rn53 ((k.natAbs : ℚ) / 100000)) ∧
  t.toList = fmt5 (gridDouble k) ∧
  parseFloat t.toList = some (gridDouble k) ∧
  (parseFloat t.toList).map fmt5 = some t.toList

/-- the bound of `floatCodec_refines`: `|k| / 10^5 < 2^36` -/
def numBound : ℕ := 2 ^ 36 * 10 ^ 5

theorem realFloatText_dumpsNum (k : ℤ) (hk : k.natAbs < numBound) : RealFloatText k (dumpsNum k) := by
  obtain ⟨h1, h2, _, h4⟩ := floatCodec_refines k hk
  refine ⟨h4, h1, h2, ?_⟩
  rw [h2, Option.map_some, ← h1]

/-- a table row whose texts are written by `FloatType.dumps` through a declarative combinator
(`TypeAttribute` rows use the enum codecs whatever `ty` says; `HandleText`: see `no_float_handleText`) -/
def isFloatRow (r : Row) : Bool :=
  r.ty == "FloatType" && (r.kind == "Attribute" || r.kind == "AttrElement" || r.kind == "ListElement")

/-- a value under a `FloatType` row: a bounded grid number, or the handler default (nothing is written; for any other
value the real `"{:.5f}".format` raises or prints something the grid model does not describe) -/
def floatValOK (dflt : XV) : XV → Bool
  | .leaf (.num k) => decide (k.natAbs < numBound) || (XV.leaf (.num k) == dflt)
  | v => v == dflt

/-- a list item under a `FloatType` `ListElement` row -/
def floatItemOK : XV → Bool
  | .leaf (.num k) => decide (k.natAbs < numBound)
  | _ => false

/-- the values of `o` under the row `r` are bounded grid numbers (rows that are not declarative `FloatType` rows: no
condition) -/
def rowNumsBounded (o : Obj XV) (r : Row) : Bool :=
  !isFloatRow r ||
  match o r.argName with
  | .one v => r.kind == "ListElement" || floatValOK (.leaf (leafOfRepr r.handlerDefault)) v
  | .many vs => r.kind != "ListElement" || vs.all floatItemOK

/-- **`NumsBounded` for one element** rendered by the parser table `rows` -/
def ObjNumsBounded (rows : List Row) (o : Obj XV) : Bool := rows.all (rowNumsBounded o)

/-- the texts written by the declarative `FloatType` rows of a parser for `o` -/
def floatTexts (impl : Row → CustomImpl XV) (rows : List Row) (o : Obj XV) : List String :=
  (rows.filter isFloatRow).flatMap fun r =>
    ((ofRowG liftCodec XV.leaf impl r).attrsOut o).map Prod.snd ++
    ((ofRowG liftCodec XV.leaf impl r).childrenOut o).map Xml.text

/-- … they do occur in the element `toXml` writes: as attribute values or as texts of child elements -/
theorem floatTexts_in_toXml (impl : Row → CustomImpl XV) (rows : List Row) (name : String) (o : Obj XV) :
    ∀ t ∈ floatTexts impl rows o,
      (∃ kv ∈ (toXml (rows.map (ofRowG liftCodec XV.leaf impl)) name o).attrs, kv.2 = t) ∨
      (∃ c ∈ (toXml (rows.map (ofRowG liftCodec XV.leaf impl)) name o).children, c.text = t) := by
  intro t ht
  simp only [floatTexts, List.mem_flatMap, List.mem_filter, List.mem_append, List.mem_map] at ht
  obtain ⟨r, ⟨hr, _⟩, h | h⟩ := ht
  · obtain ⟨kv, hkv, rfl⟩ := h
    exact Or.inl ⟨kv, by
      simp only [toXml, Xml.attrs, List.mem_flatMap, List.mem_map]
      exact ⟨_, ⟨r, hr, rfl⟩, hkv⟩, rfl⟩
  · obtain ⟨c, hc, rfl⟩ := h
    exact Or.inr ⟨c, by
      simp only [toXml, Xml.children, List.mem_flatMap, List.mem_map]
      exact ⟨_, ⟨r, hr, rfl⟩, hc⟩, rfl⟩

theorem codecOf_float : codecOf "FloatType" = floatCodec := by
  unfold codecOf
  simp

theorem liftFloat_dumps (k : ℤ) : (liftCodec floatCodec).dumps (.leaf (.num k)) = dumpsNum k := rfl

/-- the grid number `k` is stored in `o` under the argument `a` -/
def NumAt (o : Obj XV) (a : String) (k : ℤ) : Prop :=
  o a = .one (.leaf (.num k)) ∨ ∃ vs, o a = .many vs ∧ XV.leaf (.num k) ∈ vs

theorem floatValOK_cases (dflt v : XV) (h : floatValOK dflt v = true) (hne : v ≠ dflt) :
    ∃ k : ℤ, v = .leaf (.num k) ∧ k.natAbs < numBound := by
  unfold floatValOK at h
  split at h
  · rename_i k
    simp only [Bool.or_eq_true, decide_eq_true_eq, beq_iff_eq] at h
    rcases h with h | h
    · exact ⟨k, rfl, h⟩
    · exact absurd h hne
  · simp only [beq_iff_eq] at h
    exact absurd h hne

theorem floatItemOK_cases (v : XV) (h : floatItemOK v = true) : ∃ k : ℤ, v = .leaf (.num k) ∧ k.natAbs < numBound := by
  unfold floatItemOK at h
  split at h
  · rename_i k
    exact ⟨k, rfl, by simpa using h⟩
  · cases h

/-- one row -/
theorem floatRow_texts (impl : Row → CustomImpl XV) (r : Row) (o : Obj XV) (hr : isFloatRow r = true)
    (hb : rowNumsBounded o r = true) :
    ∀ t, (t ∈ ((ofRowG liftCodec XV.leaf impl r).attrsOut o).map Prod.snd ∨
          t ∈ ((ofRowG liftCodec XV.leaf impl r).childrenOut o).map Xml.text) →
      ∃ k : ℤ, NumAt o r.argName k ∧ RealFloatText k t := by
  intro t ht
  simp only [rowNumsBounded, hr, Bool.not_true, Bool.false_or] at hb
  simp only [isFloatRow, Bool.and_eq_true, Bool.or_eq_true, beq_iff_eq] at hr
  obtain ⟨hty, hk⟩ := hr
  rcases hk with (hk | hk) | hk
  · -- Attribute
    have hp : ofRowG liftCodec XV.leaf impl r =
        .attr r.admName r.argName (liftCodec floatCodec) r.required (XV.leaf (leafOfRepr r.handlerDefault)) := by
      unfold ofRowG; rw [if_pos hk, hty, codecOf_float]
    rw [hp] at ht
    simp only [Property.attrsOut, Property.childrenOut, List.map_nil, List.not_mem_nil, or_false] at ht
    cases hv : o r.argName with
    | many vs => rw [hv] at ht; simp at ht
    | one v =>
      rw [hv] at ht hb
      have hkl : (r.kind == "ListElement") = false := by rw [hk]; decide
      simp only [hkl, Bool.false_or] at hb
      by_cases hne : v = XV.leaf (leafOfRepr r.handlerDefault)
      · simp [hne] at ht
      · obtain ⟨k, rfl, hkb⟩ := floatValOK_cases _ v hb hne
        simp only [ne_eq, hne, not_false_eq_true, if_true, List.map_cons, List.map_nil, List.mem_singleton] at ht
        subst ht
        exact ⟨k, Or.inl hv, realFloatText_dumpsNum k hkb⟩
  · -- AttrElement
    have hk0 : r.kind ≠ "Attribute" := by rw [hk]; decide
    have hp : ofRowG liftCodec XV.leaf impl r =
        .attrElement r.admName r.argName (liftCodec floatCodec) r.required (XV.leaf (leafOfRepr r.handlerDefault))
          r.parseOnly := by
      unfold ofRowG; rw [if_neg hk0, if_pos hk, hty, codecOf_float]
    rw [hp] at ht
    simp only [Property.attrsOut, Property.childrenOut, List.map_nil, List.not_mem_nil, false_or] at ht
    by_cases hpo : r.parseOnly = true
    · simp [hpo] at ht
    · cases hv : o r.argName with
      | many vs => rw [hv] at ht; simp [hpo] at ht
      | one v =>
        rw [hv] at ht hb
        have hkl : (r.kind == "ListElement") = false := by rw [hk]; decide
        simp only [hkl, Bool.false_or] at hb
        by_cases hne : v = XV.leaf (leafOfRepr r.handlerDefault)
        · simp [hne, hpo] at ht
        · obtain ⟨k, rfl, hkb⟩ := floatValOK_cases _ v hb hne
          simp only [hpo, Bool.false_eq_true, if_false, ne_eq, hne, not_false_eq_true, if_true, List.map_cons,
            List.map_nil, List.mem_singleton, leafElem, Xml.text] at ht
          subst ht
          exact ⟨k, Or.inl hv, realFloatText_dumpsNum k hkb⟩
  · -- ListElement
    have hk0 : r.kind ≠ "Attribute" := by rw [hk]; decide
    have hk1 : r.kind ≠ "AttrElement" := by rw [hk]; decide
    have hp : ofRowG liftCodec XV.leaf impl r =
        .listElement r.admName r.argName (liftCodec floatCodec) r.required r.parseOnly := by
      unfold ofRowG; rw [if_neg hk0, if_neg hk1, if_pos hk, hty, codecOf_float]
    rw [hp] at ht
    simp only [Property.attrsOut, Property.childrenOut, List.map_nil, List.not_mem_nil, false_or] at ht
    by_cases hpo : r.parseOnly = true
    · simp [hpo] at ht
    · cases hv : o r.argName with
      | one v => rw [hv] at ht; simp [hpo] at ht
      | many vs =>
        rw [hv] at ht hb
        have hkl : (r.kind != "ListElement") = false := by rw [hk]; decide
        simp only [hkl, Bool.false_or, List.all_eq_true] at hb
        simp only [hpo, Bool.false_eq_true, if_false, List.map_map, List.mem_map, Function.comp] at ht
        obtain ⟨v, hvm, rfl⟩ := ht
        obtain ⟨k, rfl, hkb⟩ := floatItemOK_cases v (hb v hvm)
        exact ⟨k, Or.inr ⟨vs, hv, hvm⟩, realFloatText_dumpsNum k hkb⟩

/-- **The generic handler-table path, one element.**  For ANY row list `rows` (in particular every parser of the
regenerated table), any hand-written implementations `impl` and any object `o` whose values under the declarative
`FloatType` rows are bounded grid numbers (`ObjNumsBounded`): every text written by such a row — an attribute value
or the text of a child element of `toXml … o` (`floatTexts_in_toXml`) — is `dumpsNum k` for a grid number `k` stored
in `o` under that row's argument, and it is the real float text of the double nearest to `k / 10^5`. -/
theorem obj_floatTexts_real (impl : Row → CustomImpl XV) (rows : List Row) (o : Obj XV)
    (hb : ObjNumsBounded rows o = true) :
    ∀ t ∈ floatTexts impl rows o, ∃ r ∈ rows, ∃ k : ℤ, NumAt o r.argName k ∧ RealFloatText k t := by
  intro t ht
  simp only [floatTexts, List.mem_flatMap, List.mem_filter, List.mem_append] at ht
  obtain ⟨r, ⟨hr, hfr⟩, h⟩ := ht
  have hbr := (List.all_eq_true.mp hb) r hr
  obtain ⟨k, hk, hreal⟩ := floatRow_texts impl r o hfr hbr t h
  exact ⟨r, hr, k, hk, hreal⟩

/-! ### the hand-written gain handlers and jumpPosition (`SecondsType`) -/

/-- the five hand-written gain handler pairs (`gain` sub-element of the block formats, optional `gain` of an
alternativeValueSet, `gain` attribute of a Matrix coefficient) -/
def gainHandlers : List String :=
  ["handle_gain_element_v1 / gain_to_xml", "handle_gain_element_v2 / gain_to_xml",
   "handle_gain_element_v2 / optional_gain_to_xml", "handle_gain_attribute_v1 / gain_attribute_to_xml",
   "handle_gain_attribute_v2 / gain_attribute_to_xml"]

def isGainRow (r : Row) : Bool :=
  (r.kind == "CustomElement" || r.kind == "GenericElement") && gainHandlers.contains r.handler

def isJumpRow (r : Row) : Bool :=
  r.kind == "CustomElement" && r.handler == "handle_jump_position / jump_position_to_xml"

/-- the linear gain of the element (stored as `Leaf.num` under `gain`) is bounded; anything else is not written -/
def gainOK : Val XV → Bool
  | .one (.leaf (.num k)) => decide (k.natAbs < numBound)
  | _ => true

/-- the interpolationLength (`SecondsType`) is non-negative and bounded -/
def jumpOK : Val XV → Bool
  | .one (.jump j) => (match j.interpolationLength with | some k => decide (0 ≤ k) && decide (k.natAbs < numBound) | none => true)
  | _ => true

/-- `t` is the text the real `SecondsType.dumps` (`"{:07.5f}".format(float(t))`) writes for the Fraction `k / 10^5`;
the real `SecondsType.loads` (`Fraction(str)`) reads it as exactly `k / 10^5`; writing what was read gives `t` again -/
def RealSecondsText (k : ℤ) (t : String) : Prop :=
  secondsDumps ((k : ℚ) / 100000) = some t.toList ∧
  parseFraction t.toList = some ((k : ℚ) / 100000) ∧
  (parseFraction t.toList).bind secondsDumps = some t.toList

theorem realSecondsText_dumpsNum (k : ℤ) (h0 : 0 ≤ k) (hk : k.natAbs < numBound) : RealSecondsText k (dumpsNum k) := by
  obtain ⟨h1, h2, _⟩ := secondsCodec_refines k h0 hk
  exact ⟨h1, h2, by rw [h2]; exact h1⟩

theorem gainImpl_texts (v2 : Bool) (o : Obj XV) (t : String)
    (ht : t ∈ ((gainImpl v2).attrsOut o).map Prod.snd ∨ t ∈ ((gainImpl v2).childrenOut o).map Xml.text) :
    ∃ k : ℤ, o "gain" = .one (.leaf (.num k)) ∧ t = dumpsNum k := by
  simp only [gainImpl, List.map_nil, List.not_mem_nil, false_or] at ht
  split at ht
  · rename_i k hk
    refine ⟨k, hk, ?_⟩
    unfold Earverif.XmlCustom.gainToXml at ht
    split at ht
    · simpa [Earverif.XmlCustom.elem, Xml.text] using ht
    · simp at ht
  · simp at ht

theorem optGainImpl_texts (o : Obj XV) (t : String)
    (ht : t ∈ (optGainImpl.attrsOut o).map Prod.snd ∨ t ∈ (optGainImpl.childrenOut o).map Xml.text) :
    ∃ k : ℤ, o "gain" = .one (.leaf (.num k)) ∧ t = dumpsNum k := by
  simp only [optGainImpl, singleImpl, List.map_nil, List.not_mem_nil, false_or] at ht
  split at ht
  · rename_i v hv
    split at ht
    · rename_i k
      exact ⟨k, hv, by simpa [Earverif.XmlCustom.optionalGainToXml, Earverif.XmlCustom.elem, Xml.text] using ht⟩
    · simp at ht
  · simp at ht

theorem gainAttrImpl_texts (v2 : Bool) (o : Obj XV) (t : String)
    (ht : t ∈ ((gainAttrImpl v2).attrsOut o).map Prod.snd ∨ t ∈ ((gainAttrImpl v2).childrenOut o).map Xml.text) :
    ∃ k : ℤ, o "gain" = .one (.leaf (.num k)) ∧ t = dumpsNum k := by
  simp only [gainAttrImpl, List.map_nil, List.not_mem_nil, or_false] at ht
  split at ht
  · rename_i k hk
    exact ⟨k, hk, by simpa [Earverif.XmlCustom.gainAttributeToXml] using ht⟩
  · simp at ht

theorem implX_gain (v2 : Bool) (r : Row) (h : gainHandlers.contains r.handler = true) :
    implX v2 r = gainImpl false ∨ implX v2 r = gainImpl true ∨ implX v2 r = optGainImpl ∨
    implX v2 r = gainAttrImpl false ∨ implX v2 r = gainAttrImpl true := by
  simp only [gainHandlers, List.contains_eq_mem, List.mem_cons, List.not_mem_nil, or_false, decide_eq_true_eq] at h
  rcases h with h | h | h | h | h <;> simp [implX, h]

theorem ofRowG_custom_out (impl : Row → CustomImpl XV) (r : Row) (o : Obj XV)
    (hk : (r.kind == "CustomElement" || r.kind == "GenericElement") = true) :
    (ofRowG liftCodec XV.leaf impl r).attrsOut o = (impl r).attrsOut o ∧
    (ofRowG liftCodec XV.leaf impl r).childrenOut o = (impl r).childrenOut o := by
  simp only [Bool.or_eq_true, beq_iff_eq] at hk
  rcases hk with hk | hk <;> simp [ofRowG, hk, Property.attrsOut, Property.childrenOut]

/-- a gain row: whatever it writes is the real float text of the element's linear gain -/
theorem gainRow_texts (v2 : Bool) (r : Row) (o : Obj XV) (hr : isGainRow r = true) (hb : gainOK (o "gain") = true) :
    ∀ t, (t ∈ ((ofRowG liftCodec XV.leaf (implX v2) r).attrsOut o).map Prod.snd ∨
          t ∈ ((ofRowG liftCodec XV.leaf (implX v2) r).childrenOut o).map Xml.text) →
      ∃ k : ℤ, NumAt o "gain" k ∧ RealFloatText k t := by
  intro t ht
  simp only [isGainRow, Bool.and_eq_true] at hr
  obtain ⟨h1, h2⟩ := ofRowG_custom_out (implX v2) r o hr.1
  rw [h1, h2] at ht
  have : ∃ k : ℤ, o "gain" = .one (.leaf (.num k)) ∧ t = dumpsNum k := by
    rcases implX_gain v2 r hr.2 with h | h | h | h | h <;> rw [h] at ht
    · exact gainImpl_texts _ o t ht
    · exact gainImpl_texts _ o t ht
    · exact optGainImpl_texts o t ht
    · exact gainAttrImpl_texts _ o t ht
    · exact gainAttrImpl_texts _ o t ht
  obtain ⟨k, hk, rfl⟩ := this
  rw [hk] at hb
  exact ⟨k, Or.inl hk, realFloatText_dumpsNum k (by simpa [gainOK] using hb)⟩

/-- the `interpolationLength` attribute values of the `jumpPosition` elements a jump row writes -/
def secondsTextsOf (cs : List Xml) : List String :=
  cs.flatMap fun c => (c.attrs.filter fun kv => kv.1 == "interpolationLength").map Prod.snd

/-- a jumpPosition row: the interpolationLength it writes is the real `SecondsType` text -/
theorem jumpRow_texts (v2 : Bool) (r : Row) (o : Obj XV) (hr : isJumpRow r = true)
    (hb : jumpOK (o "jumpPosition") = true) :
    ∀ t ∈ secondsTextsOf ((ofRowG liftCodec XV.leaf (implX v2) r).childrenOut o),
      ∃ (j : Earverif.XmlCustom.JumpPosition) (k : ℤ), o "jumpPosition" = .one (.jump j) ∧
        j.interpolationLength = some k ∧ RealSecondsText k t := by
  intro t ht
  simp only [isJumpRow, Bool.and_eq_true, beq_iff_eq] at hr
  obtain ⟨_, h2⟩ := ofRowG_custom_out (implX v2) r o (by simp [hr.1])
  have himpl : implX v2 r = jumpImpl := by simp [implX, hr.2]
  rw [h2, himpl] at ht
  simp only [jumpImpl] at ht
  split at ht
  · rename_i j hj
    rw [hj] at hb
    simp only [jumpOK] at hb
    unfold Earverif.XmlCustom.jumpPositionToXml at ht
    split at ht
    · cases hil : j.interpolationLength with
      | none => rw [hil] at ht; simp [secondsTextsOf, Earverif.XmlCustom.elem, Xml.attrs] at ht
      | some k =>
        rw [hil] at ht hb
        simp only [Bool.and_eq_true, decide_eq_true_eq] at hb
        have : t = dumpsNum k := by
          simpa [secondsTextsOf, Earverif.XmlCustom.elem, Xml.attrs] using ht
        subst this
        exact ⟨j, k, hj, hil, realSecondsText_dumpsNum k hb.1 hb.2⟩
    · simp [secondsTextsOf] at ht
  · simp [secondsTextsOf] at ht

/-- the values of `o` that the gain / jumpPosition rows of the table write are bounded -/
def rowCustomBounded (o : Obj XV) (r : Row) : Bool :=
  (!isGainRow r || gainOK (o "gain")) && (!isJumpRow r || jumpOK (o "jumpPosition"))

/-- **`NumsBounded` for one element, with the gain and jumpPosition handlers** -/
def ObjNumsBoundedX (rows : List Row) (o : Obj XV) : Bool :=
  ObjNumsBounded rows o && rows.all (rowCustomBounded o)

/-- the texts written by the gain rows -/
def gainTexts (v2 : Bool) (rows : List Row) (o : Obj XV) : List String :=
  (rows.filter isGainRow).flatMap fun r =>
    ((ofRowG liftCodec XV.leaf (implX v2) r).attrsOut o).map Prod.snd ++
    ((ofRowG liftCodec XV.leaf (implX v2) r).childrenOut o).map Xml.text

/-- the interpolationLength texts written by the jumpPosition rows -/
def jumpTexts (v2 : Bool) (rows : List Row) (o : Obj XV) : List String :=
  (rows.filter isJumpRow).flatMap fun r => secondsTextsOf ((ofRowG liftCodec XV.leaf (implX v2) r).childrenOut o)

/-- **One element rendered by a parser of the regenerated table (`propsX v2 rows`), declarative `FloatType` rows,
gain handlers and jumpPosition.**  Under `ObjNumsBoundedX`: (1) every text written by a declarative `FloatType` row
and (2) by a gain handler is the real `"{:.5f}"` text of the double nearest to a grid number stored in the object,
read back by `float()` as that double and reprinted identically; (3) every interpolationLength written is the real
`SecondsType` text of the stored Fraction, read back by `Fraction()` exactly and reprinted identically. -/
theorem obj_numTexts_real (v2 : Bool) (rows : List Row) (o : Obj XV) (hb : ObjNumsBoundedX rows o = true) :
    (∀ t ∈ floatTexts (implX v2) rows o, ∃ r ∈ rows, ∃ k : ℤ, NumAt o r.argName k ∧ RealFloatText k t) ∧
    (∀ t ∈ gainTexts v2 rows o, ∃ k : ℤ, NumAt o "gain" k ∧ RealFloatText k t) ∧
    (∀ t ∈ jumpTexts v2 rows o, ∃ (j : Earverif.XmlCustom.JumpPosition) (k : ℤ),
      o "jumpPosition" = .one (.jump j) ∧ j.interpolationLength = some k ∧ RealSecondsText k t) := by
  simp only [ObjNumsBoundedX, Bool.and_eq_true, List.all_eq_true, rowCustomBounded] at hb
  obtain ⟨hb1, hb2⟩ := hb
  refine ⟨obj_floatTexts_real (implX v2) rows o hb1, ?_, ?_⟩
  · intro t ht
    simp only [gainTexts, List.mem_flatMap, List.mem_filter, List.mem_append] at ht
    obtain ⟨r, ⟨hr, hg⟩, h⟩ := ht
    have := (hb2 r hr).1
    rw [hg] at this
    exact gainRow_texts v2 r o hg (by simpa using this) t h
  · intro t ht
    simp only [jumpTexts, List.mem_flatMap, List.mem_filter] at ht
    obtain ⟨r, ⟨hr, hj⟩, h⟩ := ht
    have := (hb2 r hr).2
    rw [hj] at this
    exact jumpRow_texts v2 r o hj (by simpa using this) t h

/-! ### the remaining hand-written handlers: positions, channelLock, objectDivergence, zoneExclusion, positionOffset,
frequency, screen centre position / width, interaction ranges -/

open Earverif.XmlCustom

/-- the number texts of one written element under a `SiteSpec` -/
def numSites (textNum : Bool) (keys : List String) (x : Xml) : List String :=
  (if textNum then [x.text] else []) ++ (x.attrs.filter fun kv => keys.contains kv.1).map Prod.snd

def boundNums (b : Bound) : List ℤ := b.value :: (b.max.toList ++ b.min.toList)
def irangeNums (r : IRange) : List ℤ := r.min.toList ++ r.max.toList
def gainLin : Option Gain → List ℤ
  | some (.linear k) => [k]
  | _ => []

def sposNums : SpeakerPosition → List ℤ
  | .polar a e d _ => boundNums a ++ boundNums e ++ boundNums d
  | .cartesian x y z _ => boundNums x ++ boundNums y ++ boundNums z
def oposNums : ObjectPosition → List ℤ
  | .polar a e d _ => [a, e, d]
  | .cartesian x y z _ => [x, y, z]
def poffNums : PositionOffset → List ℤ
  | .polar a e d => [a, e, d]
  | .cartesian x y z => [x, y, z]
def cposNums : CentrePosition → List ℤ
  | .polar a e d => [a, e, d]
  | .cartesian x y z => [x, y, z]
def prangeNums : PosRange → List ℤ
  | .polar a e d => irangeNums a ++ irangeNums e ++ irangeNums d
  | .cartesian x y z => irangeNums x ++ irangeNums y ++ irangeNums z
def zoneNums : Zone → List ℤ
  | .cartesian a b c d e f => [a, b, c, d, e, f]
  | .polar a b c d => [a, b, c, d]

theorem dumpBound_sites (c : String) (b : Bound) (sel : Option String) :
    ∀ t ∈ (dumpBound c b sel).flatMap (numSites true []), t ∈ (boundNums b).map dumpsNum := by
  intro t
  cases hmax : b.max <;> cases hmin : b.min <;>
    simp [dumpBound, boundNums, hmax, hmin, numSites, elem, Xml.text, Xml.attrs] <;> tauto

theorem spos_sites (p : SpeakerPosition) :
    ∀ t ∈ (speakerPositionToXml p).flatMap (numSites true []), t ∈ (sposNums p).map dumpsNum := by
  intro t ht
  cases p with
  | polar a e d sel =>
    simp only [speakerPositionToXml, List.flatMap_append, List.mem_append] at ht
    simp only [sposNums, List.map_append, List.mem_append]
    rcases ht with (ht | ht) | ht
    · exact Or.inl (Or.inl (dumpBound_sites _ _ _ t ht))
    · exact Or.inl (Or.inr (dumpBound_sites _ _ _ t ht))
    · split at ht
      · exact Or.inr (dumpBound_sites _ _ _ t ht)
      · simp at ht
  | cartesian x y z sel =>
    simp only [speakerPositionToXml, List.flatMap_append, List.mem_append] at ht
    simp only [sposNums, List.map_append, List.mem_append]
    rcases ht with (ht | ht) | ht
    · exact Or.inl (Or.inl (dumpBound_sites _ _ _ t ht))
    · exact Or.inl (Or.inr (dumpBound_sites _ _ _ t ht))
    · exact Or.inr (dumpBound_sites _ _ _ t ht)

theorem opos_sites (p : ObjectPosition) :
    ∀ t ∈ (objectPositionToXml p).flatMap (numSites true []), t ∈ (oposNums p).map dumpsNum := by
  intro t
  cases p <;> simp only [objectPositionToXml] <;> split_ifs <;>
    simp [oposNums, dumpCoordinate, numSites, elem, Xml.text, Xml.attrs] <;> tauto

theorem poff_sites (p : PositionOffset) :
    ∀ t ∈ (positionOffsetToXml (some p)).flatMap (numSites true []), t ∈ (poffNums p).map dumpsNum := by
  intro t
  cases p <;> simp only [positionOffsetToXml, dumpOffset] <;> split_ifs <;>
    simp [poffNums, numSites, elem, Xml.text, Xml.attrs] <;> tauto

theorem cpos_sites (p : CentrePosition) :
    ∀ t ∈ numSites false ["X", "Y", "Z", "azimuth", "elevation", "distance"] (centrePositionToXml p),
      t ∈ (cposNums p).map dumpsNum := by
  intro t
  cases p <;> simp [centrePositionToXml, cposNums, numSites, elem, Xml.text, Xml.attrs] <;> tauto

theorem width_sites (c : Bool) (w : ℤ) :
    ∀ t ∈ numSites false ["X", "azimuth"] (screenWidthToXml c w), t = dumpsNum w := by
  intro t
  cases c <;> simp [screenWidthToXml, numSites, elem, Xml.text, Xml.attrs]

theorem dumpIRange_sites (c : String) (r : IRange) :
    ∀ t ∈ (dumpIRange c r).flatMap (numSites true []), t ∈ (irangeNums r).map dumpsNum := by
  intro t
  cases hmax : r.max <;> cases hmin : r.min <;>
    simp [dumpIRange, irangeNums, hmax, hmin, numSites, elem, Xml.text, Xml.attrs] <;> tauto

theorem prange_sites (p : PosRange) :
    ∀ t ∈ (posRangeToXml (some p)).flatMap (numSites true []), t ∈ (prangeNums p).map dumpsNum := by
  intro t ht
  cases p <;>
  · simp only [posRangeToXml, List.flatMap_append, List.mem_append] at ht
    simp only [prangeNums, List.map_append, List.mem_append]
    rcases ht with (ht | ht) | ht
    · exact Or.inl (Or.inl (dumpIRange_sites _ _ t ht))
    · exact Or.inl (Or.inr (dumpIRange_sites _ _ t ht))
    · exact Or.inr (dumpIRange_sites _ _ t ht)

theorem grange_sites (r : GainRange) :
    ∀ t ∈ (gainRangeToXml (some r)).flatMap (numSites true []), t ∈ (gainLin r.min ++ gainLin r.max).map dumpsNum := by
  intro t
  rcases hmin : r.min with _ | (k | k) <;> rcases hmax : r.max with _ | (k' | k') <;>
    simp [gainRangeToXml, linear?, gainLin, hmin, hmax, numSites, elem, Xml.text, Xml.attrs] <;> tauto

theorem zone_sites (z : Zone) :
    ∀ t ∈ numSites false (cartKeys ++ polarKeys) (zoneToXml z), t ∈ (zoneNums z).map dumpsNum := by
  intro t
  cases z <;> simp [zoneToXml, zoneNums, numSites, elem, Xml.text, Xml.attrs, cartKeys, polarKeys] <;> tauto


theorem zones_sites (zs : List Zone) :
    ∀ t ∈ ((zoneExclusionToXml zs).flatMap Xml.children).flatMap (numSites false (cartKeys ++ polarKeys)),
      t ∈ (zs.flatMap zoneNums).map dumpsNum := by
  intro t ht
  unfold zoneExclusionToXml at ht
  split_ifs at ht
  · simp only [List.flatMap_cons, List.flatMap_nil, List.append_nil, Xml.children, List.mem_flatMap, List.mem_map] at ht
    obtain ⟨x, ⟨z, hz, rfl⟩, hx⟩ := ht
    obtain ⟨k, hk, rfl⟩ := List.mem_map.mp (zone_sites z t hx)
    exact List.mem_map.mpr ⟨k, List.mem_flatMap.mpr ⟨z, hz, hk⟩, rfl⟩
  · simp at ht

/-- a hand-written handler whose numbers are traversed: handler pair (for the `as_handler` closures also the element
name), the argument it writes from, whether the number sites are on the children of the written elements
(zoneExclusion > zone), whether the text of those elements is a number, and the names of their numeric attributes -/
structure SiteSpec where
  handler : String
  adm : Option String
  arg : String
  inner : Bool
  textNum : Bool
  keys : List String

def siteSpecs : List SiteSpec :=
  [ ⟨"handle_channel_lock / channel_lock_to_xml", none, "channelLock", false, false, ["maxDistance"]⟩,
    ⟨"handle_divergence / divergence_to_xml", none, "objectDivergence", false, true, ["azimuthRange", "positionRange"]⟩,
    ⟨"handle_frequency / frequency_to_xml", none, "frequency", false, true, []⟩,
    ⟨"handle_objects_position / object_position_to_xml", none, "position", false, true, []⟩,
    ⟨"handle_speaker_position / speaker_position_to_xml", none, "position", false, true, []⟩,
    ⟨"handle_position_offset / position_offset_to_xml", none, "positionOffset", false, true, []⟩,
    ⟨"handle_centre_position / centre_position_to_xml", none, "centrePosition", false, false,
      ["X", "Y", "Z", "azimuth", "elevation", "distance"]⟩,
    ⟨"handle_screen_width / screen_width_to_xml", none, "width", false, false, ["X", "azimuth"]⟩,
    ⟨"MainElementHandler.make_gainInteractionRange_handler.<locals>.handle_gainInteractionRange / MainElementHandler.make_gainInteractionRange_handler.<locals>.gainInteractionRange_to_xml",
      none, "gainInteractionRange", false, true, []⟩,
    ⟨"MainElementHandler.make_positionInteractionRange_handler.<locals>.handle_positionInteractionRange / MainElementHandler.make_positionInteractionRange_handler.<locals>.positionInteractionRange_to_xml",
      none, "positionInteractionRange", false, true, []⟩,
    ⟨"ElementParser.as_handler.<locals>.handle / ElementParser.as_handler.<locals>.to_xml", some "zoneExclusion",
      "zoneExclusion", true, false, cartKeys ++ polarKeys⟩ ]

/-- the grid numbers held by the values these handlers write (a gain bound given in dB is symbolic and not written) -/
def xvNums : XV → List ℤ
  | .leaf (.num k) => [k]
  | .clock c => c.maxDistance.toList
  | .diverg d => d.value :: (d.azimuthRange.toList ++ d.positionRange.toList)
  | .freq f => f.lowPass.toList ++ f.highPass.toList
  | .opos p => oposNums p
  | .spos p => sposNums p
  | .poff p => poffNums p
  | .cpos p => cposNums p
  | .grange r => gainLin r.min ++ gainLin r.max
  | .prange r => prangeNums r
  | .zones zs => zs.flatMap zoneNums
  | _ => []

/-- the number texts of the elements `xs` written by a handler under its `SiteSpec` -/
def sitesOf (sp : SiteSpec) (xs : List Xml) : List String :=
  (if sp.inner then xs.flatMap Xml.children else xs).flatMap (numSites sp.textNum sp.keys)

def isSiteRow (sp : SiteSpec) (r : Row) : Bool :=
  (r.kind == "CustomElement" || r.kind == "GenericElement") && r.handler == sp.handler &&
  (match sp.adm with | some a => r.admName == a | none => true)

theorem of_mem_map {v : XV} {o : Obj XV} {a t : String} (hv : o a = .one v) (h : t ∈ (xvNums v).map dumpsNum) :
    ∃ (v : XV) (k : ℤ), o a = .one v ∧ k ∈ xvNums v ∧ t = dumpsNum k := by
  obtain ⟨k, hk, rfl⟩ := List.mem_map.mp h
  exact ⟨v, k, hv, hk, rfl⟩

theorem clock_sites (c : ChannelLock) :
    ∀ t ∈ (channelLockToXml (some c)).flatMap (numSites false ["maxDistance"]), t ∈ (c.maxDistance.toList).map dumpsNum := by
  intro t
  cases hm : c.maxDistance <;> simp [channelLockToXml, hm, numSites, elem, Xml.attrs]

theorem diverg_sites (d : ObjectDivergence) :
    ∀ t ∈ (divergenceToXml (some d)).flatMap (numSites true ["azimuthRange", "positionRange"]),
      t ∈ (d.value :: (d.azimuthRange.toList ++ d.positionRange.toList)).map dumpsNum := by
  intro t
  cases ha : d.azimuthRange <;> cases hp : d.positionRange <;>
    simp [divergenceToXml, ha, hp, numSites, elem, Xml.attrs, Xml.text] <;> tauto

theorem freq_sites (f : Frequency) :
    ∀ t ∈ (frequencyToXml f).flatMap (numSites true []), t ∈ (f.lowPass.toList ++ f.highPass.toList).map dumpsNum := by
  intro t
  cases hl : f.lowPass <;> cases hh : f.highPass <;>
    simp [frequencyToXml, hl, hh, numSites, elem, Xml.attrs, Xml.text] <;> tauto

theorem siteRow_texts (v2 : Bool) (sp : SiteSpec) (hsp : sp ∈ siteSpecs) (r : Row) (o : Obj XV)
    (hr : isSiteRow sp r = true) :
    ∀ t ∈ sitesOf sp ((ofRowG liftCodec XV.leaf (implX v2) r).childrenOut o),
      ∃ (v : XV) (k : ℤ), o sp.arg = .one v ∧ k ∈ xvNums v ∧ t = dumpsNum k := by
  intro t ht
  simp only [isSiteRow, Bool.and_eq_true, beq_iff_eq] at hr
  obtain ⟨⟨hk, hh⟩, hadm⟩ := hr
  obtain ⟨_, h2⟩ := ofRowG_custom_out (implX v2) r o hk
  rw [h2] at ht
  simp only [siteSpecs, List.mem_cons, List.not_mem_nil, or_false] at hsp
  rcases hsp with rfl | rfl | rfl | rfl | rfl | rfl | rfl | rfl | rfl | rfl | rfl <;>
    simp only [sitesOf, Bool.false_eq_true, if_false, if_true] at ht
  · have himpl : implX v2 r = channelLockImpl := by simp [implX, hh]
    rw [himpl] at ht; simp only [channelLockImpl] at ht
    split at ht
    · rename_i c hc; exact of_mem_map hc (clock_sites c t ht)
    · simp at ht
  · have himpl : implX v2 r = divergenceImpl := by simp [implX, hh]
    rw [himpl] at ht; simp only [divergenceImpl] at ht
    split at ht
    · rename_i d hd; exact of_mem_map hd (diverg_sites d t ht)
    · simp at ht
  · have himpl : implX v2 r = frequencyImpl := by simp [implX, hh]
    rw [himpl] at ht; simp only [frequencyImpl] at ht
    split at ht
    · rename_i f hf; exact of_mem_map hf (freq_sites f t ht)
    · simp at ht
  · have himpl : implX v2 r = positionImpl := by simp [implX, hh]
    rw [himpl] at ht; simp only [positionImpl] at ht
    split at ht
    · rename_i p hp; exact of_mem_map hp (opos_sites p t ht)
    · simp at ht
  · have himpl : implX v2 r = speakerImpl := by simp [implX, hh]
    rw [himpl] at ht; simp only [speakerImpl, xpathImpl] at ht
    split at ht
    · rename_i v hv
      split at ht
      · rename_i p; exact of_mem_map hv (spos_sites p t ht)
      · simp at ht
    · simp at ht
  · have himpl : implX v2 r = offsetImpl := by simp [implX, hh]
    rw [himpl] at ht; simp only [offsetImpl, xpathImpl] at ht
    split at ht
    · rename_i v hv
      split at ht
      · rename_i p; exact of_mem_map hv (poff_sites p t ht)
      · simp at ht
    · simp at ht
  · have himpl : implX v2 r = centreImpl := by simp [implX, hh]
    rw [himpl] at ht; simp only [centreImpl] at ht
    split at ht
    · rename_i c hc
      simp only [List.flatMap_cons, List.flatMap_nil, List.append_nil] at ht
      exact of_mem_map hc (cpos_sites c t ht)
    · simp at ht
  · have himpl : implX v2 r = widthImpl := by simp [implX, hh]
    rw [himpl] at ht; simp only [widthImpl] at ht
    split at ht
    · rename_i w ty hw hty
      simp only [List.flatMap_cons, List.flatMap_nil, List.append_nil] at ht
      exact ⟨_, w, hw, by simp [xvNums], width_sites _ w t ht⟩
    · simp at ht
  · have himpl : implX v2 r = gainRangeImpl v2 := by simp [implX, hh]
    rw [himpl] at ht; simp only [gainRangeImpl, xpathImpl] at ht
    split at ht
    · rename_i v hv
      split at ht
      · rename_i g; exact of_mem_map hv (grange_sites g t ht)
      · simp at ht
    · simp at ht
  · have himpl : implX v2 r = posRangeImpl := by simp [implX, hh]
    rw [himpl] at ht; simp only [posRangeImpl, xpathImpl] at ht
    split at ht
    · rename_i v hv
      split at ht
      · rename_i p; exact of_mem_map hv (prange_sites p t ht)
      · simp at ht
    · simp at ht
  · have himpl : implX v2 r = zoneImpl := by
      simp only [beq_iff_eq] at hadm
      simp [implX, hh, hadm]
    rw [himpl] at ht; simp only [zoneImpl] at ht
    split at ht
    · rename_i zs hz; exact of_mem_map hz (zones_sites zs t ht)
    · simp at ht

/-- the numbers the hand-written handlers of `siteSpecs` write for `o` are bounded -/
def rowSitesBounded (o : Obj XV) (r : Row) : Bool :=
  siteSpecs.all fun sp => !isSiteRow sp r ||
    match o sp.arg with
    | .one v => (xvNums v).all fun k => decide (k.natAbs < numBound)
    | .many _ => true

def ObjSitesBounded (rows : List Row) (o : Obj XV) : Bool := rows.all (rowSitesBounded o)

/-- the number texts written by the hand-written handlers of `siteSpecs` -/
def siteTexts (v2 : Bool) (rows : List Row) (o : Obj XV) : List String :=
  siteSpecs.flatMap fun sp => (rows.filter (isSiteRow sp)).flatMap fun r =>
    sitesOf sp ((ofRowG liftCodec XV.leaf (implX v2) r).childrenOut o)

/-- **Objects / DirectSpeakers position (with bounds), channelLock maxDistance, objectDivergence (value, azimuthRange,
positionRange), zoneExclusion zones, positionOffset, frequency (lowPass, highPass), reference-screen centre position
and width, gain / position interaction ranges**: under `ObjSitesBounded` every number text these handlers write is the
real float text of a grid number held by the value stored in the object -/
theorem obj_siteTexts_real (v2 : Bool) (rows : List Row) (o : Obj XV) (hb : ObjSitesBounded rows o = true) :
    ∀ t ∈ siteTexts v2 rows o, ∃ (a : String) (v : XV) (k : ℤ), o a = .one v ∧ k ∈ xvNums v ∧ RealFloatText k t := by
  intro t ht
  simp only [siteTexts, List.mem_flatMap, List.mem_filter] at ht
  obtain ⟨sp, hsp, r, ⟨hr, hsr⟩, htx⟩ := ht
  obtain ⟨v, k, hv, hk, rfl⟩ := siteRow_texts v2 sp hsp r o hsr t htx
  have h1 := (List.all_eq_true.mp ((List.all_eq_true.mp hb) r hr)) sp hsp
  rw [hsr, hv] at h1
  simp only [Bool.not_true, Bool.false_or, List.all_eq_true, decide_eq_true_eq] at h1
  exact ⟨sp.arg, v, k, hv, hk, realFloatText_dumpsNum k (h1 k hk)⟩

/-- table obligation: every hand-written handler pair of the regenerated tables is one of: a gain handler, jumpPosition,
a `siteSpecs` handler, the "not before BS.2076-2" refusal (writes nothing), the `zone` row of the inner zoneExclusion
parser (modelled as a whole by the zoneExclusion entry of `siteSpecs`), or a handler that only delegates to a
nested parser of the table (block formats, Matrix, loudnessMetadata, alternativeValueSet, audioObjectInteraction,
reference screen) — so no number-writing hand-written handler is outside `obj_numTexts_real` / `obj_siteTexts_real` -/
theorem custom_rows_classified :
    ∀ t ∈ Earverif.Gen.C08.parsers, ∀ r ∈ t.2, (r.kind = "CustomElement" ∨ r.kind = "GenericElement") →
      isGainRow r = true ∨ isJumpRow r = true ∨ siteSpecs.any (fun sp => isSiteRow sp r) = true ∨
      r.handler = "make_no_element_before_v2.<locals>.handle / make_no_element_before_v2.<locals>.to_xml" ∨
      r.handler = "handle_zone / zones_to_xml" ∨
      r.handler = "MainElementHandler.make_block_format_matrix_handler.<locals>.handle_matrix / MainElementHandler.make_block_format_matrix_handler.<locals>.matrix_to_xml" ∨
      r.handler = "MainElementHandler.make_block_format_handler.<locals>.handle / MainElementHandler.make_block_format_handler.<locals>.to_xml" ∨
      (r.handler = "ElementParser.as_handler.<locals>.handle / ElementParser.as_handler.<locals>.to_xml" ∧
        (r.admName = "audioProgrammeReferenceScreen" ∨ r.admName = "audioObjectInteraction")) ∨
      (r.handler = "ElementParser.as_list_handler.<locals>.handle / ElementParser.as_list_handler.<locals>.to_xml" ∧
        (r.admName = "loudnessMetadata" ∨ r.admName = "alternativeValueSet")) := by
  decide +kernel

/-- table obligation (regenerated tables): no `HandleText` row has type `FloatType`, so `isFloatRow` covers every
declarative row whose text is written by `FloatType.dumps` -/
theorem no_float_handleText :
    ∀ t ∈ Earverif.Gen.C08.parsers, ∀ r ∈ t.2, ¬ (r.kind = "HandleText" ∧ r.ty = "FloatType") := by
  decide +kernel

/-- table obligation: the declarative `FloatType` rows of the current tables (per version): audioProgramme
maxDuckingDepth; Objects block width / height / depth / diffuse / …; HOA nfcRefDist; loudnessMetadata (six values);
coefficient phase / delay; reference screen aspectRatio — non-vacuity of `isFloatRow` on the regenerated tables -/
theorem float_rows_count :
    30 ≤ ((Earverif.Gen.C08.parsers.flatMap fun t => t.2).filter isFloatRow).length := by
  decide +kernel

end Earverif.FloatDoc
