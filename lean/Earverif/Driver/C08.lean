/- Line protocol for the C08 leaf models (time format, id generation, CHNA entry).
   Strings travel as space-separated hexadecimal code points (so that any character, including
   blanks and newlines, can be sent); bytes as one hex string.

   in : `tp <cp>*`                       parse_time            -> `D <num>/<den>` | `F <n> <d>` | `E`
        `tp1 <cp>*`                      parse_time_v1         -> same
        `tu <0|1> D <num> <den>`         unparse_time(Fraction, allow_fractional)
        `tu <0|1> F <n> <d>`             unparse_time(FractionalTime(n, d), allow_fractional)
                                                               -> `ok <text>` | `lossy` | `negative`
        `gi <nProg> <nCont> <nATU> <unlinked> ; <avs>* ; <type>* ; <type>:<blocks>* ; <type>:<tracks>*`
                                                               -> ten `|`-separated groups (nested groups `;`-separated) | `E`
        `ce <idx> <uid hex> <ref hex> <pack hex | - (None) | + (empty string)>`  AudioID.asByteArray -> `<hex>` | `E`
        `cd <hex>`                       reader entry decode   -> `<idx> <uid hex> <ref hex> <pack hex | ->` | `E`
   out: `bad-op` for a malformed line. -/
import Earverif.Model.TimeFormat
import Earverif.Model.GenIds
import Earverif.Model.Chna
import Earverif.Driver.Util
open Earverif.Driver Earverif.Digits

def hexDigit? (c : Char) : Option Nat :=
  if '0' ≤ c ∧ c ≤ '9' then some (c.toNat - 48)
  else if 'a' ≤ c ∧ c ≤ 'f' then some (c.toNat - 87)
  else if 'A' ≤ c ∧ c ≤ 'F' then some (c.toNat - 55)
  else none

def hexNum? (s : String) : Option Nat :=
  if s.isEmpty then none else
  s.toList.foldlM (fun a c => do some (a * 16 + (← hexDigit? c))) 0

def chars? (ws : List String) : Option (List Char) :=
  ws.mapM fun w => do
    let n ← hexNum? w
    if n.isValidChar then some (Char.ofNat n) else none

def bytes? (s : String) : Option (List UInt8) :=
  let rec go : List Char → Option (List UInt8)
    | [] => some []
    | a :: b :: r => do
      let x ← hexDigit? a
      let y ← hexDigit? b
      let t ← go r
      some (UInt8.ofNat (x * 16 + y) :: t)
    | _ => none
  if s = "-" ∨ s = "+" then some [] else go s.toList

def hexOf (bs : List UInt8) : String :=
  if bs.isEmpty then "-" else
  String.ofList (bs.flatMap fun b => [hexChar (b.toNat / 16), hexChar (b.toNat % 16)])

def str (cs : List Char) : String := String.ofList cs

def showTime : Option Earverif.TimeFormat.Time → String
  | none => "E"
  | some (.dec q) => s!"D {q.num}/{q.den}"
  | some (.frac n d) => s!"F {n} {d}"

def showUnparsed : Earverif.TimeFormat.Unparsed → String
  | .ok s => "ok " ++ str s
  | .lossy => "lossy"
  | .negative => "negative"

def nats? (ws : List String) : Option (List Nat) := ws.mapM String.toNat?

def pairs? (ws : List String) : Option (List (Nat × Nat)) :=
  ws.mapM fun w => match w.splitOn ":" with
    | [a, b] => do some (← a.toNat?, ← b.toNat?)
    | _ => none

def group (xs : List (List Char)) : String := " ".intercalate (xs.map str)
def groups (xss : List (List (List Char))) : String := " ; ".intercalate (xss.map group)

def showIds (o : Earverif.GenIds.Output) : String :=
  " | ".intercalate [group o.programmes, group o.contents, group o.objects, groups o.avs,
    group o.packs, group o.channels, groups o.blocks, group o.streams, groups o.tracks,
    group o.trackUIDs]

def answerGi (rest : String) : String :=
  match rest.splitOn ";" with
  | [a, b, c, d, e] =>
    match nats? (words a), nats? (words b), nats? (words c), pairs? (words d), pairs? (words e) with
    | some [np, nc, nu, ul], some objs, some packs, some chans, some streams =>
      match Earverif.GenIds.generateIds ⟨np, nc, objs, packs, chans, streams, ul, nu⟩ with
      | some o => showIds o
      | none => "E"
    | _, _, _, _, _ => "bad-op"
  | _ => "bad-op"

def answer (line : String) : String :=
  match words line with
  | "tp" :: ws =>
    match chars? ws with
    | some cs => showTime (Earverif.TimeFormat.parseTime cs)
    | none => "bad-op"
  | "tp1" :: ws =>
    match chars? ws with
    | some cs => showTime (Earverif.TimeFormat.parseTimeV1 cs)
    | none => "bad-op"
  | ["tu", af, "D", n, d] =>
    match af.toNat?, n.toInt?, d.toNat? with
    | some af, some n, some d =>
      if d = 0 ∨ 1 < af then "bad-op" else
      showUnparsed (Earverif.TimeFormat.unparseTime (af == 1) (.dec (mkRat n d)))
    | _, _, _ => "bad-op"
  | ["tu", af, "F", n, d] =>
    match af.toNat?, n.toNat?, d.toNat? with
    | some af, some n, some d =>
      if d = 0 ∨ 1 < af then "bad-op" else
      showUnparsed (Earverif.TimeFormat.unparseTime (af == 1) (.frac n d))
    | _, _, _ => "bad-op"
  | "gi" :: _ => answerGi ((line.dropWhile (· == ' ')).drop 2).toString
  | ["ce", idx, uid, ref, pack] =>
    match idx.toNat?, bytes? uid, bytes? ref, bytes? pack with
    | some idx, some uid, some ref, some p =>
      match Earverif.Chna.encode ⟨idx, uid, ref, if pack = "-" then none else some p⟩ with
      | some bs => hexOf bs
      | none => "E"
    | _, _, _, _ => "bad-op"
  | ["cd", h] =>
    match bytes? h with
    | some bs =>
      match Earverif.Chna.decode bs with
      | some e =>
        let p := match e.audioPackFormatIDRef with
          | some p => hexOf p
          | none => "-"
        s!"{e.trackIndex} {hexOf e.audioTrackUID} {hexOf e.audioTrackFormatIDRef} {p}"
      | none => "E"
    | none => "bad-op"
  | _ => "bad-op"

def main : IO Unit := lineLoop answer
