/-
Model of the glue in `ear.cmdline.render_file.OfflineRenderDriver`
(`load_output_layout`, `render_input_file`, `run`), `Layout.with_speakers`,
`monitor.PeakMonitor` and the truncating PCM quantiser, over exact rationals.

The renderer itself (C02/C03) is a parameter: `rendered` is the list of blocks
it returned (one per input block plus the tail). Core Lean only.
-/
namespace Earverif.FileRender

/-- `layout.Speaker` (the position does not influence routing). -/
structure Speaker where
  channel : Nat
  names : List String
  gain : Rat
  deriving Repr

/-- `find_speaker` in `Layout.with_speakers`: first speaker listing the name. -/
def findSpeaker (sp : List Speaker) (name : String) : Option Speaker :=
  sp.find? (fun s => s.names.contains name)

/-- `max(speaker.channel for speaker in speakers) + 1` (speakers non-empty). -/
def outChannels (sp : List Speaker) : Nat :=
  (sp.map (·.channel)).foldl max 0 + 1

/-- Entry `[o, i]` of the upmix matrix built by `Layout.with_speakers`. -/
def upmixEntry (sp : List Speaker) (o : Nat) (name : String) : Rat :=
  match findSpeaker sp name with
  | some s => if s.channel = o then s.gain else 0
  | none => 0

/-- The upmix matrix, one row per output channel, one column per layout channel. -/
def upmix (sp : List Speaker) (chans : List String) : List (List Rat) :=
  (List.range (outChannels sp)).map fun o => chans.map fun name => upmixEntry sp o name

/-- Dot product of a frame with a matrix row (`zip` semantics as numpy would
reject unequal lengths; lengths are equal in every use). -/
def dot : List Rat → List Rat → Rat
  | x :: xs, u :: us => x * u + dot xs us
  | _, _ => 0

/-- `output_samples *= upmix` for one frame (`upmix` is the transposed sparse
matrix, so this is a matrix product). -/
def applyUpmix (U : List (List Rat)) (frame : List Rat) : List Rat :=
  U.map fun row => dot frame row

/-- `load_output_layout`: number of channels of the output file. `speakers = none`
covers both "no speakers file" and a speakers file without a `speakers` key. -/
def nChannels (chans : List String) (speakers : Option (List Speaker)) : Nat :=
  match speakers with
  | none => chans.length
  | some sp => outChannels sp

/-- One output block: `output_samples *= gain`, then the optional upmix. -/
def outBlock (gain : Rat) (U : Option (List (List Rat))) (block : List (List Rat)) : List (List Rat) :=
  block.map fun fr =>
    let scaled := fr.map (· * gain)
    match U with
    | none => scaled
    | some U => applyUpmix U scaled

def rabs (x : Rat) : Rat := if x < 0 then -x else x
def rmax (a b : Rat) : Rat := if a < b then b else a

/-- `np.max(np.abs(samples), axis=0, initial=0.0)` folded into the running peak. -/
def peakFrame : List Rat → List Rat → List Rat
  | p :: ps, x :: xs => rmax p (rabs x) :: peakFrame ps xs
  | ps, [] => ps
  | [], _ => []

/-- `PeakMonitor.process` for one block. -/
def peakBlock (peak : List Rat) (block : List (List Rat)) : List Rat :=
  block.foldl peakFrame peak

/-- `PeakMonitor.has_overloaded`. -/
def hasOverloaded (peak : List Rat) : Bool := peak.any (fun p => 1 < p)

/-- Truncation toward zero (`astype(int)`). -/
def trunc (x : Rat) : Int := if x < 0 then -((-x).floor) else x.floor

/-- `encode_pcm_samples` on exact values: clip to [-1, 1], scale by `M = 2^(b-1)-1`, truncate. -/
def quantise (M : Int) (x : Rat) : Int :=
  let c := if 1 < x then 1 else if x < -1 then -1 else x
  trunc (c * (M : Rat))

structure Result where
  nChannels : Nat
  frames : List (List Int)    -- sample codes written to the output file
  peak : List Rat
  failed : Bool               -- "error: output overloaded"
  deriving Repr

/-- `OfflineRenderDriver.run` from the point where the renderer's blocks are known. -/
def run (chans : List String) (speakers : Option (List Speaker)) (gain : Rat) (failOnOverload : Bool)
    (M : Int) (rendered : List (List (List Rat))) : Result :=
  let n := nChannels chans speakers
  let U := speakers.map (fun sp => upmix sp chans)
  let outs := rendered.map (outBlock gain U)
  let peak := outs.foldl peakBlock (List.replicate n 0)
  { nChannels := n
    frames := (outs.flatten).map (fun fr => fr.map (quantise M))
    peak := peak
    failed := failOnOverload && hasOverloaded peak }

end Earverif.FileRender
