"""C17 — unfinished or truncated BW64 files are never misread.

Correspondence: the unclosed buffer after every writer call (bytes and the reader's verdict) and every proper
prefix of finalised files, real Bw64Writer/Bw64Reader vs the Lean byte models.  Search: the two predicates of
the property on the real code alone.
"""
import multiprocessing

import numpy as np

from .common import Spec, Driver
from . import c09
from .c09 import (real_write, real_read, canon_real, parse_read_answer, write_line, val, case_repr, case_features,
                  effective_chunks, mk_chna, mk_case, CHNA_OPTS, CHUNK_OPTS, FRAME_OPTS, _vrepr, split_write_answer)

MAX_LEN = 600


def unclosed_predicate(snap):
    """None if the reader rejects the unfinished file, else (what, detail, tags)."""
    r = real_read(snap)
    if r[0] == "err" and not r[1].startswith("after-open"):
        return None
    if r[0] == "err":
        return ("unfinished file accepted by the constructor, reading it fails", r[1], ["unclosed-accepted"])
    return ("unfinished file accepted", dict(frames=r[1]["frames"], warns=r[1]["warns"]), ["unclosed-accepted"])


def truncation_predicate(case, k, r):
    """r = real_read(file[:k]). None if rejected, or accepted with the original frames/format and only complete
    chunks; else (what, detail, tags)."""
    if r[0] == "err":
        if r[1].startswith("after-open"):
            return ("truncated file accepted by the constructor but reading the samples fails", r[1], ["truncated-misread"])
        return None
    _, res, samples, chna = r
    want = effective_chunks(case)
    if (res["tag"], res["ch"], res["rate"], res["bits"]) != (1, case["ch"], case["rate"], case["bits"]):
        return ("truncated file read with another format", (res["tag"], res["ch"], res["rate"], res["bits"]),
                ["truncated-misread"])
    got = np.asarray(samples)
    x = np.clip(case["samples"], -1.0, 1.0)
    if res["frames"] != case["frames"] or got.shape != x.shape:
        return ("truncated file read with another frame count", dict(frames=res["frames"], shape=got.shape,
                                                                     original=case["frames"]), ["truncated-misread"])
    if x.size and float(np.abs(got - x).max()) > (1 + 1e-9) / float(2 ** (case["bits"] - 1) - 1):
        return ("truncated file read with other samples", None, ["truncated-misread"])
    for key in ("axml", "bext"):
        if res[key] is not None and res[key] != want[key]:
            return ("truncated file yields a partial/different %s chunk" % key,
                    dict(original=_vrepr(want[key]), read=_vrepr(res[key])), ["truncated-partial-chunk"])
    if chna is not None and chna != mk_chna(want["chna"]):
        return ("truncated file yields a different chna chunk", repr(chna), ["truncated-partial-chunk"])
    return None


def small_cases(rng, n):
    """files of at most MAX_LEN bytes: every chunk combination appears (cycling), short payloads."""
    cases, i = [], 0
    combos = [(c, a, b, f) for c in CHNA_OPTS for a in CHUNK_OPTS for b in CHUNK_OPTS for f in (False, True)]
    rng.shuffle(combos)
    while len(cases) < n:
        c, a, b, f = combos[i % len(combos)]
        if i >= len(combos):
            c, a, b, f = rng.choice(CHNA_OPTS), rng.choice(CHUNK_OPTS), rng.choice(CHUNK_OPTS), rng.random() < 0.5
        bits = [16, 24, 32][i % 3]
        ch = 1 + (i // 3) % 4
        fr = FRAME_OPTS[(i // 12 + i) % 6]
        i += 1
        case = mk_case(rng, bits, ch, fr, c, a, b, f, small=True)
        cases.append(case)
    return cases


def _trunc_worker(args):
    """all prefixes of one file through the real reader: (canonical results, first predicate failure)"""
    case, data = args
    res, bad = [], None
    for k in range(len(data)):
        r = real_read(data[:k])
        res.append(canon_real(r))
        if bad is None:
            b = truncation_predicate(case, k, r)
            if b:
                bad = (k, b)
    return res, bad


THEOREMS = (
    "unclosedFile_layout", "readChunks_chunkEnd", "C17_unclosed",
    "readChunks_continue", "readChunks_dataPad", "unclosed_walk_without_bound", "unclosed_at_limit_accepted",
    "take_encAll", "walk_prefix", "prefix_lateC", "trunc_body", "readHead_riff_short", "readHead_bw64_short",
    "closedFile_written", "C17_truncation",
)


class C17(Spec):
    pid = "C17"
    lean_targets = ("Earverif.Props.C17", "c09driver")
    props_module = "Earverif.Props.C17"
    theorems = tuple("Earverif.Bw64." + t for t in THEOREMS)
    trusted_base = c09.C09.trusted_base
    assumptions = c09.C09.assumptions + (
        "unfinished files hold fewer than 2^32 - 1 data bytes. EVERYTHING from 2^32 - 1 upwards is outside C17_unclosed: "
        "with exactly 2^32 - 1 the placeholder size 0xFFFFFFFF is the true size and the file is accepted with the "
        "missing-pad-byte warning whenever the block alignment divides 2^32 - 1 (theorem unclosed_at_limit_accepted); with "
        "2^32 or more the placeholder chunk ends inside the file and the chunk walk carries on parsing sample bytes as "
        "chunk headers (theorem unclosed_walk_without_bound) -- the verdict then depends on the sample bytes",
    )
    rule = (
        "crash points: the buffer after construction and after every write/setter call of a generated history; "
        "truncation: every offset 0..len-1 of every generated finalised file of at most 600 bytes (bit depth x "
        "channels x frame class x chunk presence/parity/placement x forceBw64, cycling through all combinations); "
        "a case is one (history, crash point) or (file, offset); distinct by the bytes fed to the reader"
    )

    def _unclosed(self, ctx, cases, driver):
        lines, metas = [], []
        for ci, case in enumerate(cases):
            try:
                _, snaps = real_write(case, close=False, snapshots=True)
            except Exception as e:
                ctx.hit("writer raised", case_repr(case), "%s: %s" % (type(e).__name__, e), ["writer-exception"])
                continue
            for n, snap in enumerate(snaps):
                metas.append((case, n, snap))
                if driver:
                    # alternate sample-level (the model encodes the floats) and byte-level histories
                    lines.append(write_line(case, False, nops=n, mode="samples" if (ci + n) % 2 == 0 else "bytes"))
                    lines.append("read " + val(snap))
        outs = driver.run(lines) if driver else []
        for i, (case, n, snap) in enumerate(metas):
            r = real_read(snap)
            ctx.case(("unclosed", snap), True,
                     sample=dict(kind="unclosed", features=case_features(case), after_ops=n, verdict=str(canon_real(r))[:200]))
            ctx.count("unclosed:after-%s" % ("init" if n == 0 else case["ops"][n - 1][0]))
            ctx.count("unclosed:verdict:" + (r[1] if r[0] == "err" else "accepted"))
            if driver:
                ok = True
                flag, wout = split_write_answer(outs[2 * i])
                ctx.count("unclosed:theorem-hypotheses:" + {"H": "inside", "N": "OUTSIDE", None: "no-answer"}[flag])
                if flag == "N":
                    ok = False
                    ctx.disagree("generated history outside the hypotheses of C17_unclosed (generator drifted)",
                                 dict(case=case_repr(case), after_ops=n), "N", "H expected")
                if wout != snap.hex():
                    ok = False
                    ctx.disagree("unclosed Bw64Writer buffer vs Earverif.Bw64.unclosedFile(S)",
                                 dict(case=case_repr(case), after_ops=n), wout, snap.hex())
                m = parse_read_answer(outs[2 * i + 1])
                if m != canon_real(r):
                    ok = False
                    ctx.disagree("Bw64Reader on unclosed file vs Earverif.Bw64.readFile", dict(file=snap.hex()), m, canon_real(r))
                if ok:
                    ctx.validated()
            bad = unclosed_predicate(snap)
            if bad:
                ctx.hit(bad[0], dict(case=case_repr(case), after_ops=n, file=snap.hex()), bad[1], bad[2])

    def _truncations(self, ctx, cases, driver, procs=1):
        files = []
        for case in cases:
            try:
                data, _ = real_write(case)
            except Exception as e:
                ctx.hit("writer raised", case_repr(case), "%s: %s" % (type(e).__name__, e), ["writer-exception"])
                continue
            if len(data) <= MAX_LEN:
                files.append((case, data))
            else:
                ctx.count("trunc:file-too-long-skipped")
        outs = driver.run(["trunc " + d.hex() for _, d in files]) if driver else [None] * len(files)
        if procs > 1:
            with multiprocessing.Pool(procs) as pool:
                reals = pool.map(_trunc_worker, files, chunksize=8)
        else:
            reals = [_trunc_worker(f) for f in files]
        for (case, data), out, (res, bad) in zip(files, outs, reals):
            for f in case_features(case):
                ctx.count("trunc-file:" + f)
            ctx.count("trunc-file:" + ("BW64" if data[:4] == b"BW64" else "RIFF"))
            models = [parse_read_answer(a) for a in out.split(" | ")] if driver else [None] * len(res)
            if driver and len(models) != len(res):
                ctx.disagree("trunc answer count", dict(file=data.hex()), len(models), len(res))
                continue
            for k, (r, m) in enumerate(zip(res, models)):
                ctx.case(("trunc", data[:k]), True,
                         sample=dict(kind="truncation", file_len=len(data), cut=k, verdict=str(r)[:200]) if r[0] == "ok" or k % 37 == 0 else None)
                if r[0] == "err":
                    ctx.count("trunc:verdict:" + r[1])
                else:
                    ctx.count("trunc:verdict:accepted" + ("+warning" if r[1]["warns"] else ""))
                    for key in ("chna", "axml", "bext"):
                        ctx.count("trunc:accepted:%s:%s" % (key, "absent" if r[1][key] is None else "complete"))
                if driver:
                    if m != r:
                        ctx.disagree("Bw64Reader on truncated file vs Earverif.Bw64.readFile",
                                     dict(file=data.hex(), cut=k), m, r)
                    else:
                        ctx.validated()
            if bad:
                k, b = bad
                ctx.hit(b[0], dict(case=case_repr(case), file=data.hex(), cut=k), b[1], b[2])

    def correspond(self, ctx):
        driver = Driver("c09driver", "Earverif.Driver.C09")
        cases = small_cases(ctx.rng, 40 if ctx.quick else 2000)
        self._truncations(ctx, cases, driver, procs=1 if ctx.quick else 12)
        ucases = c09.grid_cases(ctx.rng, 100 if ctx.quick else 3000)
        if ctx.quick:
            ucases = ucases[::3]
        self._unclosed(ctx, ucases, driver)

    def search(self, ctx, deep):
        if not deep:
            return
        # real code alone: more files, all offsets; more crash points
        rng = ctx.rng
        self._truncations(ctx, small_cases(rng, 600), None, procs=12)
        self._unclosed(ctx, c09.grid_cases(rng, 500, small=True), None)


SPEC = C17()

REGISTRY = dict(
    text="FULL: Lean theorems about the byte-level models of Bw64Writer/Bw64Reader (same models as C09): "
    "Earverif.Bw64.C17_unclosed — the buffer of a writer that was never closed, after any history of write/setter calls, "
    "any constructor or pending chunks, fewer than 2^32-1 data bytes, is rejected (chunk ends after the end of the file: "
    "the data header still holds the 0xFFFFFFFF placeholder); Earverif.Bw64.C17_truncation — for every finalised file in "
    "C09's quantifier and every cut position k < length, readFile (file.take k) is an error or succeeds with the same "
    "format, the same frame count, exactly the same sample bytes and each of chna/axml/bext absent or identical "
    "(TruncOK). Proof by the layout lemma (closedFile_written), the prefix decomposition take_encAll and the chunk-walk "
    "lemma walk_prefix (EOF inside a header, error inside a body or pad, data chunk lacking only its pad byte accepted "
    "with a warning). The models are tied to the code on every run: unclosed buffer bytes and reader verdict after "
    "construction and after every call of generated histories, and every truncation offset of generated finalised files "
    "<= 600 bytes (quick 40 files, thorough 2000 files + 600 more on the real code alone), error kinds and parsed fields "
    "compared; the two predicates of the property run on the real code for every case.",
    note="Trusted: as C09 (Lean kernel, hand transliteration + correspondence, BytesIO semantics as modelled; sample "
    "encoding is C16's model, run inside the writer model for every second crash-point history). EXCLUDED POINT of "
    "C17_unclosed: unfinished files with 2^32 - 1 OR MORE data bytes (not only exactly 2^32 - 1). Stated as theorems about the "
    "model for any history with that much data (the data stays a variable; no 4 GiB list is built): "
    "unclosed_walk_without_bound -- at exactly 2^32 - 1 bytes the chunk walk succeeds with the missing-pad warning, at >= 2^32 "
    "bytes the placeholder data chunk ends inside the file and the walk continues at offset dpos + 8 + 2^32, i.e. it parses "
    "sample bytes as chunk headers; unclosed_at_limit_accepted -- at exactly 2^32 - 1 bytes with a block alignment dividing "
    "2^32 - 1 (e.g. 24-bit mono) the unfinished file is ACCEPTED (all frames, one warning). Neither is exercised on the real "
    "code (4 GiB buffers). A cut that leaves the data chunk complete except for its pad byte is accepted with the 'missing "
    "padding byte' warning, by design of the reader.",
    technique="Lean 4 proof about byte-level writer/reader models + differential correspondence with the real "
    "Bw64Writer/Bw64Reader over all crash points and truncation offsets + search on the real code",
    design_ref="DESIGN.md section 4, C17",
)
