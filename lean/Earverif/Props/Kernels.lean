/-
Kernel ties (DESIGN.md section 1, "T — translator").

`Earverif/Gen/Kernels.lean` is regenerated on every run from the Python SOURCE of the functions below
(`harness/translate.py` reads the AST; the module is not imported).  Each theorem here states that the
regenerated definition equals the hand-written model definition that the property theorems are about.
If one of these functions is edited, the generated text changes; if it no longer says what the model
says, the equality below stops checking — whether or not a test input exposes the difference.

Conventions of the translation (see `harness/translate.py`): floats are exact rationals/reals (as in the
models); `//` is `Int.fdiv` (Python's floor division), which is the model's `/` for a divisor `≥ 0`
(stated as a hypothesis where it matters); `a > b` is written `b < a`; `is None` tests are decided by one
`match` at the top of the def; statements after an `if` are duplicated into both branches.

Only core Lean; every theorem is closed by `rfl`, `cases`, `split`, `simp`, `omega` or `grind`.  Where the
kernel is over `Int`/`Rat` the proof is `first | rfl | (unfold; grind)`: `rfl` checks the literal transliteration,
`grind` (case splits + linear/ring arithmetic) keeps the equality checking after a behaviour-preserving rewrite
such as commuted operands or reordered branches.  Kernels over the abstract `Scalar` class (no algebraic laws:
it is instantiated by `Float`) can only be re-proved up to the `if`-structure; a commuted product there breaks
the equality, which the framework reports as a broken tie (then searches for a failing input).
-/
import Earverif.Gen.Kernels
import Earverif.Model.GainCalc
import Earverif.Model.DirectSpeakers
import Earverif.Model.Bw64Cursor
import Earverif.Model.TrackSpec
import Earverif.Model.Timeline
import Earverif.Model.Pcm
import Earverif.Model.FileRender
import Earverif.Model.Bw64Reader
import Earverif.Model.Hoa
import Earverif.Model.Renderer
import Earverif.Model.PointSource
import Earverif.Model.Conversion
import Earverif.Model.Zone
import Earverif.Model.ChannelLock
import Earverif.Model.DirectSpeakersGeom
import Earverif.Model.TimingFix

namespace Earverif.Kernels
open Earverif

/-! ### C10 — `renderer_common.is_lfe` -/

/-- `is_lfe(frequency)` (return value) is the model's `isLfeFreq`. -/
theorem is_lfe_eq_model (lowPass highPass : Option Rat) :
    Gen.is_lfe lowPass highPass = DS.isLfeFreq lowPass highPass := by
  cases lowPass <;> cases highPass <;> simp [Gen.is_lfe, DS.isLfeFreq]

/-! ### C01 — `get_object_gain`, `direct_diffuse_split`, the gains of `diverge`, `_single_balance_pan` -/

section
variable {α : Type} [GainCalc.Scalar α]

theorem get_object_gain_eq_model (mute : Bool) (objectGain : α) :
    Gen.get_object_gain mute objectGain = GainCalc.getObjectGain mute objectGain := by
  first | rfl | (cases mute <;> simp [Gen.get_object_gain, GainCalc.getObjectGain, GainCalc.zero, GainCalc.k])

theorem direct_diffuse_split_eq_model (gains : List α) (diffuse : α) :
    Gen.direct_diffuse_split gains diffuse = GainCalc.directDiffuseSplit gains diffuse := rfl

/-- The condition under which `diverge` computes `g_l, g_c, g_r` and the three formulas are the model's
(`none` = the early `return np.array([1.0]), ...`). -/
theorem diverge_gains_eq_model (value : Option α) :
    GainCalc.divergeGains value =
      match Gen.diverge_gains value with
      | none => [GainCalc.one]
      | some (g_l, g_c, g_r) => [g_l, g_c, g_r] := by
  cases value with
  | none => rfl
  | some v =>
    simp only [GainCalc.divergeGains, Gen.diverge_gains]
    split <;> simp_all [GainCalc.zero, GainCalc.one, GainCalc.k]

theorem single_balance_pan_eq_model (minimum maximum value : α) :
    Gen.single_balance_pan minimum maximum value = GainCalc.singleBalancePan minimum maximum value := by
  first
  | rfl
  | (simp only [Gen.single_balance_pan, GainCalc.singleBalancePan, GainCalc.one, GainCalc.zero, GainCalc.k]; grind)

end

/-! ### C18 — `Bw64Reader.seek`, `tell`, `__len__` -/

/-- New buffer position after `seek` (`none` = `ValueError`). -/
theorem seek_eq_model (k : Cursor.Cfg) (pos offset whence : Int) :
    Gen.seek k pos offset whence = Cursor.seek k pos offset whence := by
  simp only [Gen.seek, Cursor.seek]
  grind

/-- `tell` for a block alignment `≥ 0` (Python `//` floors; the model's `/` agrees for a divisor `≥ 0`). -/
theorem tell_eq_model (k : Cursor.Cfg) (pos : Int) (hA : 0 ≤ k.A) :
    Gen.tell k pos = Cursor.tell k pos := by
  simp only [Gen.tell, Cursor.tell]
  first | exact Int.fdiv_eq_ediv_of_nonneg _ hA | grind [Int.fdiv_eq_ediv_of_nonneg]

/-- `__len__`, both branches (`ds64` present or not), for a block alignment `≥ 0`. -/
theorem len_eq_model (k : Cursor.Cfg) (ds64 : Bool) (hA : 0 ≤ k.A) :
    Gen.len k ds64 = Cursor.len k := by
  cases ds64 <;> simp only [Gen.len, Cursor.len] <;>
    first | exact Int.fdiv_eq_ediv_of_nonneg _ hA | grind [Int.fdiv_eq_ediv_of_nonneg]

/-! ### C20 — the ms → samples formula of `MatrixCoefficientProcessor.init_delay` -/

theorem init_delay_samples_eq_model (sample_rate : Int) (delay : Rat) :
    Gen.init_delay_samples sample_rate delay = TrackSpec.delaySamples sample_rate delay := by
  first | rfl | (simp only [Gen.init_delay_samples, TrackSpec.delaySamples]; grind)

/-! ### C03 (and C02) — `ceil`, `ProcessingBlock.overlap`, `InterpGains._interp_p`, `interp_length` -/

theorem ceil_eq_model (x : Rat) : Gen.ceil x = Timeline.ceil x := by
  first | rfl | (simp only [Gen.ceil, Gen.pyTrunc, Timeline.ceil, Timeline.trunc]; grind)

/-- `overlap` of a block with a finite `last_sample`. -/
theorem overlap_eq_model {K : Type} (b : Timeline.PBlock K) (l : Int) (h : b.last_sample = .fin l)
    (start_sample : Int) (num_samples : Nat) :
    Gen.overlap b.first_sample l start_sample num_samples = b.overlap start_sample num_samples := by
  simp only [Gen.overlap, Timeline.PBlock.overlap, h]
  try grind

/-- `overlap` of a block without end (`last_sample = inf`): `min(end_sample, inf) = end_sample`, i.e. the
translated function applied to any `last_sample ≥ end_sample`. -/
theorem overlap_inf_eq_model {K : Type} (b : Timeline.PBlock K) (h : b.last_sample = .inf)
    (start_sample : Int) (num_samples : Nat) (l : Int) (hl : start_sample + num_samples ≤ l) :
    Gen.overlap b.first_sample l start_sample num_samples = b.overlap start_sample num_samples := by
  simp only [Gen.overlap, Timeline.PBlock.overlap, h]
  grind

theorem interp_p_eq_model (start_sample end_sample : Rat) (first_sample last_sample : Int) :
    Gen.interp_p start_sample end_sample first_sample last_sample =
      Timeline.interpP start_sample end_sample first_sample last_sample := by
  first
  | rfl
  | (simp only [Gen.interp_p, Timeline.interpP]
     split <;> first | rfl | (apply List.map_congr_left; intro i _; grind) | grind)

theorem interp_length_eq_model {G : Type} (m : Timeline.MetaBlock G) (duration : Timeline.Ext Rat) :
    Gen.interp_length m.jump m.interpLen duration = Timeline.interpLength m duration := by
  unfold Gen.interp_length Timeline.interpLength
  cases m.interpLen <;> cases m.jump <;> first | rfl | simp

/-! ### C16 — the exact scalar parts of `encode_pcm_samples` / `decode_pcm_samples` -/

/-- `((b : Int) - 1).toNat` is the model's truncated `b - 1`. -/
theorem scale_eq (b : Nat) :
    ((2 : Int) ^ ((Nat.cast b : Int) - (1 : Int)).toNat - (1 : Int)) = Pcm.scale b := by
  have : ((Nat.cast b : Int) - (1 : Int)).toNat = b - 1 := by omega
  simp only [Pcm.scale, this]

/-- `scaledSamples` = clip to [-1, 1], times `2**(bitdepth-1) - 1` (the argument of the model's `rn53`). -/
theorem pcm_encode_scaled_eq_model (samples : List Rat) (bitdepth : Nat) :
    Gen.pcm_encode_scaled samples bitdepth =
      samples.map (fun x => Pcm.clip x * (Pcm.scale bitdepth : Rat)) := by
  simp only [Gen.pcm_encode_scaled, scale_eq]
  apply List.map_congr_left
  intro x _
  simp only [Pcm.clip]
  grind

/-- the returned quotient `code / float(2**(bitdepth-1) - 1)` (the argument of the model's `rn53`). -/
theorem pcm_decode_scaled_eq_model (codes : List Int) (bitdepth : Nat) :
    Gen.pcm_decode_scaled codes bitdepth =
      codes.map (fun (c : Int) => (c : Rat) / (Pcm.scale bitdepth : Rat)) := by
  simp only [Gen.pcm_decode_scaled, scale_eq]
  try (apply List.map_congr_left; intro c _; grind)

/-! ### C04 — `PeakMonitor.has_overloaded` -/

theorem has_overloaded_eq_model (peak : List Rat) :
    Gen.has_overloaded peak = FileRender.hasOverloaded peak := by
  first
  | rfl
  | (simp only [Gen.has_overloaded, FileRender.hasOverloaded]; congr 1; funext p; grind)


/-! ## Round 2

Where a model has no separate def for the translated piece (it is an expression inside a larger model function),
the theorem states the *unfolding* of that model function with the translated def in place of the expression, so the
tie is still to the model def the property theorems are about. -/

/-! ### C09 / C17 — chunk walk (`_read_chunks`), `close` tests, `_calc_riff_chunk_size`; C11 — ACN; C02 — latency
constants; C05 / C12 — stereo level law -/

theorem read_chunks_step_eq_model (f : Bw64.Bytes) (ds : Option Bw64.Ds64) (fuel pos : Nat) (t : Bw64.Table)
    (w : List Bw64.Warn) :
    Bw64.readChunks f ds (fuel + 1) pos t w =
      match Bw64.readChunkHeader f ds pos with
      | .eof => .ok (t, w)
      | .badId => .error .badId
      | .placeholder => .error .dataPlaceholder
      | .hdr id sz =>
        match Gen.read_chunks_step (pos + 8) sz f.length (decide (id = Bw64.idData)) with
        | none => .error .chunkEnd
        | some e =>
          Bw64.readChunks f ds fuel e ((id, sz, pos) :: t) (if e > f.length then w ++ [.dataPad] else w) := by
  rw [Bw64.readChunks]
  cases Bw64.readChunkHeader f ds pos with
  | eof => rfl
  | badId => rfl
  | placeholder => rfl
  | hdr id sz =>
    simp only [Gen.read_chunks_step, Nat.and_one_is_mod]
    grind

theorem close_pad_test_eq_model (s : Bw64.WState) :
    s.padData = if Gen.close_pad_test s.dataBytes then { s with buf := s.buf ++ [0] } else s := by
  simp only [Bw64.WState.padData, Gen.close_pad_test, Nat.and_one_is_mod]
  grind

theorem close_bw64_test_eq_model (s : Bw64.WState) :
    Bw64.finalizeW s =
      (let riffSize := s.buf.length - 8
       if Gen.close_bw64_test riffSize s.force then
         Bw64.patchAt (Bw64.patchAt s.buf 0 Bw64.idBW64) 12 (Bw64.ds64Chunk riffSize s.dataBytes)
       else
         Bw64.patchAt (Bw64.patchAt s.buf 4 (Bw64.le 4 riffSize)) (s.dataPos + 4) (Bw64.le 4 s.dataBytes)) := by
  simp only [Bw64.finalizeW, Gen.close_bw64_test]
  grind

theorem calc_riff_chunk_size_eq_model (s : Bw64.WState) (pos : Nat) :
    Bw64.finalizeW s =
      (let riffSize := (Gen.calc_riff_chunk_size pos s.buf.length).toNat
       if riffSize ≥ 2 ^ 32 || s.force then
         Bw64.patchAt (Bw64.patchAt s.buf 0 Bw64.idBW64) 12 (Bw64.ds64Chunk riffSize s.dataBytes)
       else
         Bw64.patchAt (Bw64.patchAt s.buf 4 (Bw64.le 4 riffSize)) (s.dataPos + 4) (Bw64.le 4 s.dataBytes)) := by
  have h : (Gen.calc_riff_chunk_size pos s.buf.length).toNat = s.buf.length - 8 := by
    simp only [Gen.calc_riff_chunk_size]; omega
  simp only [Bw64.finalizeW, h]

theorem to_acn_eq_model (n m : Int) : Gen.to_acn n m = Hoa.toAcn n m := by
  first | rfl | (simp only [Gen.to_acn, Hoa.toAcn]; grind)

theorem from_acn_eq_model (acn : Nat) : Gen.from_acn acn = Hoa.fromAcn acn := by
  simp only [Gen.from_acn, Hoa.fromAcn]
  grind

theorem decorrelator_delay_eq_model {V : Type} (c : Renderer.Cfg V) (h : 1 ≤ c.taps.length) :
    Gen.decorrelator_delay c.taps.length = (c.decorrelator_delay : Int) := by
  simp only [Gen.decorrelator_delay, Renderer.Cfg.decorrelator_delay]
  rw [Int.fdiv_eq_ediv_of_nonneg _ (by omega)]
  omega

theorem vbs_delay_eq_model {V : Type} (c : Renderer.Cfg V) :
    Gen.vbs_delay c.block_size c.decorrelator_delay = c.overall_delay := by
  first | rfl | (simp only [Gen.vbs_delay, Renderer.Cfg.overall_delay]; grind)

theorem stereo_level_eq_model {α : Type} [PointSource.Scalar α] (g0 g1 g2 g3 g4 : α) :
    PointSource.StereoPanDownmix.handle (some [g0, g1, g2, g3, g4]) =
      some ((PointSource.normalise (PointSource.matVec PointSource.stereoDownmix [g0, g1, g2, g3, g4])).map
        (· * Gen.stereo_level (PointSource.Scalar.max (PointSource.Scalar.max g0 g1) g2) (PointSource.Scalar.max g3 g4))) := rfl

/-! ### C19 — conversion helpers, `relative_angle`, `inside_angle_range` (over the Scalar class of Model/Conversion.lean);
C10 — `inside_angle_range` against Model/DirectSpeakersGeom.lean (its per-loop fuel) -/

section
variable {α : Type} [Conv.Scalar α]

theorem map_az_to_linear_eq_model (l r az : α) : Gen.map_az_to_linear l r az = Conv.mapAzToLinear l r az := rfl
theorem map_linear_to_az_eq_model (l r x : α) : Gen.map_linear_to_az l r x = Conv.mapLinearToAz l r x := rfl
theorem el_to_cart_eq_model (P : Conv.Params α) (el d : α) : Gen.el_to_cart P el d = Conv.elToCart P el d := rfl
theorem el_to_polar_eq_model (P : Conv.Params α) (z rxy : α) : Gen.el_to_polar P z rxy = Conv.elToPolar P z rxy := rfl

theorem relative_angle_loop1_eq (x : α) : ∀ n y, Gen.relative_angle_loop1 x n y = Conv.downGe x n y := by
  intro n; induction n with
  | zero => intro y; rfl
  | succ n ih => intro y; simp only [Gen.relative_angle_loop1, Conv.downGe, ih, Conv.k]; first | done | rfl | congr
theorem relative_angle_loop2_eq (x : α) : ∀ n y, Gen.relative_angle_loop2 x n y = Conv.upLt x n y := by
  intro n; induction n with
  | zero => intro y; rfl
  | succ n ih => intro y; simp only [Gen.relative_angle_loop2, Conv.upLt, ih, Conv.k]; first | done | rfl | congr
theorem relative_angle_eq_model (fuel : Nat) (x y : α) : Gen.relative_angle fuel x y = Conv.relativeAngle fuel x y := by
  simp only [Gen.relative_angle, Conv.relativeAngle, relative_angle_loop1_eq, relative_angle_loop2_eq]

theorem inside_angle_range_loops_eq (s : α) :
    (∀ n y, Gen.inside_angle_range_loop1 s n y = Conv.downGt s n y) ∧
    (∀ n y, Gen.inside_angle_range_loop2 s n y = Conv.upLt s n y) ∧
    (∀ n y, Gen.inside_angle_range_loop3 s n y = Conv.downGe s n y) ∧
    (∀ n y, Gen.inside_angle_range_loop4 s n y = Conv.upLt s n y) := by
  refine ⟨?_, ?_, ?_, ?_⟩ <;> intro n <;> induction n with
  | zero => intro y; rfl
  | succ n ih =>
    intro y
    simp only [Gen.inside_angle_range_loop1, Gen.inside_angle_range_loop2, Gen.inside_angle_range_loop3,
      Gen.inside_angle_range_loop4, Conv.downGt, Conv.downGe, Conv.upLt, ih, Conv.k]
    first | done | rfl | congr
theorem inside_angle_range_eq_model (fuel : Nat) (x s e tol : α) :
    Gen.inside_angle_range fuel x s e tol = Conv.insideAngleRange fuel x s e tol := by
  have h := inside_angle_range_loops_eq (α := α)
  simp only [Gen.inside_angle_range, Conv.insideAngleRange, (h _).1, (h _).2.1, (h _).2.2.1, (h _).2.2.2]
end

theorem inside_angle_range_ds_loops_eq (s : Rat) :
    (∀ n y, Gen.inside_angle_range_ds_loop1 s n y = DS.decWhile true s n y) ∧
    (∀ n y, Gen.inside_angle_range_ds_loop2 s n y = DS.incWhile s n y) ∧
    (∀ n y, Gen.inside_angle_range_ds_loop3 s n y = DS.decWhile false s n y) ∧
    (∀ n y, Gen.inside_angle_range_ds_loop4 s n y = DS.incWhile s n y) := by
  refine ⟨?_, ?_, ?_, ?_⟩ <;> intro n <;> induction n with
  | zero => intro y; rfl
  | succ n ih =>
    intro y
    simp [Gen.inside_angle_range_ds_loop1, Gen.inside_angle_range_ds_loop2, Gen.inside_angle_range_ds_loop3,
      Gen.inside_angle_range_ds_loop4, DS.decWhile, DS.incWhile, DS.decCond, ih]
theorem inside_angle_range_ds_eq_model (x s e tol : Rat) :
    Gen.inside_angle_range_ds x s e tol = DS.insideAngleRange x s e tol := by
  have h := inside_angle_range_ds_loops_eq
  simp only [Gen.inside_angle_range_ds, DS.insideAngleRange, DS.normAngle, (h _).1, (h _).2.1, (h _).2.2.1, (h _).2.2.2]
  first | done | rfl | congr

/-! ### C13 — `inside_angle_range` against Model/Zone.lean at its exact instance (`Rat`): the model answers `none`
when the fuel runs out; wherever it answers, the translated function (which returns the current value) agrees -/

/-- a fuel loop that returns the current value when the fuel runs out agrees with the model's `whileLoop`
wherever the latter terminates -/
theorem zone_loop_agree (c : Rat → Bool) (st : Rat → Rat) (g : Nat → Rat → Rat)
    (h0 : ∀ y, g 0 y = y) (hs : ∀ n y, g (n + 1) y = if c y then g n (st y) else y) :
    ∀ n y r, Zone.whileLoop c st n y = some r → g n y = r := by
  intro n
  induction n with
  | zero =>
    intro y r h
    simp only [Zone.whileLoop] at h
    split at h
    · cases h
    · rw [h0]; exact Option.some.inj h
  | succ n ih =>
    intro y r h
    simp only [Zone.whileLoop] at h
    rw [hs]
    split at h
    · rename_i hc; simp only [hc, if_true]; exact ih _ _ h
    · rename_i hc; simp only [hc]; exact Option.some.inj h

theorem inside_angle_range_rat_loops_zone (s : Rat) :
    (∀ n y r, Zone.whileLoop (fun e => Zone.Scalar.lt s (Zone.Scalar.sub e (Zone.Scalar.ofNat 360)))
        (fun e => Zone.Scalar.sub e (Zone.Scalar.ofNat 360)) n y = some r → Gen.inside_angle_range_rat_loop1 s n y = r) ∧
    (∀ n y r, Zone.whileLoop (fun e => Zone.Scalar.lt e s) (fun e => Zone.Scalar.add e (Zone.Scalar.ofNat 360)) n y = some r →
        Gen.inside_angle_range_rat_loop2 s n y = r) ∧
    (∀ n y r, Zone.whileLoop (fun e => Zone.Scalar.le s (Zone.Scalar.sub e (Zone.Scalar.ofNat 360)))
        (fun e => Zone.Scalar.sub e (Zone.Scalar.ofNat 360)) n y = some r → Gen.inside_angle_range_rat_loop3 s n y = r) ∧
    (∀ n y r, Zone.whileLoop (fun e => Zone.Scalar.lt e s) (fun e => Zone.Scalar.add e (Zone.Scalar.ofNat 360)) n y = some r →
        Gen.inside_angle_range_rat_loop4 s n y = r) := by
  have c360 : (Zone.Scalar.ofNat 360 : Rat) = 360 := rfl
  refine ⟨?_, ?_, ?_, ?_⟩ <;> apply zone_loop_agree <;> intros <;>
    simp [Gen.inside_angle_range_rat_loop1, Gen.inside_angle_range_rat_loop2, Gen.inside_angle_range_rat_loop3,
      Gen.inside_angle_range_rat_loop4, Zone.Scalar.lt, Zone.Scalar.le, Zone.Scalar.sub, Zone.Scalar.add, c360]

theorem inside_angle_range_zone_eq_model (fuel : Nat) (x s e tol : Rat) (b : Bool)
    (h : Zone.insideAngleRange fuel x s e tol = some b) : Gen.inside_angle_range_rat fuel x s e tol = b := by
  simp only [Zone.insideAngleRange, Option.bind_eq_some_iff] at h
  obtain ⟨e1, h1, e2, h2, x1, h3, x2, h4, hb⟩ := h
  have L := inside_angle_range_rat_loops_zone
  have a1 := (L s).1 _ _ _ h1
  have a2 := (L s).2.1 _ _ _ h2
  have a3 := (L (Zone.Scalar.sub s tol)).2.2.1 _ _ _ h3
  have a4 := (L (Zone.Scalar.sub s tol)).2.2.2 _ _ _ h4
  have hsub : Zone.Scalar.sub s tol = s - tol := rfl
  simp only [hsub] at a3 a4
  simp only [Gen.inside_angle_range_rat, a1, a2, a3, a4]
  have := Option.some.inj hb
  simpa [Zone.Scalar.le, Zone.Scalar.add] using this

/-! ### C15 — timing fixes; C01 — `extent_mod`, the alpha/beta fade; C13 — channel-lock and zone constants/tests -/

theorem has_interpolationLength_eq_model (b : TimingFix.Block) :
    Gen.has_interpolationLength b.isObjects b.jp b.il = TimingFix.hasIL b := by
  simp only [Gen.has_interpolationLength, TimingFix.hasIL]
  cases b.il <;> cases b.isObjects <;> cases b.jp <;> simp

theorem check_duration_eq_model (i : Nat) (a b : TimingFix.Block) (ra old rb db : Rat)
    (h1 : a.rtime = some ra) (h2 : a.duration = some old) (h3 : b.rtime = some rb) (h4 : b.duration = some db) :
    ((TimingFix.fixDuration i a b).1.duration, (TimingFix.fixDuration i a b).1.il) =
      (some (Gen.check_duration ra old rb a.isObjects a.jp a.il).1, (Gen.check_duration ra old rb a.isObjects a.jp a.il).2) := by
  cases a with
  | mk rt du io jp il =>
    cases b with
    | mk brt bdu _ _ _ =>
      simp only at h1 h2 h3 h4
      subst h1 h2 h3 h4
      cases il <;> cases io <;> cases jp <;>
        simp [TimingFix.fixDuration, Gen.check_duration, TimingFix.hasIL] <;> grind

theorem clamp_end_eq_model (i : Nat) (D r d : Rat) (b : TimingFix.Block) (h : b.duration = some d) :
    (match TimingFix.clampEnd i D r d b with
      | .error _ => none
      | .ok p => some (p.1.duration, p.1.il)) =
      (Gen.clamp_end D r d b.isObjects b.jp b.il).map (fun q => (some q.1, q.2)) := by
  cases b with
  | mk rt du io jp il =>
    simp only at h
    subst h
    cases il <;> cases io <;> cases jp <;>
      simp [TimingFix.clampEnd, Gen.clamp_end, TimingFix.hasIL] <;> grind

section
variable {α : Type} [GainCalc.Scalar α]
theorem extent_mod_eq_model (extent distance : α) : Gen.extent_mod extent distance = GainCalc.extentMod extent distance := rfl
theorem fade_gains_eq_model (s : α) : Gen.fade_gains s = GainCalc.fadeGains s := rfl
end

/-- `tol = 1e-5`: the binary64 value of the literal is the model's `eps5`. -/
theorem lock_tol_eq_model : Gen.lock_tol = (Zone.Scalar.eps5 : Rat) := by first | rfl | decide
/-- `epsilon = 1e-6`: the binary64 value of the literal is the model's `eps6`. -/
theorem zone_epsilon_eq_model : Gen.zone_epsilon = (Zone.Scalar.eps6 : Rat) := by first | rfl | decide

theorem lock_possible_test_eq_model (tol : Rat) (maxD : Option Rat) (cands : List (Lock.Cand Rat)) :
    Lock.lockSelect tol maxD cands =
      (let possible := cands.filter fun c => Gen.lock_possible_test c.d tol maxD
       match possible with
       | [] => .unchanged
       | c0 :: cs =>
         let minDist := Lock.minList c0.dw (cs.map Lock.Cand.dw)
         match possible.filter fun (c : Lock.Cand Rat) => Zone.Scalar.lt c.dw (Zone.Scalar.add minDist tol) with
         | [] => .error
         | a :: as => .locked (Lock.argminPrio a as).idx) := by
  have ft : ∀ l : List (Lock.Cand Rat), l.filter (fun _ => true) = l := by
    intro l; induction l <;> simp_all
  have e : ∀ (c : Lock.Cand Rat) (m : Rat),
      Gen.lock_possible_test c.d tol (some m) = Zone.Scalar.lt c.d (Zone.Scalar.add m tol) := by
    intro c m
    first | rfl | (simp only [Gen.lock_possible_test, Zone.Scalar.lt, Zone.Scalar.add]; grind)
  have e0 : ∀ (c : Lock.Cand Rat), Gen.lock_possible_test c.d tol none = true := by
    intro c; rfl
  unfold Lock.lockSelect
  cases maxD <;> simp only [e, e0, ft] <;> grind

theorem lock_closest_test_eq_model (tol : Rat) (maxD : Option Rat) (cands : List (Lock.Cand Rat)) :
    Lock.lockSelect tol maxD cands =
      (let possible : List (Lock.Cand Rat) := match maxD with
         | some m => cands.filter fun (c : Lock.Cand Rat) => Zone.Scalar.lt c.d (Zone.Scalar.add m tol)
         | none => cands
       match possible with
       | [] => .unchanged
       | c0 :: cs =>
         let minDist := Lock.minList c0.dw (cs.map Lock.Cand.dw)
         match possible.filter fun (c : Lock.Cand Rat) => Gen.lock_closest_test c.dw minDist tol with
         | [] => .error
         | a :: as => .locked (Lock.argminPrio a as).idx) := by
  have e : ∀ (c : Lock.Cand Rat) (m : Rat),
      Gen.lock_closest_test c.dw m tol = Zone.Scalar.lt c.dw (Zone.Scalar.add m tol) := by
    intro c m
    first | rfl | (simp only [Gen.lock_closest_test, Zone.Scalar.lt, Zone.Scalar.add]; grind)
  unfold Lock.lockSelect
  simp only [e]
  grind

theorem zone_cart_test_eq_model (fuel : Nat) (minX maxX minY maxY minZ maxZ : Rat) (s : Zone.Spk Rat) :
    Zone.zoneMatch fuel (.cart minX maxX minY maxY minZ maxZ) s =
      some (Gen.zone_cart_test s.x s.y s.z Zone.Scalar.eps6 minX maxX minY maxY minZ maxZ) := by
  simp [Zone.zoneMatch, Gen.zone_cart_test, Zone.Scalar.lt, Zone.Scalar.sub, Zone.Scalar.add, and_assoc, Bool.and_assoc]
    <;> grind

theorem zone_polar_test_eq_model (fuel : Nat) (minAz maxAz minEl maxEl : Rat) (s : Zone.Spk Rat) :
    Zone.zoneMatch fuel (.polar minAz maxAz minEl maxEl) s =
      (Zone.insideAngleRange fuel s.az minAz maxAz Zone.Scalar.eps6).bind fun inside =>
        some (Gen.zone_polar_test s.el Zone.Scalar.eps6 minEl maxEl inside) := by
  have c90 : (Zone.Scalar.ofNat 90 : Rat) = 90 := rfl
  simp only [Zone.zoneMatch]
  congr 1
  funext inside
  simp [Gen.zone_polar_test, Zone.Scalar.lt, Zone.Scalar.sub, Zone.Scalar.add, Zone.Scalar.abs, c90] <;> grind

end Earverif.Kernels
