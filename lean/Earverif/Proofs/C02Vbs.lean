/-
`VariableBlockSizeAdapter.process` over any partition = delay by `block_size` + the block function on
aligned blocks.  Route: the loop = a per-sample machine (`step1`) folded over the block; the fold over
the concatenated stream has a closed form in terms of `blockwise`.
-/
import Earverif.Proofs.C02Delay
namespace Earverif.Stream

variable {σ α : Type}

/-- One sample through the adapter: emit `buffer[buffer_input]`, store the input there, flush through
`f` when the buffer is full of input. -/
def Vbs.step1 (f : σ → List α → σ × List α) (B : Nat) (st : Vbs σ α) (x : α) : Vbs σ α × List α :=
  let out := slice st.buffer st.buffer_input (st.buffer_input + 1)
  let buffer := setSlice st.buffer st.buffer_input [x]
  let bi := st.buffer_input + 1
  if bi = B then
    let r := f st.fstate buffer
    (⟨r.2, 0, r.1⟩, out)
  else (⟨buffer, bi, st.fstate⟩, out)

def Vbs.fold (f : σ → List α → σ × List α) (B : Nat) : Vbs σ α → List α → Vbs σ α × List α
  | st, [] => (st, [])
  | st, x :: xs =>
    let r := Vbs.step1 f B st x
    let r2 := Vbs.fold f B r.1 xs
    (r2.1, r.2 ++ r2.2)

/-- Adapter invariant. -/
def Vbs.WF (B : Nat) (st : Vbs σ α) : Prop := st.buffer.length = B ∧ st.buffer_input < B

theorem Vbs.fold_append (f : σ → List α → σ × List α) (B : Nat) : ∀ (a b : List α) (st : Vbs σ α),
    Vbs.fold f B st (a ++ b) =
      ((Vbs.fold f B (Vbs.fold f B st a).1 b).1, (Vbs.fold f B st a).2 ++ (Vbs.fold f B (Vbs.fold f B st a).1 b).2) := by
  intro a
  induction a with
  | nil => intro b st; simp [Vbs.fold]
  | cons x a ih => intro b st; simp only [List.cons_append, Vbs.fold, ih, List.append_assoc]

theorem slice_length (l : List α) (a b : Nat) (h : b ≤ l.length) : (slice l a b).length = b - a := by
  simp [slice]; omega

theorem getElem?_slice (l : List α) (a b i : Nat) :
    (slice l a b)[i]? = if a + i < b then l[a + i]? else none := by
  simp only [slice, List.getElem?_drop, List.getElem?_take]

/-- A run of samples that fits into the free part of the buffer = one slice transfer (one iteration
of the Python loop). -/
theorem Vbs.fold_chunk (f : σ → List α → σ × List α) (B : Nat) : ∀ (l : List α) (st : Vbs σ α),
    Vbs.WF B st → st.buffer_input + l.length ≤ B → l ≠ [] →
    Vbs.fold f B st l =
      (if st.buffer_input + l.length = B then
          ⟨(f st.fstate (setSlice st.buffer st.buffer_input l)).2, 0,
            (f st.fstate (setSlice st.buffer st.buffer_input l)).1⟩
        else ⟨setSlice st.buffer st.buffer_input l, st.buffer_input + l.length, st.fstate⟩,
       slice st.buffer st.buffer_input (st.buffer_input + l.length)) := by
  intro l
  induction l with
  | nil => intro st _ _ h; exact absurd rfl h
  | cons x l ih =>
    intro st hwf hfit _
    obtain ⟨hlen, hbi⟩ := hwf
    cases l with
    | nil =>
      simp only [Vbs.fold, Vbs.step1, List.length_singleton, List.append_nil]
      split <;> rfl
    | cons y l' =>
      simp only [List.length_cons] at hfit
      have hne : st.buffer_input + 1 ≠ B := by omega
      have hstep : Vbs.step1 f B st x =
          (⟨setSlice st.buffer st.buffer_input [x], st.buffer_input + 1, st.fstate⟩,
            slice st.buffer st.buffer_input (st.buffer_input + 1)) := by
        simp only [Vbs.step1, hne, if_false]
      have hwf1 : Vbs.WF B (⟨setSlice st.buffer st.buffer_input [x], st.buffer_input + 1, st.fstate⟩ : Vbs σ α) := by
        refine ⟨?_, by simp only; omega⟩
        simp only
        rw [setSlice_length _ _ _ (by simp; omega)]; exact hlen
      have := ih _ hwf1 (by simp only [List.length_cons]; omega) (by simp)
      rw [Vbs.fold, hstep]
      simp only [this]
      simp only [List.length_cons]
      have e1 : setSlice (setSlice st.buffer st.buffer_input [x]) (st.buffer_input + 1) (y :: l') =
          setSlice st.buffer st.buffer_input (x :: y :: l') := by
        apply List.ext_getElem?
        intro i
        grind [getElem?_setSlice, setSlice_length]
      have e2 : slice st.buffer st.buffer_input (st.buffer_input + 1) ++
          slice (setSlice st.buffer st.buffer_input [x]) (st.buffer_input + 1) (st.buffer_input + 1 + (l'.length + 1)) =
          slice st.buffer st.buffer_input (st.buffer_input + (l'.length + 1 + 1)) := by
        apply List.ext_getElem?
        intro i
        grind [getElem?_setSlice, setSlice_length, getElem?_slice, slice_length]
      rw [e1, e2]
      have e3 : st.buffer_input + 1 + (l'.length + 1) = st.buffer_input + (l'.length + 1 + 1) := by omega
      rw [e3]

theorem Vbs.step1_wf (f : σ → List α → σ × List α) (B : Nat) (hB : 1 ≤ B)
    (hf : ∀ s blk, blk.length = B → (f s blk).2.length = B) (st : Vbs σ α) (x : α) (h : Vbs.WF B st) :
    Vbs.WF B (Vbs.step1 f B st x).1 ∧ (Vbs.step1 f B st x).2.length = 1 := by
  obtain ⟨hlen, hbi⟩ := h
  have hl : (setSlice st.buffer st.buffer_input [x]).length = B := by
    rw [setSlice_length _ _ _ (by simp; omega)]; exact hlen
  constructor
  · unfold Vbs.step1
    by_cases hc : st.buffer_input + 1 = B
    · simp only [hc, if_true]
      exact ⟨hf _ _ hl, by simp only; omega⟩
    · simp only [hc, if_false]
      exact ⟨hl, by simp only; omega⟩
  · have : (slice st.buffer st.buffer_input (st.buffer_input + 1)).length = 1 := by
      rw [slice_length _ _ _ (by omega)]; omega
    simp only [Vbs.step1]
    split <;> exact this

theorem Vbs.fold_wf (f : σ → List α → σ × List α) (B : Nat) (hB : 1 ≤ B)
    (hf : ∀ s blk, blk.length = B → (f s blk).2.length = B) : ∀ (l : List α) (st : Vbs σ α), Vbs.WF B st →
    Vbs.WF B (Vbs.fold f B st l).1 ∧ (Vbs.fold f B st l).2.length = l.length := by
  intro l
  induction l with
  | nil => intro st h; exact ⟨h, rfl⟩
  | cons x l ih =>
    intro st h
    obtain ⟨h1, h2⟩ := Vbs.step1_wf f B hB hf st x h
    obtain ⟨h3, h4⟩ := ih _ h1
    simp only [Vbs.fold, List.length_append, List.length_cons]
    exact ⟨h3, by omega⟩

theorem setSlice_setSlice_adj (out : List α) (n : Nat) (a b : List α) (h : n + a.length + b.length ≤ out.length) :
    setSlice (setSlice out n a) (n + a.length) b = setSlice out n (a ++ b) := by
  apply List.ext_getElem?
  intro i
  have h1 : (setSlice out n a).length = out.length := setSlice_length _ _ _ (by omega)
  rw [getElem?_setSlice _ _ _ (by omega), getElem?_setSlice _ _ _ (by omega),
    getElem?_setSlice _ _ _ (by simp; omega)]
  simp only [List.length_append, List.getElem?_append]
  grind

theorem setSlice_nil (out : List α) (n : Nat) (h : n ≤ out.length) : setSlice out n [] = out := by
  simp [setSlice]

/-- The Python `while` loop = the per-sample fold over the rest of the block. -/
theorem Vbs.loop_eq_fold (f : σ → List α → σ × List α) (B : Nat) (hB : 1 ≤ B)
    (hf : ∀ s blk, blk.length = B → (f s blk).2.length = B) (inp : List α) :
    ∀ (fuel : Nat) (st : Vbs σ α) (nd : Nat) (out : List α), Vbs.WF B st → nd ≤ inp.length →
      inp.length - nd < fuel → out.length = inp.length →
      Vbs.loop f B inp fuel st nd out =
        ((Vbs.fold f B st (inp.drop nd)).1, setSlice out nd (Vbs.fold f B st (inp.drop nd)).2) := by
  intro fuel
  induction fuel with
  | zero => intro st nd out _ _ h; omega
  | succ fuel ih =>
    intro st nd out hwf hnd hfuel hout
    unfold Vbs.loop
    by_cases hlt : nd < inp.length
    · simp only [hlt, if_true]
      obtain ⟨hlen, hbi⟩ := hwf
      -- the chunk transferred in this iteration
      have hk1 : 1 ≤ min (inp.length - nd) (B - st.buffer_input) := by omega
      generalize hk : min (inp.length - nd) (B - st.buffer_input) = k at hk1
      have hkn : k ≤ inp.length - nd := by omega
      have hkb : st.buffer_input + k ≤ B := by omega
      have hsl : slice inp nd (nd + k) = (inp.drop nd).take k := by
        apply List.ext_getElem?
        intro i
        simp only [getElem?_slice, List.getElem?_take, List.getElem?_drop]
        grind
      have hsplit : inp.drop nd = (inp.drop nd).take k ++ inp.drop (nd + k) := by
        rw [← List.drop_drop, List.take_append_drop]
      have hcl : ((inp.drop nd).take k).length = k := by simp; omega
      have hchunk := Vbs.fold_chunk f B ((inp.drop nd).take k) st ⟨hlen, hbi⟩ (by omega)
        (by intro h; rw [h] at hcl; simp at hcl; omega)
      rw [hcl] at hchunk
      have hwf' := (Vbs.fold_wf f B hB hf ((inp.drop nd).take k) st ⟨hlen, hbi⟩)
      have hrest := fun st' (h : Vbs.WF B st') out' (ho : out'.length = inp.length) =>
        ih st' (nd + k) out' h (by omega) (by omega) ho
      rw [hsplit, Vbs.fold_append, hchunk]
      rw [hchunk] at hwf'
      have hol : (setSlice out nd (slice st.buffer st.buffer_input (st.buffer_input + k))).length = inp.length := by
        rw [setSlice_length _ _ _ (by rw [slice_length _ _ _ (by omega)]; omega)]; exact hout
      have hfl := (Vbs.fold_wf f B hB hf (inp.drop (nd + k))
        (if st.buffer_input + k = B then
          ⟨(f st.fstate (setSlice st.buffer st.buffer_input ((inp.drop nd).take k))).2, 0,
            (f st.fstate (setSlice st.buffer st.buffer_input ((inp.drop nd).take k))).1⟩
        else ⟨setSlice st.buffer st.buffer_input ((inp.drop nd).take k), st.buffer_input + k, st.fstate⟩)
        hwf'.1).2
      have hadj := setSlice_setSlice_adj out nd (slice st.buffer st.buffer_input (st.buffer_input + k))
        (Vbs.fold f B (if st.buffer_input + k = B then
          ⟨(f st.fstate (setSlice st.buffer st.buffer_input ((inp.drop nd).take k))).2, 0,
            (f st.fstate (setSlice st.buffer st.buffer_input ((inp.drop nd).take k))).1⟩
        else ⟨setSlice st.buffer st.buffer_input ((inp.drop nd).take k), st.buffer_input + k, st.fstate⟩)
          (inp.drop (nd + k))).2
        (by rw [hfl, slice_length _ _ _ (by omega)]; simp only [List.length_drop]; omega)
      rw [slice_length _ _ _ (by omega)] at hadj
      have e4 : st.buffer_input + k - st.buffer_input = k := by omega
      rw [e4] at hadj
      rw [hsl]
      by_cases hc : st.buffer_input + k = B
      · rw [if_pos hc] at hwf' hadj ⊢
        rw [if_pos hc, hrest _ hwf'.1 _ hol, hadj]
      · rw [if_neg hc] at hwf' hadj ⊢
        rw [if_neg hc, hrest _ hwf'.1 _ hol, hadj]
    · simp only [hlt, if_false]
      have : inp.drop nd = [] := List.drop_eq_nil_of_le (by omega)
      rw [this]
      simp only [Vbs.fold, setSlice_nil out nd (by omega)]

/-- `VariableBlockSizeAdapter.process` on one block = the per-sample fold. -/
theorem Vbs.process_eq_fold (f : σ → List α → σ × List α) (B : Nat) (z : α) (hB : 1 ≤ B)
    (hf : ∀ s blk, blk.length = B → (f s blk).2.length = B) (st : Vbs σ α) (hwf : Vbs.WF B st) (inp : List α) :
    Vbs.process f B z st inp = Vbs.fold f B st inp := by
  unfold Vbs.process
  rw [Vbs.loop_eq_fold f B hB hf inp _ st 0 _ hwf (Nat.zero_le _) (by omega) (by simp)]
  simp only [List.drop_zero]
  have hl := (Vbs.fold_wf f B hB hf inp st hwf).2
  apply Prod.ext
  · rfl
  · simp only [setSlice, List.take_zero, List.nil_append, Nat.zero_add, hl]
    rw [List.drop_eq_nil_of_le (by simp)]; simp

/-- Any partition: the calls return what the per-sample fold over the concatenated input returns
(partition independence of the adapter), call by call as many samples as were passed in. -/
theorem Vbs.run_eq_fold (f : σ → List α → σ × List α) (B : Nat) (z : α) (hB : 1 ≤ B)
    (hf : ∀ s blk, blk.length = B → (f s blk).2.length = B) : ∀ (parts : List (List α)) (st : Vbs σ α),
    Vbs.WF B st →
    (Vbs.run f B z st parts).1.flatten = (Vbs.fold f B st parts.flatten).2 ∧
    (Vbs.run f B z st parts).2 = (Vbs.fold f B st parts.flatten).1 ∧
    (Vbs.run f B z st parts).1.map List.length = parts.map List.length := by
  intro parts
  induction parts with
  | nil => intro st _; simp [Vbs.run, Vbs.fold]
  | cons b bs ih =>
    intro st hwf
    have hw := Vbs.fold_wf f B hB hf b st hwf
    obtain ⟨h1, h2, h3⟩ := ih _ hw.1
    simp only [Vbs.run, Vbs.process_eq_fold f B z hB hf st hwf, List.flatten_cons, Vbs.fold_append,
      List.map_cons, h1, h2, h3, hw.2]
    exact ⟨trivial, trivial, trivial⟩

/-- `f` applied to the consecutive full `B`-blocks of `x`, threading its state; a trailing partial
block is not processed.  Final state and concatenated outputs. -/
def blockwise (f : σ → List α → σ × List α) (B : Nat) : Nat → σ → List α → σ × List α
  | 0, s, _ => (s, [])
  | fuel + 1, s, x =>
    if B ≤ x.length then
      let r := f s (x.take B)
      let r2 := blockwise f B fuel r.1 (x.drop B)
      (r2.1, r.2 ++ r2.2)
    else (s, [])

/-- Closed form of the per-sample fold from an aligned state. -/
theorem Vbs.fold_eq_blockwise (f : σ → List α → σ × List α) (B : Nat) (hB : 1 ≤ B)
    (hf : ∀ s blk, blk.length = B → (f s blk).2.length = B) :
    ∀ (fuel : Nat) (x : List α) (st : Vbs σ α), Vbs.WF B st → st.buffer_input = 0 → x.length < fuel →
      (Vbs.fold f B st x).2 = (st.buffer ++ (blockwise f B fuel st.fstate x).2).take x.length := by
  intro fuel
  induction fuel with
  | zero => intro x st _ _ h; omega
  | succ fuel ih =>
    intro x st hwf h0 hfuel
    obtain ⟨hlen, hbi⟩ := hwf
    unfold blockwise
    by_cases hx : B ≤ x.length
    · simp only [hx, if_true]
      have hsplit : x = x.take B ++ x.drop B := (List.take_append_drop B x).symm
      have htl : (x.take B).length = B := by simp; omega
      have hchunk := Vbs.fold_chunk f B (x.take B) st ⟨hlen, hbi⟩ (by omega)
        (by intro h; rw [h] at htl; simp at htl; omega)
      rw [h0, htl] at hchunk
      simp only [Nat.zero_add, if_true] at hchunk
      have hss : setSlice st.buffer 0 (x.take B) = x.take B := by
        simp only [setSlice, List.take_zero, List.nil_append, Nat.zero_add, htl]
        rw [List.drop_eq_nil_of_le (by omega)]; simp
      have hsl : slice st.buffer 0 B = st.buffer := by
        simp only [slice, List.drop_zero]; exact List.take_of_length_le (by omega)
      rw [hss, hsl] at hchunk
      conv => lhs; rw [hsplit, Vbs.fold_append, hchunk]
      simp only
      have hwf' : Vbs.WF B (⟨(f st.fstate (x.take B)).2, 0, (f st.fstate (x.take B)).1⟩ : Vbs σ α) :=
        ⟨hf _ _ htl, by simp only; omega⟩
      rw [ih (x.drop B) _ hwf' rfl (by simp only [List.length_drop]; omega)]
      simp only [List.length_drop]
      rw [List.take_append (l₁ := st.buffer), hlen]
      have : List.take x.length st.buffer = st.buffer := List.take_of_length_le (by omega)
      rw [this]
    · simp only [hx, if_false, List.append_nil]
      by_cases hnil : x = []
      · subst hnil; simp [Vbs.fold]
      · have hchunk := Vbs.fold_chunk f B x st ⟨hlen, hbi⟩ (by omega) hnil
        rw [hchunk]
        simp only [h0, Nat.zero_add, slice, List.drop_zero]

/-- **`vbs_eq`** — the adapter over ANY partition of the input = delay by `block_size` (the buffer
produced by the constructor's call on a zero block) followed by the block function on aligned blocks;
every call returns as many samples as it was given. -/
theorem vbs_eq (f : σ → List α → σ × List α) (B : Nat) (z : α) (s0 : σ) (hB : 1 ≤ B)
    (hf : ∀ s blk, blk.length = B → (f s blk).2.length = B) (parts : List (List α)) :
    (Vbs.run f B z (Vbs.init f B z s0) parts).1.flatten =
      ((Vbs.init f B z s0).buffer ++
        (blockwise f B (parts.flatten.length + 1) (Vbs.init f B z s0).fstate parts.flatten).2).take
          parts.flatten.length ∧
    (Vbs.run f B z (Vbs.init f B z s0) parts).1.map List.length = parts.map List.length := by
  have hwf : Vbs.WF B (Vbs.init f B z s0) := by
    refine ⟨?_, by simp only [Vbs.init]; omega⟩
    simp only [Vbs.init]
    exact hf _ _ (by simp)
  obtain ⟨h1, _, h3⟩ := Vbs.run_eq_fold f B z hB hf parts _ hwf
  refine ⟨?_, h3⟩
  rw [h1]
  exact Vbs.fold_eq_blockwise f B hB hf _ _ _ hwf rfl (Nat.lt_succ_self _)

end Earverif.Stream
