/- C01: the C05 point-source panner, walked over its regenerated table (`pspHandle`), never answers a direction of
   length > 1/2 with the all-zero vector (`pspHandle_hasPos`), so that its answer has unit power
   (`pspHandle_unit`): the hypothesis "the result is not the zero vector" of `pspHandle_contract` is discharged for
   every position `polarPointPan` visits (`polarPoint_far`: the point-only regime implies distance > 1/2).

   Why a length bound and not just `pos ≠ 0`: `Triplet.handle` accepts on the ABSOLUTE threshold `pv ≥ -1e-11`, so a
   direction of length 1e-12 pointing away from a triplet is accepted by it and clipped to the zero vector
   (numpy: 0/‖·‖ then clip; the result is exactly zero, no NaN).  For ‖pos‖ > 1/2 an accepted direction has a strictly
   positive un-normalised gain: `pos = pv · P` with `|P_ij| ≤ 2` and `-1e-11 ≤ pv_i ≤ 0` would give ‖pos‖ ≤ 1.1e-10.

   Table obligation (`pspNzOk`, decided by the kernel on the regenerated `Gen/C05_Tables.lean` in Props/C01.lean):
   every Triplet and every inner triplet of a VirtualNgon has a non-zero determinant and coordinates in [-2, 2]
   (exact rational arithmetic on the binary64 values). -/
import Earverif.Proofs.C01Psp

namespace Earverif.GainCalc
open Earverif.PointSource (RawLayout RawRegion Region Vec3 Mat3 F2 P3)

/-! ### a strictly positive entry -/

/-- some entry is strictly positive -/
def HasPos (v : List ℝ) : Prop := ∃ x ∈ v, 0 < x

theorem HasPos.ne_zero {v : List ℝ} (h : HasPos v) : ∃ x ∈ v, x ≠ 0 := by
  obtain ⟨x, hx, h0⟩ := h
  exact ⟨x, hx, h0.ne'⟩

theorem sumsq_pos_of_hasPos : ∀ {v : List ℝ}, HasPos v → 0 < PointSource.sumsq v
  | [], h => by obtain ⟨x, hx, _⟩ := h; simp at hx
  | y :: ys, h => by
    obtain ⟨x, hx, h0⟩ := h
    have hn := PointSource.sumsq_nonneg ys
    simp only [PointSource.sumsq]
    rcases List.mem_cons.mp hx with rfl | hx
    · nlinarith [mul_pos h0 h0]
    · have := sumsq_pos_of_hasPos (v := ys) ⟨x, hx, h0⟩
      nlinarith [mul_self_nonneg y]

theorem normalise_hasPos {v : List ℝ} (h : HasPos v) : HasPos (PointSource.normalise v) := by
  have hs := sumsq_pos_of_hasPos h
  obtain ⟨x, hx, h0⟩ := h
  refine ⟨x / PointSource.norm v, ?_, ?_⟩
  · simp only [PointSource.normalise, List.mem_map]
    exact ⟨x, hx, rfl⟩
  · apply div_pos h0
    simp only [PointSource.norm, PointSource.sqrt_real]
    exact Real.sqrt_pos.mpr hs

/-! ### `scatter` with distinct in-range indices -/

theorem allDistinct_cons {i : Nat} {is : List Nat} (h : PointSource.allDistinct (i :: is) = true) :
    i ∉ is ∧ PointSource.allDistinct is = true := by
  simp only [PointSource.allDistinct, Bool.and_eq_true, Bool.not_eq_true', List.contains_eq_mem,
    decide_eq_false_iff_not] at h
  exact h

theorem length_scatter' : ∀ (idx : List Nat) (vals out : List ℝ), (PointSource.scatter out idx vals).length = out.length
  | [], _, _ => by simp [PointSource.scatter]
  | _ :: _, [], _ => by simp [PointSource.scatter]
  | i :: is, v :: vs, out => by
    simp only [PointSource.scatter]
    rw [length_scatter' is vs _, List.length_set]

theorem scatter_getElem_not_mem : ∀ (idx : List Nat) (vals out : List ℝ) (j : Nat), j ∉ idx →
    (PointSource.scatter out idx vals)[j]? = out[j]?
  | [], _, _, _, _ => by simp [PointSource.scatter]
  | _ :: _, [], _, _, _ => by simp [PointSource.scatter]
  | i :: is, v :: vs, out, j, h => by
    simp only [List.mem_cons, not_or] at h
    simp only [PointSource.scatter]
    rw [scatter_getElem_not_mem is vs _ j h.2, List.getElem?_set_ne (Ne.symm h.1)]

/-- `out[idx] = vals` with distinct in-range indices: slot `idx[k]` holds `vals[k]` -/
theorem scatter_getElem : ∀ (idx : List Nat) (vals out : List ℝ), PointSource.allDistinct idx = true →
    (∀ i ∈ idx, i < out.length) → ∀ (k : Nat) (i : Nat) (x : ℝ), idx[k]? = some i → vals[k]? = some x →
    (PointSource.scatter out idx vals)[i]? = some x
  | [], _, _, _, _, k, i, x, hi, _ => by simp at hi
  | _ :: _, [], _, _, _, k, i, x, _, hx => by simp at hx
  | i0 :: is, v :: vs, out, hd, hr, k, i, x, hi, hx => by
    obtain ⟨hni, hd'⟩ := allDistinct_cons hd
    simp only [PointSource.scatter]
    cases k with
    | zero =>
      simp only [List.getElem?_cons_zero, Option.some.injEq] at hi hx
      subst hi; subst hx
      rw [scatter_getElem_not_mem is vs _ i0 hni, List.getElem?_set_self (hr i0 (by simp))]
    | succ k =>
      simp only [List.getElem?_cons_succ] at hi hx
      exact scatter_getElem is vs _ hd' (fun j hj => by rw [List.length_set]; exact hr j (by simp [hj])) k i x hi hx

theorem scatter_hasPos (idx : List Nat) (vals out : List ℝ) (hd : PointSource.allDistinct idx = true)
    (hr : ∀ i ∈ idx, i < out.length) (hl : vals.length = idx.length) (h : HasPos vals) :
    HasPos (PointSource.scatter out idx vals) := by
  obtain ⟨x, hx, h0⟩ := h
  obtain ⟨k, hk, hxk⟩ := List.getElem_of_mem hx
  have hki : k < idx.length := hl ▸ hk
  have := scatter_getElem idx vals out hd hr k idx[k] x (List.getElem?_eq_getElem hki)
    (by rw [List.getElem?_eq_getElem hk, hxk])
  exact ⟨x, List.mem_of_getElem? this, h0⟩

/-! ### Triplet: an accepted direction of length > 1/2 gets a strictly positive gain -/

/-- `pv · P = p` for an invertible position matrix -/
theorem vecMat_pv (P : Mat3 ℝ) (hd : PointSource.det3 P ≠ 0) (p : Vec3 ℝ) :
    PointSource.vecMat (PointSource.Triplet.pv P p) P = p := by
  obtain ⟨⟨a0, a1, a2⟩, ⟨b0, b1, b2⟩, ⟨c0, c1, c2⟩⟩ := P
  obtain ⟨p0, p1, p2⟩ := p
  simp only [PointSource.det3] at hd
  simp only [PointSource.Triplet.pv, PointSource.vecMat, PointSource.inv3, PointSource.det3]
  generalize hdef : (a0 * (b1 * c2 - b2 * c1) - a1 * (b0 * c2 - b2 * c0) + a2 * (b0 * c1 - b1 * c0)) = d at hd ⊢
  refine Prod.ext ?_ (Prod.ext ?_ ?_) <;> simp only <;> field_simp <;> rw [← hdef] <;> ring

/-- every coordinate of the three positions lies in [-2, 2] -/
def MatBounded (P : Mat3 ℝ) : Prop :=
  (|P.1.1| ≤ 2 ∧ |P.1.2.1| ≤ 2 ∧ |P.1.2.2| ≤ 2) ∧ (|P.2.1.1| ≤ 2 ∧ |P.2.1.2.1| ≤ 2 ∧ |P.2.1.2.2| ≤ 2) ∧
  (|P.2.2.1| ≤ 2 ∧ |P.2.2.2.1| ≤ 2 ∧ |P.2.2.2.2| ≤ 2)

theorem small_comb (e v1 v2 v3 x1 x2 x3 : ℝ) (he : 0 ≤ e) (h1 : -e ≤ v1 ∧ v1 ≤ 0) (h2 : -e ≤ v2 ∧ v2 ≤ 0)
    (h3 : -e ≤ v3 ∧ v3 ≤ 0) (b1 : |x1| ≤ 2) (b2 : |x2| ≤ 2) (b3 : |x3| ≤ 2) :
    (v1 * x1 + v2 * x2 + v3 * x3) * (v1 * x1 + v2 * x2 + v3 * x3) ≤ 36 * (e * e) := by
  have t : ∀ v x : ℝ, -e ≤ v ∧ v ≤ 0 → |x| ≤ 2 → |v * x| ≤ 2 * e := by
    intro v x hv hx
    rw [abs_mul]
    have : |v| ≤ e := abs_le.mpr ⟨hv.1, by linarith⟩
    calc |v| * |x| ≤ e * 2 := mul_le_mul this hx (abs_nonneg _) he
      _ = 2 * e := by ring
  have hs : |v1 * x1 + v2 * x2 + v3 * x3| ≤ 6 * e := by
    have a1 := abs_add_le (v1 * x1 + v2 * x2) (v3 * x3)
    have a2 := abs_add_le (v1 * x1) (v2 * x2)
    linarith [t v1 x1 h1 b1, t v2 x2 h2 b2, t v3 x3 h3 b3]
  rw [← abs_mul_abs_self]
  calc |v1 * x1 + v2 * x2 + v3 * x3| * |v1 * x1 + v2 * x2 + v3 * x3| ≤ 6 * e * (6 * e) :=
        mul_le_mul hs hs (abs_nonneg _) (by linarith)
    _ = 36 * (e * e) := by ring

theorem clip01_pos {x : ℝ} (h : 0 < x) : 0 < PointSource.clip01 x := by
  simp only [PointSource.clip01, PointSource.min_real, PointSource.max_real, PointSource.zero_real,
    PointSource.one_real]
  exact lt_min (lt_max_of_lt_left h) one_pos

/-- **Triplet**: invertible, coordinates in [-2, 2], direction longer than 1/2: an accepted direction gets a strictly
    positive gain (the absolute acceptance threshold 1e-11 cannot hide a direction of that length) -/
theorem triplet_gain_pos (P : Mat3 ℝ) (hd : PointSource.det3 P ≠ 0) (hB : MatBounded P) (p g : Vec3 ℝ)
    (hp : 1 / 4 < p.1 * p.1 + p.2.1 * p.2.1 + p.2.2 * p.2.2) (h : PointSource.Triplet.handle P p = some g) :
    HasPos (PointSource.vecList g) := by
  unfold PointSource.Triplet.handle at h
  split at h
  · rename_i hacc
    simp only [Option.some.injEq] at h
    subst h
    have hvp := vecMat_pv P hd p
    simp only [PointSource.Triplet.accepts, PointSource.tripletEps_real] at hacc
    simp only [PointSource.Triplet.gains, PointSource.sqrt_real, PointSource.vecList]
    revert hacc hvp
    generalize PointSource.Triplet.pv P p = v
    obtain ⟨v1, v2, v3⟩ := v
    obtain ⟨⟨a0, a1, a2⟩, ⟨b0, b1, b2⟩, ⟨c0, c1, c2⟩⟩ := P
    obtain ⟨p0, p1, p2⟩ := p
    obtain ⟨⟨ha0, ha1, ha2⟩, ⟨hb0, hb1, hb2⟩, ⟨hc0, hc1, hc2⟩⟩ := hB
    intro hvp hacc
    simp only at hacc hp ha0 ha1 ha2 hb0 hb1 hb2 hc0 hc1 hc2 ⊢
    simp only [PointSource.vecMat, Prod.mk.injEq] at hvp
    obtain ⟨e0, e1, e2⟩ := hvp
    -- some un-normalised gain is strictly positive
    have hpos : 0 < v1 ∨ 0 < v2 ∨ 0 < v3 := by
      by_contra hcon
      simp only [not_or, not_lt] at hcon
      obtain ⟨n1, n2, n3⟩ := hcon
      have he : (0 : ℝ) ≤ 1 / 100000000000 := by norm_num
      have q0 := small_comb _ v1 v2 v3 a0 b0 c0 he ⟨hacc.1, n1⟩ ⟨hacc.2.1, n2⟩ ⟨hacc.2.2, n3⟩ ha0 hb0 hc0
      have q1 := small_comb _ v1 v2 v3 a1 b1 c1 he ⟨hacc.1, n1⟩ ⟨hacc.2.1, n2⟩ ⟨hacc.2.2, n3⟩ ha1 hb1 hc1
      have q2 := small_comb _ v1 v2 v3 a2 b2 c2 he ⟨hacc.1, n1⟩ ⟨hacc.2.1, n2⟩ ⟨hacc.2.2, n3⟩ ha2 hb2 hc2
      rw [e0] at q0; rw [e1] at q1; rw [e2] at q2
      norm_num at q0 q1 q2
      linarith
    have hs : 0 < v1 * v1 + v2 * v2 + v3 * v3 := by
      rcases hpos with h | h | h <;> nlinarith [mul_pos h h, mul_self_nonneg v1, mul_self_nonneg v2, mul_self_nonneg v3]
    have hn := Real.sqrt_pos.mpr hs
    rcases hpos with h | h | h
    · exact ⟨_, by simp, clip01_pos (div_pos h hn)⟩
    · exact ⟨_, by simp, clip01_pos (div_pos h hn)⟩
    · exact ⟨_, by simp, clip01_pos (div_pos h hn)⟩
  · simp at h

/-! ### VirtualNgon, QuadRegion -/

theorem hasPos_of_sumsq_pos : ∀ {v : List ℝ}, (∀ x ∈ v, 0 ≤ x) → 0 < PointSource.sumsq v → HasPos v
  | [], _, h => by simp [PointSource.sumsq] at h
  | y :: ys, hn, h => by
    by_cases hy : 0 < y
    · exact ⟨y, by simp, hy⟩
    · have hy0 : y = 0 := le_antisymm (not_lt.mp hy) (hn y (by simp))
      simp only [PointSource.sumsq, hy0, mul_zero, zero_add] at h
      obtain ⟨x, hx, h0⟩ := hasPos_of_sumsq_pos (v := ys) (fun x hx => hn x (by simp [hx])) h
      exact ⟨x, by simp [hx], h0⟩

/-- one fan triangle of a VirtualNgon: the inner triplet's answer (some gain strictly positive), written to slots
    `oi ≠ oj < n` and `n` (the virtual centre), then `pv[:-1] += pv[-1] * centre_downmix` with positive coefficients and
    the normalisation: some entry stays strictly positive -/
theorem ngon_cand_hasPos (cd : List ℝ) (hcd : ∀ d ∈ cd, 0 < d) (oi oj : Nat) (hoi : oi < cd.length)
    (hoj : oj < cd.length) (hne : oi ≠ oj) (gv : Vec3 ℝ) (hg : HasPos (PointSource.vecList gv))
    (hgn : ∀ x ∈ PointSource.vecList gv, 0 ≤ x) :
    HasPos (PointSource.VirtualNgon.mix cd
      (PointSource.scatter (PointSource.zeros (cd.length + 1)) [oi, oj, cd.length] (PointSource.vecList gv))) := by
  obtain ⟨a, b, c⟩ := gv
  simp only [PointSource.vecList] at hg hgn ⊢
  have ha : 0 ≤ a := hgn a (by simp)
  have hb : 0 ≤ b := hgn b (by simp)
  have hc : 0 ≤ c := hgn c (by simp)
  set n := cd.length with hn
  set pv := PointSource.scatter (PointSource.zeros (n + 1)) [oi, oj, n] [a, b, c] with hpv
  have hdist : PointSource.allDistinct [oi, oj, n] = true := by
    simp only [PointSource.allDistinct, List.contains_eq_mem, List.mem_cons, List.not_mem_nil, or_false,
      Bool.not_eq_true', Bool.and_eq_true, decide_eq_false_iff_not, Bool.and_true, not_or]
    exact ⟨⟨hne, by omega⟩, by omega, not_false⟩
  have hin : ∀ i ∈ [oi, oj, n], i < (PointSource.zeros (n + 1) : List ℝ).length := by
    intro i hi
    simp only [List.mem_cons, List.not_mem_nil, or_false] at hi
    simp only [PointSource.zeros, List.length_replicate]
    rcases hi with rfl | rfl | rfl <;> omega
  have e0 : pv[oi]? = some a := scatter_getElem _ _ _ hdist hin 0 oi a (by simp) (by simp)
  have e1 : pv[oj]? = some b := scatter_getElem _ _ _ hdist hin 1 oj b (by simp) (by simp)
  have e2 : pv[n]? = some c := scatter_getElem _ _ _ hdist hin 2 n c (by simp) (by simp)
  have hlast : pv.getD n PointSource.zero = c := by rw [List.getD_eq_getElem?_getD, e2]; rfl
  apply normalise_hasPos
  rw [hlast]
  have hcdi : ∃ di, cd[oi]? = some di ∧ 0 < di :=
    ⟨cd[oi], List.getElem?_eq_getElem hoi, hcd _ (List.getElem_mem hoi)⟩
  have hcdj : ∃ dj, cd[oj]? = some dj ∧ 0 < dj :=
    ⟨cd[oj], List.getElem?_eq_getElem hoj, hcd _ (List.getElem_mem hoj)⟩
  obtain ⟨di, hdi, hdi0⟩ := hcdi
  obtain ⟨dj, hdj, hdj0⟩ := hcdj
  have mi : (List.zipWith (fun x d => x + c * d) (pv.take n) cd)[oi]? = some (a + c * di) := by
    rw [List.getElem?_zipWith, List.getElem?_take, if_pos hoi, e0, hdi]
  have mj : (List.zipWith (fun x d => x + c * d) (pv.take n) cd)[oj]? = some (b + c * dj) := by
    rw [List.getElem?_zipWith, List.getElem?_take, if_pos hoj, e1, hdj]
  obtain ⟨x, hx, hx0⟩ := hg
  simp only [List.mem_cons, List.not_mem_nil, or_false] at hx
  rcases hx with rfl | rfl | rfl
  · exact ⟨_, List.mem_of_getElem? mi, by nlinarith [mul_nonneg hc hdi0.le]⟩
  · exact ⟨_, List.mem_of_getElem? mj, by nlinarith [mul_nonneg hc hdj0.le]⟩
  · exact ⟨_, List.mem_of_getElem? mj, by nlinarith [mul_pos hx0 hdj0]⟩

/-! ### the decidable table obligation (exact rational arithmetic on the binary64 table values) -/

abbrev Q3 := Rat × Rat × Rat

def q3 (v : P3) : Q3 := (PointSource.f2Rat v.1, PointSource.f2Rat v.2.1, PointSource.f2Rat v.2.2)

/-- the determinant of the matrix with rows `a b c` (same expansion as `PointSource.det3`) -/
def detQ (a b c : Q3) : Rat :=
  a.1 * (b.2.1 * c.2.2 - b.2.2 * c.2.1) - a.2.1 * (b.1 * c.2.2 - b.2.2 * c.1) + a.2.2 * (b.1 * c.2.1 - b.2.1 * c.1)

def boundedQ (a : Q3) : Bool :=
  decide (-2 ≤ a.1) && decide (a.1 ≤ 2) && decide (-2 ≤ a.2.1) && decide (a.2.1 ≤ 2) && decide (-2 ≤ a.2.2) &&
    decide (a.2.2 ≤ 2)

/-- an invertible triplet with coordinates in [-2, 2] -/
def tripOk (a b c : P3) : Bool :=
  (detQ (q3 a) (q3 b) (q3 c) != 0) && boundedQ (q3 a) && boundedQ (q3 b) && boundedQ (q3 c)

def zP3 : P3 := ((0, 0), (0, 0), (0, 0))

/-- Triplet: invertible and bounded.  VirtualNgon: every fan triangle `(order[i], order[i+1 mod n], centre)` has two
    distinct vertex slots `< n` and is invertible and bounded.  QuadRegion: nothing (its answer is normalised
    bilinear weights, `quad_nonneg_unit`). -/
def regionNzOk (r : RawRegion) : Bool :=
  match r.kind, r.pos with
  | 0, [a, b, c] => tripOk a b c
  | 1, _ =>
    let n := r.pos.length
    (List.range n).all fun i =>
      let oi := r.order.getD i 0
      let oj := r.order.getD ((i + 1) % n) 0
      decide (oi < n) && decide (oj < n) && (oi != oj) && tripOk (r.pos.getD oi zP3) (r.pos.getD oj zP3) r.centre
  | 2, _ => true
  | _, _ => false

/-- the table obligation of `pspHandle_hasPos` -/
def pspNzOk (L : RawLayout) : Bool := L.regions.all regionNzOk

theorem p3_real (v : P3) : (PointSource.p3 v : Vec3 ℝ) = (((q3 v).1 : ℝ), ((q3 v).2.1 : ℝ), ((q3 v).2.2 : ℝ)) := rfl

theorem det3_p3 (a b c : P3) :
    PointSource.det3 ((PointSource.p3 a : Vec3 ℝ), PointSource.p3 b, PointSource.p3 c) =
      ((detQ (q3 a) (q3 b) (q3 c) : ℚ) : ℝ) := by
  simp only [p3_real, PointSource.det3, detQ]
  push_cast
  ring

theorem abs_cast_le_two (q : ℚ) (h1 : -2 ≤ q) (h2 : q ≤ 2) : |(q : ℝ)| ≤ 2 := by
  rw [abs_le]
  exact ⟨by exact_mod_cast h1, by exact_mod_cast h2⟩

theorem tripOk_sound (a b c : P3) (h : tripOk a b c = true) :
    PointSource.det3 ((PointSource.p3 a : Vec3 ℝ), PointSource.p3 b, PointSource.p3 c) ≠ 0 ∧
    MatBounded ((PointSource.p3 a : Vec3 ℝ), PointSource.p3 b, PointSource.p3 c) := by
  simp only [tripOk, boundedQ, Bool.and_eq_true, bne_iff_ne, ne_eq, decide_eq_true_eq] at h
  obtain ⟨⟨⟨hd, ha⟩, hb⟩, hc⟩ := h
  constructor
  · rw [det3_p3]
    exact_mod_cast hd
  · simp only [MatBounded, p3_real]
    obtain ⟨⟨⟨⟨⟨a1, a2⟩, a3⟩, a4⟩, a5⟩, a6⟩ := ha
    obtain ⟨⟨⟨⟨⟨b1, b2⟩, b3⟩, b4⟩, b5⟩, b6⟩ := hb
    obtain ⟨⟨⟨⟨⟨c1, c2⟩, c3⟩, c4⟩, c5⟩, c6⟩ := hc
    exact ⟨⟨abs_cast_le_two _ a1 a2, abs_cast_le_two _ a3 a4, abs_cast_le_two _ a5 a6⟩,
      ⟨abs_cast_le_two _ b1 b2, abs_cast_le_two _ b3 b4, abs_cast_le_two _ b5 b6⟩,
      ⟨abs_cast_le_two _ c1 c2, abs_cast_le_two _ c3 c4, abs_cast_le_two _ c5 c6⟩⟩

theorem getD_map_p3 (l : List P3) (i : Nat) (hi : i < l.length) :
    (l.map (PointSource.p3 (α := ℝ))).getD i PointSource.zero3 = PointSource.p3 (l.getD i zP3) := by
  simp [List.getD_eq_getElem?_getD, hi]

/-! ### every region of a checked table answers a direction longer than 1/2 with a strictly positive gain -/

theorem length_normalise' (v : List ℝ) : (PointSource.normalise v).length = v.length := by
  simp [PointSource.normalise]

theorem length_mix (cd pv : List ℝ) (h : cd.length < pv.length) : (PointSource.VirtualNgon.mix cd pv).length = cd.length := by
  simp only [PointSource.VirtualNgon.mix, length_normalise', List.length_zipWith, List.length_take]
  omega

theorem region_hasPos (n : Nat) (raw : RawRegion) (hw : raw.wellFormed n = true) (hz : regionNzOk raw = true)
    (reg : Region ℝ) (hreg : raw.toRegion = some reg) (x y : Option ℝ) (hx : ∀ v, x = some v → 0 ≤ v ∧ v ≤ 1)
    (hy : ∀ v, y = some v → 0 ≤ v ∧ v ≤ 1) (p : Vec3 ℝ) (hp : 1 / 4 < p.1 * p.1 + p.2.1 * p.2.1 + p.2.2 * p.2.2)
    (g : List ℝ) (h : PointSource.remap reg.channels n (reg.handle (x, y) p) = some g) : HasPos g := by
  simp only [PointSource.remap, Option.map_eq_some_iff] at h
  obtain ⟨vals, hvals, rfl⟩ := h
  obtain ⟨kind, ch, posl, centre, cdm, order⟩ := raw
  simp only [RawRegion.wellFormed, Bool.and_eq_true, List.all_eq_true, decide_eq_true_eq, beq_iff_eq] at hw
  obtain ⟨⟨⟨hchr, hchd⟩, hpl⟩, hk⟩ := hw
  have hzl : ∀ i ∈ reg.channels, reg.channels = ch → i < (PointSource.zeros n : List ℝ).length := by
    intro i hi hc
    simp only [PointSource.zeros, List.length_replicate]
    exact hchr i (hc ▸ hi)
  rcases kind with _ | _ | _ | kind
  · -- Triplet
    rcases posl with _ | ⟨a, _ | ⟨b, _ | ⟨c, _ | ⟨d, rest⟩⟩⟩⟩ <;> simp only [RawRegion.toRegion] at hreg <;>
      first
      | (simp only [Option.some.injEq] at hreg
         subst hreg
         simp only [regionNzOk] at hz
         simp only [Region.handle, Option.map_eq_some_iff] at hvals
         obtain ⟨gv, hgv, rfl⟩ := hvals
         obtain ⟨hd, hB⟩ := tripOk_sound a b c hz
         have hk' : ch.length = 3 := by simpa using hk
         refine scatter_hasPos _ _ _ hchd (fun i hi => hzl i hi rfl) (by simp [PointSource.vecList, hk', Region.channels]) ?_
         exact triplet_gain_pos _ hd hB p gv hp hgv)
      | exact absurd hreg (by simp)
  · -- VirtualNgon
    simp only [RawRegion.toRegion, Option.some.injEq] at hreg
    subst hreg
    simp only [Bool.and_eq_true, decide_eq_true_eq, beq_iff_eq, List.all_eq_true] at hk
    obtain ⟨⟨⟨hk3, hcl⟩, _⟩, hcdp⟩ := hk
    simp only [Region.handle] at hvals
    have hcd : ∀ d ∈ cdm.map (PointSource.OfF2.ofF2 (α := ℝ)), 0 < d := by
      intro d hd
      simp only [List.mem_map] at hd
      obtain ⟨f, hf, rfl⟩ := hd
      exact ofF2_pos f (hcdp f hf)
    have hcdl : (cdm.map (PointSource.OfF2.ofF2 (α := ℝ))).length = posl.length := by
      simp only [List.length_map]; omega
    -- the chosen fan triangle
    unfold PointSource.VirtualNgon.handle at hvals
    have hm := PointSource.firstAccept_mem hvals
    simp only [List.mem_map] at hm
    obtain ⟨r, hr, hrv⟩ := hm
    cases ht : PointSource.Triplet.handle r.2 p with
    | none => simp [ht, PointSource.remap] at hrv
    | some gv =>
      simp only [ht, PointSource.remap, Option.map_some, Option.some.injEq] at hrv
      simp only [PointSource.VirtualNgon.regions, List.mem_map, List.mem_range, List.length_map] at hr
      obtain ⟨i, hi, rfl⟩ := hr
      simp only [regionNzOk, List.all_eq_true, List.mem_range, Bool.and_eq_true, decide_eq_true_eq, bne_iff_ne, ne_eq] at hz
      obtain ⟨⟨⟨hoi, hoj⟩, hne⟩, htri⟩ := hz i hi
      obtain ⟨hd, hB⟩ := tripOk_sound _ _ _ htri
      rw [← getD_map_p3 posl _ hoi, ← getD_map_p3 posl _ hoj] at hd hB
      simp only at ht hrv
      have hg := triplet_gain_pos _ hd hB p gv hp ht
      have hgn := PointSource.vecList_nonneg (PointSource.triplet_nonneg _ _ _ ht)
      have hcand := ngon_cand_hasPos _ hcd _ _ (hcdl ▸ hoi) (hcdl ▸ hoj) hne gv hg hgn
      rw [hcdl] at hcand hrv
      rw [hrv] at hcand
      refine scatter_hasPos _ _ _ hchd (fun j hj => hzl j hj rfl) ?_ hcand
      rw [← hrv, length_mix _ _ (by rw [length_scatter']; simp [PointSource.zeros]; omega)]
      simp only [Region.channels, List.length_map]
      omega
  · -- QuadRegion
    simp only [RawRegion.toRegion, Option.some.injEq] at hreg
    subst hreg
    simp only [Region.handle] at hvals
    simp only [Bool.and_eq_true, beq_iff_eq] at hk
    cases x with
    | none => simp [PointSource.QuadRegion.handle] at hvals
    | some xv =>
      cases y with
      | none => simp [PointSource.QuadRegion.handle] at hvals
      | some yv =>
        have hq := PointSource.quad_nonneg_unit _ p xv yv vals hk.2 (hx xv rfl).1 (hx xv rfl).2 (hy yv rfl).1
          (hy yv rfl).2 hvals
        refine scatter_hasPos _ _ _ hchd (fun j hj => hzl j hj rfl) ?_
          (hasPos_of_sumsq_pos hq.1 (by rw [hq.2]; exact one_pos))
        simp only [PointSource.QuadRegion.handle] at hvals
        split at hvals
        · simp at hvals
        · simp only [Option.some.injEq] at hvals
          subst hvals
          simp [length_normalise', length_scatter', PointSource.zeros, Region.channels, hk.1]
  · simp [RawRegion.toRegion] at hreg

/-! ### the downmix wrapper keeps a strictly positive entry -/

theorem dot_ge_term : ∀ (a b : List ℝ) (j : Nat) (s t : ℝ), (∀ x ∈ a, 0 ≤ x) → (∀ x ∈ b, 0 ≤ x) → a[j]? = some s →
    b[j]? = some t → s * t ≤ PointSource.dot a b
  | [], _, _, _, _, _, _, h, _ => by simp at h
  | _ :: _, [], _, _, _, _, _, _, h => by simp at h
  | x :: xs, y :: ys, j, s, t, ha, hb, hs, ht => by
    have hxy : 0 ≤ x * y := mul_nonneg (ha x (by simp)) (hb y (by simp))
    have hrest : 0 ≤ PointSource.dot xs ys :=
      PointSource.dot_nonneg (fun z hz => ha z (by simp [hz])) (fun z hz => hb z (by simp [hz]))
    simp only [PointSource.dot]
    cases j with
    | zero =>
      simp only [List.getElem?_cons_zero, Option.some.injEq] at hs ht
      subst hs; subst ht
      linarith
    | succ j =>
      simp only [List.getElem?_cons_succ] at hs ht
      have := dot_ge_term xs ys j s t (fun z hz => ha z (by simp [hz])) (fun z hz => hb z (by simp [hz])) hs ht
      linarith

/-- `downmixOk`: every inner channel (real or virtual) is mapped onto some real channel with a positive coefficient, so
    a non-negative inner vector with a strictly positive entry is not mapped to zero -/
theorem downmix_hasPos (L : RawLayout) (hd : L.downmixOk = true) (v : List ℝ) (hl : v.length = L.nInner)
    (hn : ∀ x ∈ v, 0 ≤ x) (h : HasPos v) : HasPos (PointSource.matVec (L.downmixRows : List (List ℝ)) v) := by
  obtain ⟨t, ht, ht0⟩ := h
  obtain ⟨j, hj, hjt⟩ := List.getElem_of_mem ht
  have hjI : j < L.nInner := hl ▸ hj
  have hall := hd
  simp only [RawLayout.downmixOk, Bool.and_eq_true, List.all_eq_true, decide_eq_true_eq, List.mem_range,
    Bool.or_eq_true, List.any_eq_true, beq_iff_eq] at hall
  obtain ⟨⟨⟨hle, hent⟩, hid⟩, hcol⟩ := hall
  -- an entry of column j
  have hex : ∃ e ∈ L.downmix, e.2.1 = j := by
    rcases hcol j hjI with hlt | ⟨e, he, hej⟩
    · obtain ⟨⟨e, he, hee⟩, _⟩ := hid j hlt
      exact ⟨e, he, hee.1.2⟩
    · exact ⟨e, he, hej⟩
  obtain ⟨e, he, hej⟩ := hex
  have hei : e.1 < L.nReal := (hent e he).1.1
  -- the (e.1, j) entry of the matrix is positive
  cases hf : L.downmix.find? (fun e' => e'.1 == e.1 && e'.2.1 == j) with
  | none =>
    have := List.find?_eq_none.mp hf e he
    simp [hej] at this
  | some e' =>
    have he' := List.mem_of_find?_eq_some hf
    have hpos : (0 : ℝ) < PointSource.OfF2.ofF2 e'.2.2 := ofF2_pos _ (hent e' he').2
    have hlen : e.1 < (L.downmixRows : List (List ℝ)).length := by simp [RawLayout.downmixRows, hei]
    have hmem : (L.downmixRows : List (List ℝ))[e.1] ∈ (L.downmixRows : List (List ℝ)) := List.getElem_mem hlen
    have hrj : ((L.downmixRows : List (List ℝ))[e.1])[j]? = some (PointSource.OfF2.ofF2 e'.2.2) := by
      simp [RawLayout.downmixRows, hjI, hf]
    have hrown := downmixRows_nonneg L hd _ hmem
    have hge := dot_ge_term _ v j _ t hrown hn hrj (by rw [List.getElem?_eq_getElem hj, hjt])
    refine ⟨PointSource.dot ((L.downmixRows : List (List ℝ))[e.1]) v, ?_, lt_of_lt_of_le (mul_pos hpos ht0) hge⟩
    simp only [PointSource.matVec, List.mem_map]
    exact ⟨_, hmem, rfl⟩

/-! ### the panner over its table -/

/-- the inner `PointSourcePanner` over the regions of a checked table, any root oracle with values in [0, 1]: a result
    for a direction longer than 1/2 is non-negative, has a strictly positive entry and length `nInner` -/
theorem panner_inner_spec (L : RawLayout) (hwf : L.wellFormed = true) (hz : pspNzOk L = true)
    (regions : List (Region ℝ)) (hmap : L.regions.mapM (RawRegion.toRegion (α := ℝ)) = some regions)
    (roots : Nat → Option ℝ × Option ℝ) (hr1 : ∀ k xv, (roots k).1 = some xv → 0 ≤ xv ∧ xv ≤ 1)
    (hr2 : ∀ k yv, (roots k).2 = some yv → 0 ≤ yv ∧ yv ≤ 1)
    (pos : V3 ℝ) (hpos : 1 / 4 < pos.1 * pos.1 + pos.2.1 * pos.2.1 + pos.2.2 * pos.2.2) (v : List ℝ)
    (hv : PointSource.PointSourcePanner.handle regions L.nInner roots pos = some v) :
    (∀ x ∈ v, 0 ≤ x) ∧ HasPos v ∧ v.length = L.nInner := by
  simp only [RawLayout.wellFormed, Bool.and_eq_true] at hwf
  obtain ⟨⟨⟨hregs, _⟩, _⟩, _⟩ := hwf
  refine PointSource.panner_inherits regions L.nInner _ pos
    (fun g => (∀ x ∈ g, 0 ≤ x) ∧ HasPos g ∧ g.length = L.nInner) ?_ v hv
  intro kk hk g hg
  obtain ⟨raw, hraw, hreg⟩ := mapM_some_mem _ L.regions regions hmap regions[kk] (List.getElem_mem hk)
  simp only [List.all_eq_true] at hregs
  simp only [pspNzOk, List.all_eq_true] at hz
  refine ⟨region_nonneg L.nInner raw (hregs raw hraw) regions[kk] hreg _ _ (hr1 kk) (hr2 kk) pos g hg,
    region_hasPos L.nInner raw (hregs raw hraw) (hz raw hraw) regions[kk] hreg _ _ (hr1 kk) (hr2 kk) pos hpos g hg, ?_⟩
  simp only [PointSource.remap, Option.map_eq_some_iff] at hg
  obtain ⟨vals, _, rfl⟩ := hg
  simp [length_scatter', PointSource.zeros]

/-- `PointSourcePannerDownmix` on such an inner result: non-negative, unit power, a strictly positive entry, length `nReal` -/
theorem downmixed_spec (L : RawLayout) (hdm : L.downmixOk = true) (v : List ℝ) (hn : ∀ x ∈ v, 0 ≤ x) (hp : HasPos v)
    (hl : v.length = L.nInner) :
    let w := PointSource.normalise (PointSource.matVec (L.downmixRows : List (List ℝ)) v)
    (∀ x ∈ w, 0 ≤ x) ∧ PointSource.sumsq w = 1 ∧ HasPos w ∧ w.length = L.nReal := by
  have hD := downmixRows_nonneg L hdm
  have hmp := downmix_hasPos L hdm v hl hn hp
  refine ⟨PointSource.normalise_nonneg (PointSource.matVec_nonneg hD hn),
    PointSource.sumsq_normalise (sumsq_pos_of_hasPos hmp).ne', normalise_hasPos hmp, ?_⟩
  simp [PointSource.normalise, PointSource.matVec, RawLayout.downmixRows]

/-- **The C05 panner never answers a direction longer than 1/2 with the zero vector** (layouts without the stereo
    wrapper, table obligations `wellFormed` and `pspNzOk`): whenever it returns a result, some gain is strictly
    positive. -/
theorem pspHandle_hasPos (L : RawLayout) (hwf : L.wellFormed = true) (hst : L.stereo = none) (hz : pspNzOk L = true)
    (pos : V3 ℝ) (hpos : 1 / 4 < pos.1 * pos.1 + pos.2.1 * pos.2.1 + pos.2.2 * pos.2.2) (p : List ℝ)
    (h : pspHandle L pos = some p) : HasPos p := by
  have hdm : L.downmixOk = true := by
    have := hwf
    simp only [RawLayout.wellFormed, Bool.and_eq_true] at this
    exact this.1.2
  simp only [pspHandle] at h
  split at h
  · exact absurd h (by simp)
  · rename_i regions hmap
    simp only [RawLayout.handle, hmap, hst] at h
    simp only [PointSource.PointSourcePannerDownmix.handle, Option.map_eq_some_iff] at h
    obtain ⟨v, hv, rfl⟩ := h
    have hQ : (∀ x ∈ v, 0 ≤ x) ∧ HasPos v ∧ v.length = L.nInner := by
      refine panner_inner_spec L hwf hz regions hmap _ ?_ ?_ pos hpos v hv
      · intro k xv hxv
        split at hxv
        · exact quadRoot_range _ xv (by simpa using hxv)
        · simp at hxv
      · intro k yv hyv
        split at hyv
        · exact quadRoot_range _ yv (by simpa using hyv)
        · simp at hyv
    exact (downmixed_spec L hdm v hQ.1 hQ.2.1 hQ.2.2).2.2.1

/-- **`pspHandle_contract` without the non-zero hypothesis**, for directions longer than 1/2 -/
theorem pspHandle_unit (L : RawLayout) (hwf : L.wellFormed = true) (hst : L.stereo = none) (hz : pspNzOk L = true)
    (pos : V3 ℝ) (hpos : 1 / 4 < pos.1 * pos.1 + pos.2.1 * pos.2.1 + pos.2.2 * pos.2.2) (p : List ℝ)
    (h : pspHandle L pos = some p) : p.length = L.nReal ∧ Nonneg p ∧ sumSq p = 1 :=
  pspHandle_contract L hwf hst pos p h (pspHandle_hasPos L hwf hst hz pos hpos p h).ne_zero

end Earverif.GainCalc
