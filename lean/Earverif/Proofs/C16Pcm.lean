/-
C16: error analysis of the decode/encode round trip of one sample code.
-/
import Earverif.Proofs.C16Ieee
import Earverif.Proofs.C16Table

namespace Earverif.Pcm
open Earverif.Ieee

/-- Positive code `c` that is not a power of two and lies below full scale `M = 2^k - 1`:
`c / M` lies in the binade `f - k` when `c` lies in the binade `f`, so the rounding error of
the division, multiplied by `M`, stays strictly below half a grid step of `c`'s binade and
the rounded product is `c` again. -/
theorem div_mul_pos (k f : ℕ) (c : ℤ) (hf52 : f ≤ 52) (hfk : f < k)
    (h1 : (2 : ℤ) ^ f < c) (h2 : c < (2 : ℤ) ^ (f + 1)) (hM : c < (2 : ℤ) ^ k - 1) :
    rn53 (rn53 ((c : ℚ) / (((2 : ℤ) ^ k - 1 : ℤ) : ℚ)) * (((2 : ℤ) ^ k - 1 : ℤ) : ℚ)) = c ∧
    0 < rn53 ((c : ℚ) / (((2 : ℤ) ^ k - 1 : ℤ) : ℚ)) ∧
    rn53 ((c : ℚ) / (((2 : ℤ) ^ k - 1 : ℤ) : ℚ)) < 1 := by
  generalize hMdef : (((2 : ℤ) ^ k - 1 : ℤ) : ℚ) = M
  set F : ℚ := (2 : ℚ) ^ f with hF
  set K : ℚ := (2 : ℚ) ^ k with hK
  have hFpos : 0 < F := by positivity
  have hKpos : 0 < K := by positivity
  have hF1 : 1 ≤ F := one_le_pow₀ (by norm_num)
  have hMK : M = K - 1 := by rw [← hMdef]; push_cast; rfl
  have hFK : 2 * F ≤ K := by
    have : (2 : ℚ) ^ (f + 1) ≤ (2 : ℚ) ^ k := pow_le_pow_right₀ (by norm_num) hfk
    rw [pow_succ] at this; linarith
  have hc1 : F + 1 ≤ c := by
    have : (2 : ℤ) ^ f + 1 ≤ c := h1
    have : (((2 : ℤ) ^ f + 1 : ℤ) : ℚ) ≤ (c : ℚ) := by exact_mod_cast this
    push_cast at this; exact this
  have hc2 : (c : ℚ) + 1 ≤ 2 * F := by
    have : c + 1 ≤ (2 : ℤ) ^ (f + 1) := h2
    have : ((c + 1 : ℤ) : ℚ) ≤ (((2 : ℤ) ^ (f + 1) : ℤ) : ℚ) := by exact_mod_cast this
    push_cast at this; rw [pow_succ] at this; linarith
  have hc3 : (c : ℚ) + 1 ≤ M := by
    have : c + 1 ≤ (2 : ℤ) ^ k - 1 := hM
    have : ((c + 1 : ℤ) : ℚ) ≤ (((2 : ℤ) ^ k - 1 : ℤ) : ℚ) := by exact_mod_cast this
    rw [hMdef] at this; push_cast at this; exact this
  have hMpos : 0 < M := by linarith
  have z1 : (2 : ℚ) ^ ((f : ℤ) - k) = F / K := by
    rw [zpow_sub₀ (by norm_num), zpow_natCast, zpow_natCast]
  have z2 : (2 : ℚ) ^ ((f : ℤ) - k + 1) = 2 * F / K := by
    rw [zpow_add₀ (by norm_num), z1, zpow_one]; ring
  have z3 : (2 : ℚ) ^ ((f : ℤ) - k - 52) = F / K / 2 ^ 52 := by
    rw [zpow_sub₀ (by norm_num), z1]; rfl
  have z4 : (2 : ℚ) ^ (f : ℤ) = F := by rw [zpow_natCast]
  have z5 : (2 : ℚ) ^ ((f : ℤ) + 1) = 2 * F := by
    rw [zpow_add₀ (by norm_num), z4, zpow_one]; ring
  have z6 : (2 : ℚ) ^ ((f : ℤ) - 52) = F / 2 ^ 52 := by
    rw [zpow_sub₀ (by norm_num), z4]; rfl
  -- the quotient and its binade
  set x : ℚ := (c : ℚ) / M with hx
  have hx1 : (2 : ℚ) ^ ((f : ℤ) - k) ≤ x := by
    rw [z1, hx, div_le_div_iff₀ hKpos hMpos]; nlinarith
  have hx2 : x < (2 : ℚ) ^ ((f : ℤ) - k + 1) := by
    rw [z2, hx, div_lt_div_iff₀ hMpos hKpos]
    rcases eq_or_lt_of_le hFK with h | h
    · nlinarith
    · nlinarith
  have hq := rn53_pos x _ hx1 hx2
  have herr := rnAt_err ((f : ℤ) - k) x
  rw [z3, ← hq] at herr
  set q : ℚ := rn53 x with hqdef
  -- the product
  have hy : |q * M - c| ≤ F / K / 2 ^ 52 / 2 * M := by
    have e : q * M - c = (q - x) * M := by rw [hx]; field_simp
    rw [e, abs_mul, abs_of_pos hMpos]
    exact mul_le_mul_of_nonneg_right herr hMpos.le
  have hy' : |q * M - c| < F / 2 ^ 53 := by
    refine lt_of_le_of_lt hy ?_
    have e : F / K / 2 ^ 52 / 2 * M = F / 2 ^ 53 * (M / K) := by field_simp
    rw [e]
    have hlt : M / K < 1 := by rw [div_lt_one hKpos]; linarith
    have hpos : 0 < F / 2 ^ 53 := by positivity
    nlinarith
  have hFle : F ≤ 2 ^ 52 := pow_le_pow_right₀ (by norm_num) hf52
  have hsmall : F / 2 ^ 53 ≤ 1 / 2 := by
    rw [div_le_iff₀ (by norm_num)]; linarith
  obtain ⟨yl, yr⟩ := abs_lt.mp hy'
  have hy1 : (2 : ℚ) ^ (f : ℤ) ≤ q * M := by rw [z4]; linarith
  have hy2 : q * M < (2 : ℚ) ^ ((f : ℤ) + 1) := by rw [z5]; linarith
  have hr := rn53_pos (q * M) f hy1 hy2
  have hpw : (2 : ℚ) ^ (52 - f) * F = 2 ^ 52 := by
    rw [hF, ← pow_add]; congr 1; omega
  have hN : ((c * (2 : ℤ) ^ (52 - f) : ℤ) : ℚ) * (2 : ℚ) ^ ((f : ℤ) - 52) = c := by
    push_cast; rw [z6]
    have : (c : ℚ) * 2 ^ (52 - f) * (F / 2 ^ 52) = c * ((2 : ℚ) ^ (52 - f) * F) / 2 ^ 52 := by ring
    rw [this, hpw]; field_simp
  have hs := rnAt_snap f (q * M) (c * (2 : ℤ) ^ (52 - f)) (by
    rw [hN, z6, abs_lt]
    have : F / 2 ^ 52 / 2 = F / 2 ^ 53 := by ring
    rw [this]; exact ⟨yl, yr⟩)
  refine ⟨by rw [hr, hs, hN], ?_, ?_⟩
  · have : 0 < q * M := by linarith
    exact (mul_pos_iff_of_pos_right hMpos).mp this
  · have : q * M < 1 * M := by linarith
    exact lt_of_mul_lt_mul_right this hMpos.le

/-! ### oddness and small facts -/

theorem truncZ_int (n : ℤ) : truncZ (n : ℚ) = n := by
  unfold truncZ
  split_ifs with h
  · rw [floor_eq, Int.floor_intCast]
  · rw [← Int.cast_neg, floor_eq, Int.floor_intCast, neg_neg]

theorem truncZ_neg (x : ℚ) : truncZ (-x) = -truncZ x := by
  unfold truncZ
  rcases lt_trichotomy x 0 with h | h | h
  · have a : (0 : ℚ) ≤ -x := by linarith
    have b : ¬ (0 : ℚ) ≤ x := by linarith
    rw [if_pos a, if_neg b, neg_neg]
  · subst h
    have : Rat.floor 0 = 0 := by rw [floor_eq]; exact Int.floor_zero
    simp [this]
  · have a : ¬ (0 : ℚ) ≤ -x := by linarith
    have b : (0 : ℚ) ≤ x := by linarith
    rw [if_neg a, if_pos b, neg_neg]

theorem clip_neg (x : ℚ) : clip (-x) = -clip x := by
  unfold clip
  split_ifs <;> first | rfl | (exfalso; linarith)

theorem clip_id (x : ℚ) (h1 : -1 ≤ x) (h2 : x ≤ 1) : clip x = x := by
  unfold clip
  rw [if_neg (by linarith), if_neg (by linarith)]

theorem decode_neg (b : ℕ) (c : ℤ) : decode b (-c) = -decode b c := by
  unfold decode
  rw [Int.cast_neg, neg_div, rn53_neg]

theorem encode_neg (b : ℕ) (x : ℚ) : encode b (-x) = -encode b x := by
  unfold encode
  rw [clip_neg, neg_mul, rn53_neg, truncZ_neg]

theorem encode_decode_neg (b : ℕ) (c : ℤ) :
    encode b (decode b (-c)) = -encode b (decode b c) := by
  rw [decode_neg, encode_neg]

/-- rounding does not leave `[-1, 1]` (1 is a grid point of every binade below it) -/
theorem rn53_unit_pos (x : ℚ) (h0 : 0 < x) (h1 : x ≤ 1) : 0 ≤ rn53 x ∧ rn53 x ≤ 1 := by
  obtain ⟨s1, s2⟩ := ilog2_spec x h0
  have he : ilog2 x ≤ 0 := by
    have : (2 : ℚ) ^ ilog2 x ≤ (2 : ℚ) ^ (0 : ℤ) := by rw [zpow_zero]; linarith
    exact (zpow_le_zpow_iff_right₀ (by norm_num)).mp this
  rw [rn53_pos x _ s1 s2]
  generalize ilog2 x = e at *
  have hN : (((2 : ℤ) ^ (52 - e).toNat : ℤ) : ℚ) * (2 : ℚ) ^ (e - 52) = 1 := by
    push_cast
    rw [← zpow_natCast, Int.toNat_of_nonneg (by omega), ← zpow_add₀ (by norm_num)]
    have : 52 - e + (e - 52) = 0 := by ring
    rw [this, zpow_zero]
  constructor
  · have := rnAt_ge e x 0 (by simp; linarith)
    simpa using this
  · have := rnAt_le e x ((2 : ℤ) ^ (52 - e).toNat) (by rw [hN]; exact h1)
    rw [hN] at this; exact this

theorem rn53_abs_le_one (x : ℚ) (h : |x| ≤ 1) : |rn53 x| ≤ 1 := by
  obtain ⟨hl, hr⟩ := abs_le.mp h
  rcases lt_trichotomy x 0 with h0 | h0 | h0
  · have := rn53_unit_pos (-x) (by linarith) (by linarith)
    rw [rn53_neg] at this
    rw [abs_le]; constructor <;> linarith [this.1, this.2]
  · subst h0; rw [rn53_zero]; simp
  · have := rn53_unit_pos x h0 hr
    rw [abs_le]; constructor <;> linarith [this.1, this.2]

/-! ### assembling the round trip from the analysis and the finite tables -/

theorem powOk_spec {b f : ℕ} (h : powOk b f = true) :
    encode b (decode b (2 ^ f)) = 2 ^ f ∧ encode b (decode b (-(2 ^ f))) = -(2 ^ f) ∧
    decode b (2 ^ f) ≤ 1 ∧
    rn53 (decode b (2 ^ f) * (scale b : ℚ)) = ((2 ^ f : ℤ) : ℚ) := by
  simpa [powOk, and_assoc] using h

theorem specialOk_spec {b : ℕ} (h : specialOk b = true) :
    encode b (decode b 0) = 0 ∧
    encode b (decode b (scale b)) = scale b ∧
    encode b (decode b (-(scale b))) = -(scale b) ∧
    encode b (decode b (-(2 ^ (b - 1)))) = -(scale b) ∧
    -1 - 1 / (scale b : ℚ) ≤ decode b (-(2 ^ (b - 1))) ∧
    decode b (-(2 ^ (b - 1))) < -1 ∧
    decode b (scale b) = 1 ∧
    decode b (-(scale b)) = -1 ∧
    rn53 (scale b : ℚ) = (scale b : ℚ) ∧
    rn53 (decode b (scale b) * (scale b : ℚ)) = (scale b : ℚ) := by
  simpa [specialOk, and_assoc] using h

theorem roundtrip_pos (b k : ℕ) (hk : b - 1 = k) (hk52 : k ≤ 52)
    (hpow : ∀ f < k, powOk b f = true) (hsp : specialOk b = true)
    (c : ℤ) (h0 : 0 < c) (hc : c ≤ 2 ^ k - 1) : encode b (decode b c) = c := by
  obtain ⟨n, rfl⟩ : ∃ n : ℕ, c = n := ⟨c.toNat, by omega⟩
  have hn0 : n ≠ 0 := by omega
  have l1 := Nat.log2_self_le hn0
  have l2 := @Nat.lt_log2_self n
  generalize n.log2 = f at l1 l2
  have l1' : (2 : ℤ) ^ f ≤ n := by exact_mod_cast l1
  have l2' : (n : ℤ) < (2 : ℤ) ^ (f + 1) := by exact_mod_cast l2
  have hfk : f < k := by
    have : (2 : ℤ) ^ f < (2 : ℤ) ^ k := by omega
    exact (pow_lt_pow_iff_right₀ (by norm_num)).mp this
  rcases eq_or_lt_of_le l1' with he | hlt
  · rw [← he]; exact (powOk_spec (hpow f hfk)).1
  · rcases eq_or_lt_of_le hc with hM | hM
    · have := (specialOk_spec hsp).2.1
      unfold scale at this; rw [hk] at this
      rw [hM]; exact this
    · obtain ⟨r1, r2, r3⟩ := div_mul_pos k f n (by omega) hfk hlt l2' hM
      unfold encode decode scale; rw [hk]
      rw [clip_id _ (by linarith) (by linarith), r1, truncZ_int]

theorem roundtrip_of_tables (b k : ℕ) (hk : b - 1 = k) (hk52 : k ≤ 52)
    (hpow : ∀ f < k, powOk b f = true) (hsp : specialOk b = true)
    (c : ℤ) (hlo : -(2 : ℤ) ^ k ≤ c) (hhi : c < (2 : ℤ) ^ k) :
    encode b (decode b c) = if c = -(2 : ℤ) ^ k then -((2 : ℤ) ^ k - 1) else c := by
  split_ifs with h
  · have := (specialOk_spec hsp).2.2.2.1
    unfold scale at this; rw [hk] at this
    rw [h]; exact this
  · rcases lt_trichotomy c 0 with hneg | hz | hpos
    · have hlo' : -(2 : ℤ) ^ k < c := lt_of_le_of_ne hlo (Ne.symm h)
      have := roundtrip_pos b k hk hk52 hpow hsp (-c) (by omega) (by omega)
      have e := encode_decode_neg b (-c)
      rw [neg_neg] at e
      rw [e, this, neg_neg]
    · subst hz; exact (specialOk_spec hsp).1
    · exact roundtrip_pos b k hk hk52 hpow hsp c hpos (by omega)

/-- `rn53 (rn53 (c / M) * M) = c` for every code up to full scale -/
theorem div_mul_of_tables (b k : ℕ) (hk : b - 1 = k) (hk52 : k ≤ 52)
    (hpow : ∀ f < k, powOk b f = true) (hsp : specialOk b = true)
    (c : ℤ) (hlo : -((2 : ℤ) ^ k - 1) ≤ c) (hhi : c ≤ (2 : ℤ) ^ k - 1) :
    rn53 (decode b c * (scale b : ℚ)) = c := by
  have pos : ∀ c : ℤ, 0 < c → c ≤ (2 : ℤ) ^ k - 1 → rn53 (decode b c * (scale b : ℚ)) = c := by
    intro c h0 hc
    obtain ⟨n, rfl⟩ : ∃ n : ℕ, c = n := ⟨c.toNat, by omega⟩
    have hn0 : n ≠ 0 := by omega
    have l1 := Nat.log2_self_le hn0
    have l2 := @Nat.lt_log2_self n
    generalize n.log2 = f at l1 l2
    have l1' : (2 : ℤ) ^ f ≤ n := by exact_mod_cast l1
    have l2' : (n : ℤ) < (2 : ℤ) ^ (f + 1) := by exact_mod_cast l2
    have hfk : f < k := by
      have : (2 : ℤ) ^ f < (2 : ℤ) ^ k := by omega
      exact (pow_lt_pow_iff_right₀ (by norm_num)).mp this
    rcases eq_or_lt_of_le l1' with he | hlt
    · rw [← he]; exact (powOk_spec (hpow f hfk)).2.2.2
    · rcases eq_or_lt_of_le hc with hM | hM
      · have := (specialOk_spec hsp).2.2.2.2.2.2.2.2.2
        unfold scale at this ⊢; rw [hk] at this ⊢
        rw [hM]; exact this
      · obtain ⟨r1, -, -⟩ := div_mul_pos k f n (by omega) hfk hlt l2' hM
        unfold decode scale; rw [hk]; exact r1
  rcases lt_trichotomy c 0 with hneg | hz | hpos
  · have := pos (-c) (by omega) (by omega)
    rw [decode_neg, neg_mul, rn53_neg] at this
    have e : ((-c : ℤ) : ℚ) = -(c : ℚ) := by push_cast; rfl
    rw [e] at this
    linarith
  · subst hz
    unfold decode
    simp [rn53_zero]
  · exact pos c hpos hhi

theorem decode_range_of_tables (b k : ℕ) (hk : b - 1 = k) (hk1 : 1 ≤ k) (hsp : specialOk b = true)
    (c : ℤ) (hlo : -(2 : ℤ) ^ k ≤ c) (hhi : c < (2 : ℤ) ^ k) :
    -1 - 1 / (scale b : ℚ) ≤ decode b c ∧ decode b c ≤ 1 ∧
    (c ≠ -(2 : ℤ) ^ k → -1 ≤ decode b c) := by
  have hMpos : (0 : ℚ) < (scale b : ℚ) := by
    unfold scale; rw [hk]
    have : (2 : ℤ) ^ 1 ≤ (2 : ℤ) ^ k := pow_le_pow_right₀ (by norm_num) hk1
    have : (0 : ℤ) < (2 : ℤ) ^ k - 1 := by omega
    exact_mod_cast this
  by_cases h : c = -(2 : ℤ) ^ k
  · obtain ⟨-, -, -, -, s5, s6, -⟩ := specialOk_spec hsp
    rw [hk] at s5 s6
    rw [h]
    exact ⟨s5, by linarith, fun hh => absurd rfl hh⟩
  · have hlo' : -(2 : ℤ) ^ k < c := lt_of_le_of_ne hlo (Ne.symm h)
    have habs : |(c : ℚ) / (scale b : ℚ)| ≤ 1 := by
      rw [abs_div, abs_of_pos hMpos, div_le_one hMpos, abs_le]
      unfold scale; rw [hk]
      constructor
      · have : -((2 : ℤ) ^ k - 1) ≤ c := by omega
        exact_mod_cast this
      · have : c ≤ (2 : ℤ) ^ k - 1 := by omega
        exact_mod_cast this
    have := abs_le.mp (rn53_abs_le_one _ habs)
    have hinv : (0 : ℚ) ≤ 1 / (scale b : ℚ) := by positivity
    unfold decode
    exact ⟨by linarith [this.1], this.2, fun _ => this.1⟩

theorem encode_clips_of_tables (b : ℕ) (hsp : specialOk b = true) (x : ℚ) :
    (1 < x → encode b x = scale b) ∧ (x < -1 → encode b x = -scale b) := by
  have hM := (specialOk_spec hsp).2.2.2.2.2.2.2.2.1
  constructor
  · intro h
    unfold encode clip
    rw [if_pos h, one_mul, hM, truncZ_int]
  · intro h
    unfold encode clip
    rw [if_neg (by linarith), if_pos h, neg_one_mul, rn53_neg, hM, truncZ_neg, truncZ_int]

end Earverif.Pcm
