"""C05 — exactness-at-loudspeaker and layer-separation certificates of a configured point-source panner
(helper of harness/c05.py; same shape as harness/c05_cover.py).

From the REAL configured panner (`point_source.configure(layout.without_lfe)`), per loudspeaker `k` of the layout:

  * the first region that has `k` as an output channel, and `k`'s slot in it;
  * for every earlier QuadRegion a hint: rational intervals that contain every root (inside the acceptance window of
    `pan_axis`) of the two pan quadratics at the loudspeaker's position.

`spk_problem` is a line-by-line mirror (Python ints, the coordinates times 2^K) of the Bool checker
`Earverif.PointSource.Cover.spkOk` (Model/PointSourceCover.lean) that the Lean kernel re-decides on
`Gen/C05_Exact.lean`; it is only used to say LOUDLY what is wrong when a certificate cannot be produced.  Nothing is
patched: if an earlier region accepts the loudspeaker's position (within the code's tolerances) the certificate for
that loudspeaker is left empty, so the kernel check fails too, and harness/c05.py reports the concrete
layout / loudspeaker / gains.
"""
from fractions import Fraction

import numpy as np

from . import c05_cover as cc

BIG_E = 10 ** 10
BIG_T = 10 ** 11
WIN_LO = (-1, BIG_E)
WIN_HI = (BIG_E + 1, BIG_E)


class ExactError(Exception):
    def __init__(self, what, detail=None):
        Exception.__init__(self, what)
        self.what = what
        self.detail = detail or {}


# ---- integer vectors (mirror of Cover.i*) ----


def isub(a, b):
    return (a[0] - b[0], a[1] - b[1], a[2] - b[2])


def iadd(a, b):
    return (a[0] + b[0], a[1] + b[1], a[2] + b[2])


def icross(a, b):
    return (a[1] * b[2] - a[2] * b[1], a[2] * b[0] - a[0] * b[2], a[0] * b[1] - a[1] * b[0])


def idot(a, b):
    return a[0] * b[0] + a[1] * b[1] + a[2] * b[2]


def idet(a, b, c):
    return (a[0] * (b[1] * c[2] - b[2] * c[1]) - a[1] * (b[0] * c[2] - b[2] * c[0]) + a[2] * (b[0] * c[1] - b[1] * c[0]))


def scale(v, K):
    out = []
    for x in v:
        f = Fraction(float(x)) * (1 << K)
        if f.denominator != 1:
            raise ExactError("coordinate times 2^K is not an integer", {"K": K, "x": float(x)})
        out.append(int(f))
    return tuple(out)


# ---- mirror of the checker ----


def triplet_rejects(a, b, c, p):
    d = idet(a, b, c)
    if d == 0:
        return False
    return (BIG_T * (idet(p, b, c) * d) < -(d * d) or BIG_T * (idet(a, p, c) * d) < -(d * d)
            or BIG_T * (idet(a, b, p) * d) < -(d * d))


def ipan_poly(a, b, c, d, p):
    return (idot(icross(isub(b, a), isub(c, d)), p),
            idot(iadd(icross(a, isub(c, d)), icross(isub(b, a), d)), p),
            idot(icross(a, d), p))


def qeval(c, t):
    return c[0] * (t[0] * t[0]) + c[1] * (t[0] * t[1]) + c[2] * (t[1] * t[1])


def no_root_in(c, u, v):
    if not (0 < u[1] and 0 < v[1]):
        return False
    if v[0] * u[1] <= u[0] * v[1]:
        return True
    A, B, C = c
    fu, fv = qeval(c, u), qeval(c, v)
    if A == 0:
        return ((0 <= fu and 0 <= fv) or (fu <= 0 and fv <= 0)) and (fu != 0 or fv != 0)
    return (B * B - 4 * A * C < 0 or (A * fu <= 0 and A * fv <= 0)
            or (0 <= A * fu and 0 <= A * (2 * A * u[0] + B * u[1]))
            or (0 <= A * fv and A * (2 * A * v[0] + B * v[1]) <= 0))


def cplx_ok(c):
    A, B, C = c
    disc = B * B - 4 * A * C
    return A == 0 or 0 <= disc or 4 * (A * A) <= -disc * (BIG_E * BIG_E)


def axis_ok(c, xl, xh):
    return cplx_ok(c) and no_root_in(c, WIN_LO, xl) and no_root_in(c, xh, WIN_HI)


def clip_q(t):
    if t[0] < 0:
        return (0, 1)
    if t[1] < t[0]:
        return (1, 1)
    return t


def lt_q(s, t):
    return s[0] * t[1] < t[0] * s[1]


def bil_at(al, be, ga, de, x, y):
    return ((x[1] - x[0]) * (y[1] - y[0]) * al + x[0] * (y[1] - y[0]) * be + x[0] * y[0] * ga + (x[1] - x[0]) * y[0] * de)


def quad_rejects(a, b, c, d, p, h):
    px, py = ipan_poly(a, b, c, d, p), ipan_poly(b, c, d, a, p)
    xl, xh, yl, yh = h
    if axis_ok(px, xl, xh) and lt_q(xh, xl):
        return True
    if axis_ok(py, yl, yh) and lt_q(yh, yl):
        return True
    if not (axis_ok(px, xl, xh) and axis_ok(py, yl, yh)):
        return False
    if not (0 < xl[1] and 0 < xh[1] and 0 < yl[1] and 0 < yh[1]):
        return False
    dots = (idot(a, p), idot(b, p), idot(c, p), idot(d, p))
    return all(bil_at(*dots, clip_q(x), clip_q(y)) <= 0 for x in (xl, xh) for y in (yl, yh))


def root_is(c, r0):
    return (r0 in (0, 1) and qeval(c, (r0, 1)) == 0 and c != (0, 0, 0)
            and no_root_in(c, WIN_LO, (r0, 1)) and no_root_in(c, (r0, 1), WIN_HI))


def quad_exact_at(a, b, c, d, p, kk):
    px, py = ipan_poly(a, b, c, d, p), ipan_poly(b, c, d, a, p)
    if not 0 < idot(p, p):
        return False
    corner, x0, y0 = [(a, 0, 0), (b, 1, 0), (c, 1, 1), (d, 0, 1)][kk]
    return p == corner and root_is(px, x0) and root_is(py, y0)


def region_kind(r):
    return type(r).__name__


def ngon_order(r):
    return [int(t.output_channels[0]) for t in r.regions]


def fan_tri(ps, order, i):
    return ps[order[i]], ps[order[(i + 1) % len(ps)]]


def region_rejects(r, K, p, hint):
    kind = region_kind(r)
    ps = [scale(v, K) for v in r.positions]
    if kind == "Triplet":
        return triplet_rejects(ps[0], ps[1], ps[2], p)
    if kind == "VirtualNgon":
        ce = scale(r.centre_position, K)
        o = ngon_order(r)
        return all(triplet_rejects(*fan_tri(ps, o, i), ce, p) for i in range(len(ps)))
    if kind == "QuadRegion":
        o = [int(x) for x in r.order]
        if sorted(o) != [0, 1, 2, 3]:
            return False
        a, b, c, d = [ps[i] for i in o]
        return quad_rejects(a, b, c, d, p, hint)
    return False


def region_exact(r, K, s, p):
    kind = region_kind(r)
    ps = [scale(v, K) for v in r.positions]
    if kind == "Triplet":
        return idet(*ps) != 0 and s < 3 and ps[s] == p
    if kind == "VirtualNgon":
        ce = scale(r.centre_position, K)
        o = ngon_order(r)
        n = len(ps)
        if len(r.centre_downmix) != n or not (s < n and ps[s] == p):
            return False
        js = [j for j in range(n) if o[j] == s or o[(j + 1) % n] == s]
        if not js:
            return False
        j = js[0]
        return (all(triplet_rejects(*fan_tri(ps, o, i), ce, p) for i in range(j))
                and idet(*fan_tri(ps, o, j), ce) != 0 and o[j] < n and o[(j + 1) % n] < n and o[j] != o[(j + 1) % n])
    if kind == "QuadRegion":
        o = [int(x) for x in r.order]
        if sorted(o) != [0, 1, 2, 3]:
            return False
        a, b, c, d = [ps[i] for i in o]
        return quad_exact_at(a, b, c, d, p, o.index(s))
    return False


# ---- hints ----

DEFAULT_HINT = ((0, 1), (0, 1), (0, 1), (0, 1))
EMPTY = ((1, 1), (0, 1))  # xl > xh: the axis has no root in the window
PAD = Fraction(1, 1 << 40)


def _q(f):
    return (f.numerator, f.denominator)


def _axis_interval(c):
    """A rational interval [xl, xh] with `axis_ok(c, xl, xh)`, as tight as floats allow; EMPTY if no root in the window."""
    if axis_ok(c, *EMPTY):
        return EMPTY
    m = max(abs(x) for x in c)  # scale to floats safely
    cf = [float(Fraction(x, m)) for x in c]
    with np.errstate(all="ignore"):
        roots = np.roots(cf) if cf[0] != 0 else (np.array([-cf[2] / cf[1]]) if cf[1] != 0 else np.array([]))
    rs = sorted(float(np.real(r)) for r in roots if abs(np.imag(r)) < 1e-6 and -1e-3 < np.real(r) < 1 + 1e-3)
    cands = []
    for lo, hi in [(r, r) for r in rs] + ([(rs[0], rs[-1])] if len(rs) > 1 else []):
        cands.append((_q(Fraction(lo) - PAD), _q(Fraction(hi) + PAD)))
    cands.append(((-1, 1), (2, 1)))
    for xl, xh in cands:
        if axis_ok(c, xl, xh):
            return (xl, xh)
    return None


def quad_hint(r, K, p):
    ps = [scale(v, K) for v in r.positions]
    o = [int(x) for x in r.order]
    a, b, c, d = [ps[i] for i in o]
    px, py = ipan_poly(a, b, c, d, p), ipan_poly(b, c, d, a, p)
    ix, iy = _axis_interval(px), _axis_interval(py)
    if ix is None or iy is None:
        return None
    return (ix[0], ix[1], iy[0], iy[1])


# ---- certificates ----


def column_unit(D, k):
    return all(D[i, k] == (1.0 if i == k else 0.0) for i in range(D.shape[0]))


def speaker_cert(regions, K, k, D=None):
    """(region, slot, hints, position) for inner channel k; raises ExactError (with the offending region) otherwise.
    `D`: the downmix matrix (column k must be the unit vector e_k)."""
    if D is not None and not column_unit(D, k):
        raise ExactError("column of the downmix matrix is not the unit vector of the loudspeaker",
                         {"channel": k, "column": [float(x) for x in D[:, k]]})
    first = None
    for ri, r in enumerate(regions):
        chans = [int(c) for c in r.output_channels]
        if k in chans:
            first, slot = ri, chans.index(k)
            break
    if first is None:
        raise ExactError("loudspeaker is not a vertex of any region", {"channel": k})
    pos = regions[first].positions[slot]
    p = scale(pos, K)
    hints = []
    for ri in range(first):
        r = regions[ri]
        h = DEFAULT_HINT
        if region_kind(r) == "QuadRegion":
            h = quad_hint(r, K, p)
            if h is None:
                raise ExactError("no root interval found for an earlier QuadRegion",
                                 {"channel": k, "region": ri, "output_channels": [int(c) for c in r.output_channels]})
        if not region_rejects(r, K, p, h):
            g = r.handle(np.array(pos, dtype=float))
            raise ExactError("an earlier region does not provably reject the loudspeaker's position (exact arithmetic, "
                             "the code's own tolerances)",
                             {"channel": k, "region": ri, "kind": region_kind(r),
                              "output_channels": [int(c) for c in r.output_channels],
                              "float_result_of_that_region": None if g is None else [float(x) for x in g]})
        hints.append(h)
    if not region_exact(regions[first], K, slot, p):
        raise ExactError("the first region that has the loudspeaker as a vertex does not provably answer its unit vector",
                         {"channel": k, "region": first, "kind": region_kind(regions[first]), "slot": slot})
    return {"region": first, "slot": slot, "hints": hints, "position": [float(x) for x in pos]}


# ---- layer separation (mirror of Cover.layerRows / layerOk / layerOkQ) ----


def speaker_positions(regions, n):
    """Table position of inner channels 0..n-1: the position in the first region that has the channel (Cover.speakerPos)."""
    out = []
    for k in range(n):
        pos = None
        for r in regions:
            chans = [int(c) for c in r.output_channels]
            if k in chans:
                pos = [float(x) for x in r.positions[chans.index(k)]]
                break
        out.append(pos)
    return out


def layer_rows(regions, nreal, up):
    """Real channels whose table position is strictly above (up) / below the horizontal plane."""
    ps = speaker_positions(regions, nreal)
    return [k for k, p in enumerate(ps) if p is not None and (p[2] > 0 if up else p[2] < 0)]


def feeds(D, rows, c):
    return any(D[i, c] != 0 for i in rows)


def layer_problem(regions, D, K, rows, up, allow_quads):
    """None if every region that has a channel feeding one of the real channels `rows` is a Triplet / VirtualNgon with
    independent positions whose vertices all have z in [0, 1] (up) / [-1, 0] (a QuadRegion if allow_quads); else
    (why, where).  Also returns the list of touching quads."""
    one = 1 << K
    quads = []
    for ri, r in enumerate(regions):
        chans = [int(c) for c in r.output_channels]
        if not any(feeds(D, rows, c) for c in chans):
            continue
        kind = region_kind(r)
        ps = [scale(v, K) for v in r.positions]
        where = {"region": ri, "kind": kind, "output_channels": chans}
        if kind == "QuadRegion":
            quads.append(ri)
            if allow_quads:
                continue
            return ("a QuadRegion has a vertex in the layer", where), quads
        vs = list(ps)
        if kind == "VirtualNgon":
            vs.append(scale(r.centre_position, K))
        if not all((0 <= v[2] <= one) if up else (-one <= v[2] <= 0) for v in vs):
            return ("a region with a vertex in the layer has a vertex on the other side of the horizontal plane", where), quads
        if kind == "Triplet":
            if idet(*ps) == 0:
                return ("degenerate triplet", where), quads
        else:
            o = ngon_order(r)
            for i in range(len(ps)):
                if idet(*fan_tri(ps, o, i), vs[-1]) == 0:
                    return ("degenerate fan triangle", where), quads
    return None, quads


# ---- Lean text ----


def _q2(t):
    return "(%d, %d)" % t


def _hint_text(h):
    if h == DEFAULT_HINT:
        return "{}"
    return "{ xl := %s, xh := %s, yl := %s, yh := %s }" % tuple(_q2(t) for t in h)


def lean_text(names, certs):
    """`certs[i]` = list over the layout's loudspeakers of speaker_cert(...) results (None: no certificate)."""
    lines = [
        "/- GENERATED by harness/c05.py (harness/c05_exact.py) from point_source.configure(layout.without_lfe) - do not edit.",
        "   Per layout of Gen/C05_Tables.lean (same order) and per loudspeaker: the first region that has the loudspeaker as",
        "   a channel, its slot there, and for every earlier QuadRegion rational intervals containing the roots of the two",
        "   pan quadratics at the loudspeaker's position ({}: not a quad).  Re-decided by `exact_tables_ok`. -/",
        "import Earverif.Model.PointSourceCover",
        "namespace Earverif.Gen.C05Exact",
        "open Earverif.PointSource.Cover",
        "",
    ]
    lnames = []
    for li, (name, cert) in enumerate(zip(names, certs)):
        snames = []
        for k, c in enumerate(cert):
            sn = "E%d_s%d" % (li, k)
            if c is None:
                lines.append("def %s : SpkCert := { region := 0, slot := 0, hints := [] }" % sn)
            else:
                lines.append("def %s : SpkCert := { region := %d, slot := %d, hints := [%s] }" % (
                    sn, c["region"], c["slot"], ", ".join(_hint_text(h) for h in c["hints"])))
            snames.append(sn)
        lines.append("/-- %s -/" % name)
        lines.append("def E%d : List SpkCert := [%s]" % (li, ", ".join(snames)))
        lines.append("")
        lnames.append("E%d" % li)
    lines.append("def certs : List (List SpkCert) := [%s]" % ", ".join(lnames))
    lines.append("")
    lines.append("end Earverif.Gen.C05Exact")
    return "\n".join(lines) + "\n"
