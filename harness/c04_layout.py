"""C04 helper: the speakers-file front end (load_real_layout / with_real_layout / check_* / load_output_layout),
the programme / complementary-object lookup glue and the block loop of render_input_file, tied to
Earverif.FileRenderLayout (driver ops starting with `@`) and checked against an independent reference.

Three things live here:
  * serialisation of parsed-YAML values / layouts / results into the driver's token protocol,
  * generators: valid speakers files from a grammar (returned together with their *intent*) and a malformed stream,
  * `reference_output_layout`: what the speakers file means according to the documentation of
    `load_real_layout` and the property text, computed from the intent WITHOUT calling the code under test.
"""
import contextlib
import io
import math
import re
from fractions import Fraction

import numpy as np


# --------------------------------------------------------------------------------------
# token protocol

def ser_str(s):
    return "=" + ".".join(str(ord(c)) for c in s)


def ser_rat(x):
    fr = Fraction(x)
    return "%d/%d" % (fr.numerator, fr.denominator)


class Unrepresentable(Exception):
    pass


def ser_key(k):
    if isinstance(k, str):
        return ser_str(k)
    # a non-string key can never equal a key the code looks up; it only matters as "some other key"
    return ser_str("\x00nonstr:" + repr(k))


def ser_y(v):
    """Python value as returned by PyYAML -> token string (raises Unrepresentable outside the model's value type)."""
    if v is None:
        return "n"
    if v is True:
        return "t"
    if v is False:
        return "f"
    if isinstance(v, int):
        return "i %d" % v
    if isinstance(v, float):
        if not math.isfinite(v):
            raise Unrepresentable("non-finite float")
        return "q " + ser_rat(v)
    if isinstance(v, str):
        return "s " + ser_str(v)
    if isinstance(v, list):
        return " ".join(["l %d" % len(v)] + [ser_y(x) for x in v])
    if isinstance(v, dict):
        return " ".join(["d %d" % len(v)] + [ser_key(k) + " " + ser_y(x) for k, x in v.items()])
    raise Unrepresentable(type(v).__name__)


def ser_pos(p):
    return "%s %s %s" % (ser_rat(p.azimuth), ser_rat(p.elevation), ser_rat(p.distance))


def ser_screen(s):
    from ear.common import PolarScreen, CartesianScreen
    if s is None:
        return "N"
    if isinstance(s, PolarScreen):
        return "P %s %s %s" % (ser_rat(s.aspectRatio), ser_pos(s.centrePosition), ser_rat(s.widthAzimuth))
    if isinstance(s, CartesianScreen):
        c = s.centrePosition
        return "C %s %s %s %s %s" % (ser_rat(s.aspectRatio), ser_rat(c.X), ser_rat(c.Y), ser_rat(c.Z), ser_rat(s.widthX))
    raise Unrepresentable("screen " + type(s).__name__)


def ser_channels(lay):
    out = [str(len(lay.channels))]
    for c in lay.channels:
        out.append("%s %s %s %s %s %s" % (ser_str(c.name), ser_pos(c.polar_position),
                                          ser_rat(c.az_range[0]), ser_rat(c.az_range[1]),
                                          ser_rat(c.el_range[0]), ser_rat(c.el_range[1])))
    return " ".join(out)


def ser_warnings(ws):
    out = [str(len(ws))]
    for w in ws:
        if w[0] in ("az", "el", "nm"):
            out.append("%s %s" % (w[0], ser_str(w[1])))
        elif w[0] == "mo":
            out.append("mo %s %d %s" % (ser_str(w[1]), len(w[2]), " ".join(str(o) for o in w[2])))
        else:
            out.append("rm %d %d %s" % (w[1], len(w[2]), " ".join(ser_str(n) for n in w[2])))
    return " ".join(" ".join(out).split())


_RE_AZ = re.compile(r"^(.*): azimuth .* out of range .*\.$", re.S)
_RE_EL = re.compile(r"^(.*): elevation .* out of range .*\.$", re.S)
_RE_NM = re.compile(r"^Channel (.*) not mapped to any output\.$", re.S)
_RE_MO = re.compile(r"^Channel (.*) mapped to multiple outputs: \[(.*)\]\.$", re.S)
_RE_RM = re.compile(r"^Speaker idx (\d+) used by multiple channels: (\[.*\])$", re.S)


def parse_warning(msg):
    """A message of Channel.check_position / Layout.check_upmix_matrix -> structured warning."""
    import ast
    m = _RE_AZ.match(msg)
    if m:
        return ("az", m.group(1))
    m = _RE_EL.match(msg)
    if m:
        return ("el", m.group(1))
    m = _RE_NM.match(msg)
    if m:
        return ("nm", m.group(1))
    m = _RE_MO.match(msg)
    if m:
        return ("mo", m.group(1), [int(x) for x in re.findall(r"\d+", m.group(2))])
    m = _RE_RM.match(msg)
    if m:
        return ("rm", int(m.group(1)), list(ast.literal_eval(m.group(2))))
    return ("unparsed", msg)


def canon_real_layout(rl):
    """RealLayout object of the real code -> the text the driver prints for `@load`."""
    if rl.speakers is None:
        sp = "N"
    else:
        parts = [str(len(rl.speakers))]
        for s in rl.speakers:
            parts.append(ser_y(s.channel))
            parts.append(str(len(s.names)))
            parts.extend(ser_y(n) for n in s.names)
            parts.append("N" if s.polar_position is None else ser_pos(s.polar_position))
            parts.append(ser_y(s.gain_linear))
        sp = " ".join(parts)
    return "ok speakers=%s screen=%s" % (sp, ser_screen(rl.screen))


def canon_out(n_channels, upmix_rows, n_cols, channels, screen, warnings):
    """Pieces of a load_output_layout result -> the text the driver prints for `@out`."""
    if upmix_rows is None:
        up = "N"
    else:
        up = " ".join([str(len(upmix_rows)), str(n_cols)] + [ser_rat(v) for row in upmix_rows for v in row])
    pos = " ".join(ser_pos(c.polar_position) for c in channels)
    return "ok n=%d upmix=%s pos=%s screen=%s warn=%s" % (n_channels, up, pos, ser_screen(screen), ser_warnings(warnings))


def real_load_output_layout(lname, text):
    """Run the real OfflineRenderDriver.load_output_layout on a speakers-file text; returns
    ("ok", layout, dense upmix rows or None, n_channels, parsed warnings) or ("raise", exception)."""
    from ear.cmdline.render_file import OfflineRenderDriver
    drv = OfflineRenderDriver(target_layout=lname, speakers_file=None if text is None else io.StringIO(text),
                              output_gain_db=0.0, fail_on_overload=False, enable_block_duration_fix=False)
    err = io.StringIO()
    try:
        with contextlib.redirect_stderr(err):
            lay, upmix, n = drv.load_output_layout()
    except Exception as e:  # noqa: every exception of the code under test is "rejected"
        return ("raise", e)
    msgs = [m for m in err.getvalue().split("\n") if m]
    rows = None
    if upmix is not None:
        rows = np.asarray(upmix.T.todense()).tolist()  # load_output_layout stores the transposed matrix
    return ("ok", lay, rows, n, [parse_warning(m) for m in msgs])


# --------------------------------------------------------------------------------------
# generators

DEFAULT_SCREEN_DOC = ("polar", 1.78, 0.0, 0.0, 1.0, 58.0)   # "If the screen is omitted, the default screen is used"


def _screen_obj(scr):
    if scr[0] == "polar":
        return {"type": "polar", "aspectRatio": scr[1], "centrePosition": {"az": scr[2], "el": scr[3], "r": scr[4]},
                "widthAzimuth": scr[5]}
    return {"type": "cart", "aspectRatio": scr[1], "centrePosition": {"X": scr[2], "Y": scr[3], "Z": scr[4]},
            "widthX": scr[5]}


def gen_screen(rng):
    k = rng.choice(["absent", "absent", "null", "polar", "polar", "cart"])
    if k in ("absent", "null"):
        return k
    if k == "polar":
        return ("polar", rng.choice([1.78, 1.5, 2, 1.0]), rng.choice([0.0, 10.0, -180, 180.0, -12.5]),
                rng.choice([0.0, 5.0, -90, 90.0]), rng.choice([1.0, 2, 0.0, 0.5]), rng.choice([58.0, 40, 30.5]))
    return ("cart", rng.choice([1.78, 1.5, 2]), rng.choice([0.0, 0.25, -1]), rng.choice([1.0, 1, 0.5]),
            rng.choice([0.0, 0.5, -0.25]), rng.choice([0.5, 1, 0.75]))


def _boundary_position(rng, ch, inside_only=False):
    """A real position for channel `ch` at / around the edges of its allowed ranges (always a valid PolarPosition)."""
    lo, hi = ch.az_range
    elo, ehi = ch.el_range
    nom = ch.polar_nominal_position
    az_c = [lo, hi, nom.azimuth, (lo + hi) / 2.0]
    el_c = [elo, ehi, nom.elevation, (elo + ehi) / 2.0]
    if not inside_only:
        az_c += [lo - 0.5, hi + 0.5, lo - 360.0, hi + 360.0, lo + 360.0, -180.0, 180.0, lo - 0.25, hi + 0.25]
        el_c += [elo - 0.5, ehi + 0.5, -90.0, 90.0]
    az = rng.choice(az_c)
    if az > 180.0:
        az -= 360.0
    if az < -180.0:
        az += 360.0
    az = min(180.0, max(-180.0, az))
    el = min(90.0, max(-90.0, rng.choice(el_c)))
    r = rng.choice([1.0, 1, 2.0, 0.5, 0.0])
    if rng.random() < 0.3:  # YAML integers where the values are whole
        if az == int(az):
            az = int(az)
        if el == int(el):
            el = int(el)
    return (az, el, r)


def gen_valid(rng, lay, render_safe=False):
    """A valid speakers file for layout `lay`: (python object to dump as YAML, intent).
    intent = dict(speakers=None | [dict(channel, names, gain (None: key absent), pos (None or (az, el, r)))], screen=...).
    `render_safe`: only real positions inside the allowed ranges close to the nominal ones, gains that keep levels sane."""
    names = list(lay.channel_names)
    n = len(names)
    kind = rng.choice(["perm", "perm", "shared-entry", "shared-channel", "gain0", "names-list", "first-wins",
                       "extra-out", "partial", "positions", "positions", "screen-only"])
    screen = gen_screen(rng)
    if kind == "screen-only":
        if screen == "absent" and rng.random() < 0.7:
            screen = rng.choice(["null", gen_screen(rng)])
        obj = {}
        if screen != "absent":
            obj["screen"] = None if screen == "null" else _screen_obj(screen)
        if rng.random() < 0.3:
            obj["comment"] = "unknown top-level keys are ignored"
        return obj, dict(speakers=None, screen=screen, kind=kind)
    outs = list(range(n))
    rng.shuffle(outs)
    if kind == "extra-out":
        off = rng.randint(1, 3)
        outs = [c + off if c >= n // 2 else c for c in outs]
    entries = []
    for i, name in enumerate(names):
        e = dict(channel=outs[i], names=[name], gain=None, pos=None, form=rng.choice(["str", "str", "list"]))
        if rng.random() < 0.5 or kind == "gain0":
            e["gain"] = rng.choice([1.0, 0.5, 0.25, 2.0, 1, 2] + ([] if render_safe else [-1.0, 1.5, 3]))
        entries.append(e)
    if kind == "gain0" and entries:
        for e in rng.sample(entries, rng.randint(1, min(2, len(entries)))):
            e["gain"] = rng.choice([0.0, 0])
    if kind == "names-list":
        for e in entries:
            if rng.random() < 0.6:
                e["form"] = "list"
                e["names"] = e["names"] + [rng.choice(["U+180", "UH+180", "X+999", "alias"])]
                rng.shuffle(e["names"])
    if kind == "shared-entry" and n >= 2:   # one entry (one loudspeaker) handles two layout channels
        a, b = rng.sample(range(n), 2)
        entries[a]["names"] = [names[a], names[b]]
        entries[a]["form"] = "list"
        entries = [e for j, e in enumerate(entries) if j != b]
    if kind == "shared-channel" and n >= 2:  # two entries with the same output channel
        a, b = rng.sample(range(n), 2)
        if rng.random() < 0.5:              # ... such that the highest channel number disappears
            b = max(range(n), key=lambda j: entries[j]["channel"])
            a = rng.choice([j for j in range(n) if j != b])
        entries[b]["channel"] = entries[a]["channel"]
    if kind == "first-wins" and n >= 2:     # a second entry names an already handled layout channel: the first one wins
        a, b = rng.sample(range(n), 2)
        later, earlier = max(a, b), min(a, b)
        entries[later]["names"] = entries[later]["names"] + [names[earlier]]
        entries[later]["form"] = "list"
    if kind == "partial" and n >= 2:        # some layout channels have no loudspeaker at all
        drop = set(rng.sample(range(n), rng.randint(1, max(1, n // 3))))
        entries = [e for j, e in enumerate(entries) if j not in drop]
        if not entries:
            entries = [dict(channel=0, names=[names[0]], gain=None, pos=None, form="str")]
    if kind == "positions" or (not render_safe and rng.random() < 0.25):
        by_name = lay.channels_by_name
        for e in entries:
            if rng.random() < 0.8:
                ch = by_name.get(e["names"][0]) or by_name.get(e["names"][-1])
                if ch is None:
                    continue
                if render_safe:
                    nom = ch.polar_nominal_position
                    az = min(ch.az_range[1], max(ch.az_range[0], nom.azimuth + rng.choice([-2.0, -1.0, 0.0, 1.0, 2.0])))
                    if ch.az_range[0] > ch.az_range[1]:
                        az = nom.azimuth
                    el = min(ch.el_range[1], max(ch.el_range[0], nom.elevation + rng.choice([-2.0, 0.0, 2.0])))
                    e["pos"] = (az, el, rng.choice([1.0, 1.0, 2.0]))
                else:
                    e["pos"] = _boundary_position(rng, ch)
    if rng.random() < 0.5:
        rng.shuffle(entries)
    ylist = []
    for e in entries:
        d = {"channel": e["channel"], "names": e["names"][0] if e["form"] == "str" and len(e["names"]) == 1 else list(e["names"])}
        if e["gain"] is not None:
            d["gain_linear"] = e["gain"]
        if e["pos"] is not None:
            d["position"] = {"az": e["pos"][0], "el": e["pos"][1], "r": e["pos"][2]}
        if rng.random() < 0.1:
            d["note"] = "unknown keys of a speaker entry are ignored"
        ylist.append(d)
    top = "list" if screen == "absent" and rng.random() < 0.5 else "dict"
    if top == "list":
        obj = ylist
    else:
        obj = {"speakers": ylist}
        if screen != "absent":
            obj["screen"] = None if screen == "null" else _screen_obj(screen)
        if rng.random() < 0.5:   # key order must not matter
            obj = dict(reversed(list(obj.items())))
    return obj, dict(speakers=entries, screen=screen, kind=kind)


_BAD_SCALARS = [None, "x", "1.5", "", [], [1.0], {}, {"a": 1}, True, False, 1.0, -1, 0, 3, 2.5]


def gen_malformed(rng, lay):
    """A speakers-file document outside (or at the edge of) the grammar: (python object, label)."""
    import copy
    obj, _ = gen_valid(rng, lay)
    obj = copy.deepcopy(obj)
    if isinstance(obj, list):
        obj = {"speakers": obj}
    where = rng.choice(["top", "speakers", "entry", "entry", "channel", "channel", "names", "gain", "gain",
                        "position", "position", "position", "screen", "screen", "screen", "keys"])
    sp = obj.get("speakers")
    if where in ("entry", "channel", "names", "gain", "position") and not sp:
        where = "screen"
    if where == "top":
        return rng.choice([None, 3, "abc", "", True, 1.5, [], {}, [None], ["x"], {"speakers": []}, {1: 2},
                           {"Speakers": sp}, {"speakers": sp, "screen": None, "extra": [1, 2]}]), "top"
    if where == "speakers":
        obj["speakers"] = rng.choice([None, "", "ab", {}, {"a": 1}, 5, True, 0.5, [[]], [None], [sp], ["x"], [3]])
        return obj, "speakers"
    if where == "keys":
        obj[rng.choice([1, None, True, 2.5, "Screen", "speaker"])] = rng.choice([1, None, "x"])
        if sp and rng.random() < 0.5:
            rng.choice(sp)[rng.choice([1, None, "Names", "gain"])] = 2
        return obj, "keys"
    if where == "screen":
        good = _screen_obj(gen_screen_given(rng))
        k = rng.choice(["scalar", "type", "drop", "value", "centre", "extra"])
        if k == "scalar":
            obj["screen"] = rng.choice([3, "x", [], {}, True, 0.0, [good], "polar"])
        elif k == "type":
            good["type"] = rng.choice(["other", 5, None, "Polar", "cartesian", True, ["polar"]])
            obj["screen"] = good
        elif k == "drop":
            del good[rng.choice(list(good.keys()))]
            obj["screen"] = good
        elif k == "value":
            key = rng.choice([x for x in good if x not in ("type", "centrePosition")])
            good[key] = rng.choice(_BAD_SCALARS)
            obj["screen"] = good
        elif k == "centre":
            c = good["centrePosition"]
            m = rng.choice(["swap", "drop", "extra", "bad", "range", "scalar"])
            if m == "swap":
                good["centrePosition"] = ({"X": 0.0, "Y": 1.0, "Z": 0.0} if "az" in c else {"az": 0.0, "el": 0.0, "r": 1.0})
            elif m == "drop":
                del c[rng.choice(list(c.keys()))]
            elif m == "extra":
                c[rng.choice(["x", "d", 1])] = 1
            elif m == "bad":
                c[rng.choice(list(c.keys()))] = rng.choice(_BAD_SCALARS)
            elif m == "range":
                c[rng.choice(list(c.keys()))] = rng.choice([180.5, -180.25, 90.5, -91, -1.0, -0.5, 200, 1000.0])
            else:
                good["centrePosition"] = rng.choice([None, [0, 0, 1], "x", 3])
            obj["screen"] = good
        else:
            good["extra"] = 1
            obj["screen"] = good
        return obj, "screen:" + k
    e = rng.choice(sp)
    if where == "entry":
        k = rng.choice(["scalar", "drop-names", "drop-channel", "empty"])
        i = sp.index(e)
        if k == "scalar":
            sp[i] = rng.choice(["x", [1, 2], None, 7, True, [e], ""])
        elif k == "drop-names":
            del e["names"]
        elif k == "drop-channel":
            del e["channel"]
        else:
            sp[i] = {}
        return obj, "entry:" + k
    if where == "channel":
        n_out = 1 + max([x["channel"] for x in sp if isinstance(x.get("channel"), int)] or [0])
        e["channel"] = rng.choice([-1, -1, -n_out, -n_out - 1, -n_out - 5, None, "0", "a", [0], True, False, 1.0, 0.0, {},
                                   n_out + 2, -2])
        if rng.random() < 0.3:  # make it the only entry: max() of one element, negative sizes
            obj["speakers"] = [e]
        return obj, "channel"
    if where == "names":
        e["names"] = rng.choice([None, 5, [], [None, e["names"]], {"a": 1}, True, [e["names"]], "", 1.5,
                                 [5, lay.channel_names[0]], lay.channel_names[0].lower()])
        return obj, "names"
    if where == "gain":
        e["gain_linear"] = rng.choice([None, "1.5", "x", [2.0], [], {}, True, False, 0, -1, 2, -0.5, "", " 2 ", [1.0, 2.0]])
        return obj, "gain"
    # position
    pos = {"az": 30.0, "el": 0.0, "r": 1.0}
    k = rng.choice(["scalar", "drop", "extra", "bad", "range", "edge"])
    if k == "scalar":
        pos = rng.choice([None, [1, 2, 3], "x", 3, {}, True, [pos]])
    elif k == "drop":
        del pos[rng.choice(["az", "el", "r"])]
    elif k == "extra":
        pos[rng.choice(["x", "distance", 1, None, "AZ"])] = 1
    elif k == "bad":
        pos[rng.choice(["az", "el", "r"])] = rng.choice(_BAD_SCALARS)
    elif k == "range":
        key = rng.choice(["az", "el", "r"])
        pos[key] = {"az": rng.choice([180.5, -180.25, 181, 360, -270.0]), "el": rng.choice([90.5, -90.25, 91, -180]),
                    "r": rng.choice([-1.0, -0.001, -1])}[key]
    else:
        pos = {"az": rng.choice([180.0, -180.0, 180, -180]), "el": rng.choice([90.0, -90.0, 90, -90]), "r": rng.choice([0.0, 0, 1e6])}
    e["position"] = pos
    return obj, "position:" + k


def gen_screen_given(rng):
    s = gen_screen(rng)
    while s in ("absent", "null"):
        s = gen_screen(rng)
    return s


def dump_yaml(rng, obj):
    import yaml
    style = rng.choice([None, True, False])
    return yaml.safe_dump(obj, default_flow_style=style, sort_keys=False)


# --------------------------------------------------------------------------------------
# independent reference (oracle for the direct predicate; never calls the code under test)

def _in_arc(x, lo, hi):
    """Is azimuth x inside the arc that starts at lo and runs anticlockwise to hi? Exact, on Fractions.
    Written from the documentation of Channel.az_range ("starting at az_range[0], moving anticlockwise to az_range[1]");
    an arc of 360 degrees (e.g. -180..180) is the whole circle, lo == hi is a single direction."""
    x, lo, hi = Fraction(x), Fraction(lo), Fraction(hi)
    width = hi - lo
    assert 0 <= width <= 360, "BS.2051 ranges are given with lo <= hi <= lo + 360"
    return (x - lo) % 360 <= width


def reference_output_layout(lay, intent):
    """What load_output_layout must return for a valid speakers file with this intent:
    dict(n, upmix rows | eye, positions [(az, el, r)], screen, warnings)."""
    names = list(lay.channel_names)
    L = len(names)
    pos = [(c.polar_position.azimuth, c.polar_position.elevation, c.polar_position.distance) for c in lay.channels]
    sp = intent["speakers"]
    if sp is None:
        n = L
        rows = [[1.0 if i == o else 0.0 for i in range(L)] for o in range(L)]
    else:
        n = 1 + max(e["channel"] for e in sp)
        rows = [[0.0] * L for _ in range(n)]
        for i, name in enumerate(names):
            for e in sp:
                if name in e["names"]:
                    rows[e["channel"]][i] = 1.0 if e["gain"] is None else float(e["gain"])
                    if e["pos"] is not None:
                        pos[i] = tuple(float(v) for v in e["pos"])
                    break
    scr = intent["screen"]
    if scr == "absent":
        scr = DEFAULT_SCREEN_DOC
    elif scr == "null":
        scr = None
    warnings = []
    for c, p in zip(lay.channels, pos):
        if not _in_arc(p[0], c.az_range[0], c.az_range[1]):
            warnings.append(("az", c.name))
        if not (c.el_range[0] <= p[1] <= c.el_range[1]):
            warnings.append(("el", c.name))
    for i, name in enumerate(names):
        nz = [o for o in range(n) if rows[o][i] != 0.0]
        if not nz:
            warnings.append(("nm", name))
        if len(nz) > 1:
            warnings.append(("mo", name, nz))
    for o in range(n):
        used = [names[i] for i in range(L) if rows[o][i] != 0.0]
        if len(used) > 1:
            warnings.append(("rm", o, used))
    return dict(n=n, rows=rows, pos=pos, screen=scr, warnings=warnings)


def screen_tuple(s):
    from ear.common import PolarScreen
    if s is None:
        return None
    if isinstance(s, PolarScreen):
        c = s.centrePosition
        return ("polar", s.aspectRatio, c.azimuth, c.elevation, c.distance, s.widthAzimuth)
    c = s.centrePosition
    return ("cart", s.aspectRatio, c.X, c.Y, c.Z, s.widthX)


def build_reference_layout(lay, ref):
    """A Layout object with the reference's positions and screen, for the in-memory rendering
    (attrs `evolve` only; neither with_real_layout nor the YAML loader)."""
    from attr import evolve
    from ear.common import PolarScreen, CartesianScreen, PolarPosition, CartesianPosition
    chans = [evolve(c, polar_position=PolarPosition(*p)) for c, p in zip(lay.channels, ref["pos"])]
    s = ref["screen"]
    if s is None:
        screen = None
    elif s[0] == "polar":
        screen = PolarScreen(aspectRatio=float(s[1]), centrePosition=PolarPosition(float(s[2]), float(s[3]), float(s[4])),
                             widthAzimuth=float(s[5]))
    else:
        screen = CartesianScreen(aspectRatio=float(s[1]), centrePosition=CartesianPosition(float(s[2]), float(s[3]), float(s[4])),
                                 widthX=float(s[5]))
    return evolve(lay, channels=chans, screen=screen)


def check_against_reference(ctx, lname, lay, text, intent):
    """Direct predicate for the layout part of the property: the real load_output_layout on a valid
    speakers file yields the channel count, routing matrix, positions, screen (and warnings) the file asks for."""
    ref = reference_output_layout(lay, intent)
    res = real_load_output_layout(lname, text)
    inp = dict(layout=lname, speakers_file=text, kind=intent["kind"])
    if res[0] == "raise":
        ctx.hit("load_output_layout rejects a valid speakers file", inp, "%s: %s" % (type(res[1]).__name__, res[1]),
                tags=("speakers-file",))
        return False
    _, rl, rows, n, warns = res
    got_pos = [(c.polar_position.azimuth, c.polar_position.elevation, c.polar_position.distance) for c in rl.channels]
    bad = None
    if n != ref["n"] or len(rows) != ref["n"]:
        bad = ("channel count", ref["n"], n)
    elif rows != ref["rows"]:
        bad = ("routing matrix", ref["rows"], rows)
    elif got_pos != [tuple(float(v) for v in p) for p in ref["pos"]]:
        bad = ("positions", ref["pos"], got_pos)
    elif screen_tuple(rl.screen) != (None if ref["screen"] is None else tuple([ref["screen"][0]] + [float(v) for v in ref["screen"][1:]])):
        bad = ("screen", ref["screen"], screen_tuple(rl.screen))
    elif [c.name for c in rl.channels] != list(lay.channel_names):
        bad = ("channel names", lay.channel_names, [c.name for c in rl.channels])
    elif warns != ref["warnings"]:
        bad = ("warnings", ref["warnings"], warns)
    if bad:
        ctx.hit("load_output_layout result differs from what the speakers file says (%s)" % bad[0], inp,
                {"want": bad[1], "got": bad[2]}, tags=("speakers-file",))
        return False
    return True


# --------------------------------------------------------------------------------------
# correspondence with the Lean model (driver ops starting with `@`)

def _real_with_real_layout(lay, rl):
    """Layout.with_real_layout + check_positions + check_upmix_matrix through the public API -> canonical text."""
    new_lay, upmix = lay.with_real_layout(rl)
    msgs = []
    new_lay.check_positions(callback=msgs.append)
    new_lay.check_upmix_matrix(upmix, callback=msgs.append)
    rows = np.asarray(upmix).tolist()
    return canon_out(len(rows), rows, len(lay.channels), new_lay.channels, new_lay.screen, [parse_warning(m) for m in msgs])


def correspond_speakers_files(ctx, driver, n_valid, n_bad):
    """load_real_layout / load_speakers / with_real_layout / check_* / load_output_layout vs the model, on valid
    speakers files from the grammar and on a malformed stream; valid ones also go through the direct predicate."""
    import yaml
    from ear.core import bs2051, layout as layout_mod
    from ear.common import default_screen
    rng = ctx.rng
    dflt = ser_screen(default_screen)
    lines, metas = [], []
    for k in range(n_valid + n_bad):
        lname = rng.choice(bs2051.layout_names)
        lay = bs2051.get_layout(lname)
        if k < n_valid:
            obj, intent = gen_valid(rng, lay)
            label = "valid:" + intent["kind"]
        else:
            obj, label = gen_malformed(rng, lay)
            intent = None
            label = "malformed:" + label
        text = dump_yaml(rng, obj)
        inp = dict(layout=lname, speakers_file=text, kind=label)
        try:
            ytok = ser_y(yaml.load(text, Loader=yaml.Loader))
        except Unrepresentable:
            ctx.count("spk:unrepresentable")
            continue
        ctx.count("spk:" + label)
        # --- real code, three entry points
        try:
            rl = layout_mod.load_real_layout(io.StringIO(text))
            real_load = canon_real_layout(rl)
        except Unrepresentable:
            ctx.count("spk:unrepresentable")
            continue
        except Exception:  # noqa
            rl, real_load = None, "reject"
        try:
            sp2 = layout_mod.load_speakers(io.StringIO(text))
            if rl is None or sp2 != rl.speakers:
                ctx.hit("load_speakers differs from load_real_layout(...).speakers", inp, repr(sp2), tags=("speakers-file",))
        except Exception:  # noqa
            if rl is not None:
                ctx.hit("load_speakers raises where load_real_layout does not", inp, "", tags=("speakers-file",))
        if rl is None:
            real_api = "reject"
        else:
            try:
                real_api = _real_with_real_layout(lay, rl)
            except (ValueError, OverflowError) as e:
                real_api = "nonfinite" if "NaN" in str(e) or "nan" in str(e) or "infinity" in str(e) else "reject"
            except Exception:  # noqa
                real_api = "reject"
        res = real_load_output_layout(lname, text)
        if res[0] == "raise":
            real_out = "reject"
        else:
            try:
                real_out = canon_out(res[3], res[2], len(lay.channels), res[1].channels, res[1].screen, res[4])
            except (ValueError, OverflowError):
                real_out = "nonfinite"
        ctx.count("spk-outcome:" + real_out.split(" ")[0])
        lines.append("@load %s %s" % (dflt, ytok))
        metas.append(("load", inp, real_load, None))
        lines.append("@out %s %s %s F %s" % (dflt, ser_screen(lay.screen), ser_channels(lay), ytok))
        metas.append(("out", inp, real_out, real_api))
        nontrivial = real_out.startswith("ok") or label.startswith("malformed")
        ctx.case(("spk", lname, text), nontrivial, sample=dict(inp, outcome=real_out[:200]))
        if intent is not None:
            if check_against_reference(ctx, lname, lay, text, intent):
                ctx.count("spk-predicate-ok")
    # no speakers file at all
    for lname in bs2051.layout_names:
        lay = bs2051.get_layout(lname)
        res = real_load_output_layout(lname, None)
        real_out = "reject" if res[0] == "raise" else canon_out(res[3], res[2], len(lay.channels), res[1].channels, res[1].screen, res[4])
        lines.append("@out %s %s %s N" % (dflt, ser_screen(lay.screen), ser_channels(lay)))
        metas.append(("out", dict(layout=lname, speakers_file=None), real_out, None))
    outs = driver.run(lines)
    for line, model, (what, inp, real, real_api) in zip(lines, outs, metas):
        if model == "bad-op":
            ctx.disagree("driver rejected request", inp, line[:300], None)
        elif model == "unsupported":
            ctx.count("spk-model-unsupported:" + what)
        elif model != real or (real_api is not None and model != real_api):
            ctx.disagree("layout.%s vs Earverif.FileRenderLayout" % ("load_real_layout" if what == "load" else "load_output_layout/with_real_layout"),
                         inp, model[:600], (real if model != real else real_api)[:600])
        else:
            ctx.validated()


def directed_files(lay):
    """Deterministic speakers files for layout `lay` (no randomness): (python object, intent | None, label).
    Valid ones carry gains exactly 0 (float and int), negative and > 1 on real layout channels, every screen form,
    names as string and as list; the others put an explicit null on every optional key."""
    names = list(lay.channel_names)
    n = len(names)
    out = []
    gains = [0.0, -1.0, 2.5, 0, None, 0.5, 3, -0.25]
    for rot in (0, 3, 5):
        entries = []
        for i, name in enumerate(names):
            # rot 5: the last two loudspeakers share the highest output channel (fewer output channels than entries)
            ch = min(i, n - 2) if rot == 5 else (i + 1) % n
            entries.append(dict(channel=ch, names=[name], gain=gains[(i + rot) % len(gains)], pos=None,
                                form="list" if i % 3 == 0 else "str"))
        for screen in ("absent", "null", ("polar", 1.5, 10.0, 5.0, 1.0, 30.0), ("cart", 1.78, 0.0, 1.0, 0.0, 0.5)):
            ylist = []
            for e in entries:
                d = {"channel": e["channel"], "names": list(e["names"]) if e["form"] == "list" else e["names"][0]}
                if e["gain"] is not None:
                    d["gain_linear"] = e["gain"]
                ylist.append(d)
            obj = {"speakers": ylist}
            if screen != "absent":
                obj["screen"] = None if screen == "null" else _screen_obj(screen)
            out.append((obj, dict(speakers=entries, screen=screen, kind="directed"), "directed-valid"))
    base = {"channel": 0, "names": names[0]}
    for key in ("gain_linear", "position", "names", "channel"):
        out.append(({"speakers": [dict(base, **{key: None})]}, None, "directed-null:" + key))
    out.append(({"speakers": None}, None, "directed-null:speakers"))
    out.append(({"speakers": [dict(base, position={"az": None, "el": 0.0, "r": 1.0})]}, None, "directed-null:az"))
    out.append(({"speakers": [dict(base)], "screen": {"type": "polar", "aspectRatio": None,
                                                       "centrePosition": {"az": 0.0, "el": 0.0, "r": 1.0},
                                                       "widthAzimuth": 20.0}}, None, "directed-null:aspectRatio"))
    return out


def correspond_directed(ctx, driver):
    """The deterministic files of `directed_files` for three layouts: direct predicate (valid ones) and model."""
    import yaml
    from ear.core import bs2051, layout as layout_mod
    from ear.common import default_screen
    dflt = ser_screen(default_screen)
    lines, metas = [], []
    for lname in ("0+2+0", "0+5+0", "4+5+0"):
        lay = bs2051.get_layout(lname)
        for obj, intent, label in directed_files(lay):
            text = yaml.safe_dump(obj, sort_keys=False)
            inp = dict(layout=lname, speakers_file=text, kind=label)
            ctx.count("spk:" + label)
            if intent is not None and check_against_reference(ctx, lname, lay, text, intent):
                ctx.count("spk-predicate-ok")
            res = real_load_output_layout(lname, text)
            if res[0] == "raise":
                real_out = "reject"
            else:
                try:
                    real_out = canon_out(res[3], res[2], len(lay.channels), res[1].channels, res[1].screen, res[4])
                except (ValueError, OverflowError):
                    real_out = "nonfinite"
            ctx.count("spk-outcome:" + real_out.split(" ")[0])
            lines.append("@out %s %s %s F %s" % (dflt, ser_screen(lay.screen), ser_channels(lay),
                                                 ser_y(yaml.load(text, Loader=yaml.Loader))))
            metas.append((inp, real_out))
            ctx.case(("spk", lname, text), True, sample=dict(inp, outcome=real_out[:200]))
    outs = driver.run(lines)
    for model, (inp, real) in zip(outs, metas):
        if model == "unsupported":
            ctx.count("spk-model-unsupported:out")
        elif model != real:
            ctx.disagree("layout.load_output_layout vs Earverif.FileRenderLayout (directed file)", inp, model[:600], real[:600])
        else:
            ctx.validated()


def search_speakers_files(ctx, n):
    """Direct predicate only (no model): valid speakers files from the grammar against the independent reference."""
    from ear.core import bs2051
    rng = ctx.rng
    for _ in range(n):
        lname = rng.choice(bs2051.layout_names)
        lay = bs2051.get_layout(lname)
        obj, intent = gen_valid(rng, lay)
        text = dump_yaml(rng, obj)
        ctx.case(("spk-search", lname, text), True)
        if check_against_reference(ctx, lname, lay, text, intent):
            ctx.count("spk-predicate-ok")


def correspond_checks(ctx, driver, n):
    """Layout.check_upmix_matrix on arbitrary small matrices and geom.inside_angle_range on boundary-rich angles."""
    from attr import evolve
    from ear.core import bs2051
    from ear.core.geom import inside_angle_range
    rng = ctx.rng
    lines, metas = [], []
    for _ in range(n):
        lay = bs2051.get_layout(rng.choice(bs2051.layout_names))
        c = rng.randint(1, min(5, len(lay.channels)))
        sub = evolve(lay, channels=rng.sample(lay.channels, c))
        r = rng.randint(0, 4)
        dens = rng.choice([0.2, 0.4, 0.7])
        U = [[(rng.choice([1.0, 0.5, -1.0, 2.0, 1e-300]) if rng.random() < dens else 0.0) for _ in range(c)] for _ in range(r)]
        msgs = []
        sub.check_upmix_matrix(np.array(U, dtype=float).reshape(r, c), callback=msgs.append)
        real = ser_warnings([parse_warning(m) for m in msgs])
        lines.append("@check %d %s %d %d %s" % (c, " ".join(ser_str(x) for x in sub.channel_names), r, c,
                                                " ".join(ser_rat(v) for row in U for v in row)))
        lines[-1] = " ".join(lines[-1].split())
        metas.append(("check_upmix_matrix", dict(names=sub.channel_names, upmix=U), real))
        ctx.count("check-upmix:%s" % ("clean" if not msgs else "warns"))
    grid = [-540.0, -360.0, -180.0, -90.0, 0.0, 90.0, 180.0, 360.0, 540.0, 720.0]
    for _ in range(3 * n):
        s = rng.choice(grid + [rng.randint(-1440, 1440) / 4.0])
        w = rng.choice([0.0, 0.0, 360.0, 720.0, -360.0, 15.0, 90.0, -30.0, 359.75, 360.25, rng.randint(-1600, 1600) / 4.0])
        e = s + w
        x = rng.choice([s, e, s - 0.25, e + 0.25, s + 360.0, e - 360.0, s - 360.0, e + 360.0, s + w / 2.0,
                        rng.randint(-2880, 2880) / 4.0])
        real = "1" if inside_angle_range(x, s, e) else "0"
        lines.append("@inside %s %s %s" % (ser_rat(x), ser_rat(s), ser_rat(e)))
        metas.append(("inside_angle_range", dict(x=x, start=s, end=e), real))
        ctx.count("inside:" + real)
    outs = driver.run(lines)
    for model, (what, inp, real) in zip(outs, metas):
        if model != real:
            ctx.disagree("%s vs Earverif.FileRenderLayout" % what, inp, model[:300], real[:300])
        else:
            ctx.validated()


def _ser_adm(elems):
    return "%d %s" % (len(elems), " ".join("%s %s" % ("-" if i is None else ser_str(i), k) for i, k in elems))


def correspond_lookup(ctx, driver, n):
    """OfflineRenderDriver.get_audio_programme / get_complementary_objects / get_rendering_items (with recording
    stand-ins for select / preprocess / convert) vs the model."""
    from ear.cmdline import render_file
    from ear.cmdline.render_file import OfflineRenderDriver
    from ear.fileio.adm.adm import ADM
    from ear.fileio.adm.elements import AudioProgramme, AudioObject, AudioContent
    rng = ctx.rng
    lines, metas = [], []
    saved = (render_file.select_rendering_items, render_file.preprocess_rendering_items,
             render_file.convert_objects_to_cartesian, render_file.convert_objects_to_polar)
    try:
        render_file.select_rendering_items = lambda adm, audio_programme=None, selected_complementary_objects=[]: \
            [("select", audio_programme, list(selected_complementary_objects))]
        render_file.preprocess_rendering_items = lambda items: items + ["pre"]
        render_file.convert_objects_to_cartesian = lambda items: items + ["to_cartesian"]
        render_file.convert_objects_to_polar = lambda items: items + ["to_polar"]
        for _ in range(n):
            adm = ADM()
            elems, objs = [], []
            pool = ["APR_1001", "APR_1002", "apr_1001", "AO_1001", "AO_1002", "ao_100a", "AO_100A", "ACO_1001", "APR_10zz"]
            for _k in range(rng.randint(0, 7)):
                kind = rng.choice("poox")
                eid = rng.choice(pool + [None])
                if kind == "p":
                    el = AudioProgramme(id=eid, audioProgrammeName="p")
                    adm.addAudioProgramme(el)
                elif kind == "o":
                    el = AudioObject(id=eid, audioObjectName="o")
                    adm.addAudioObject(el)
                else:
                    el = AudioContent(id=eid, audioContentName="c")
                    adm.addAudioContent(el)
                objs.append(el)
            order = list(adm.elements)     # the model sees the elements in the order ADM.elements yields them
            elems = [(e.id, "p" if isinstance(e, AudioProgramme) else "o" if isinstance(e, AudioObject) else "x") for e in order]
            index = {id(e): i for i, e in enumerate(order)}
            ids = [i for i, _ in elems if i is not None]
            def pick():
                r = rng.random()
                if ids and r < 0.6:
                    i = rng.choice(ids)
                    return rng.choice([i, i.lower(), i.upper(), i.swapcase()])
                return rng.choice(pool + ["", "APR_9999", "nothing"])
            prog = None if rng.random() < 0.35 else pick()
            comps = [pick() for _k in range(rng.choice([0, 0, 1, 2, 3]))]
            mode = rng.choice([None, None, "to_cartesian", "to_polar", "other", ""])
            drv = OfflineRenderDriver(target_layout="0+5+0", speakers_file=None, output_gain_db=0.0, fail_on_overload=False,
                                      enable_block_duration_fix=False, programme_id=prog, complementary_object_ids=comps,
                                      conversion_mode=mode)
            inp = dict(elements=elems, programme_id=prog, complementary_object_ids=comps, conversion_mode=mode)
            # single lookups: the programme, and one id looked up as an audioObject
            from ear.fileio.adm.elements import AudioProgramme as _AP
            for kind, want_id in [("p", prog), ("o", comps[0] if comps else pick())]:
                try:
                    if kind == "p":
                        e = drv.get_audio_programme(adm)
                    else:
                        e = OfflineRenderDriver.lookup_adm_element(adm, want_id, AudioObject, "audioObject")
                    real = "none" if e is None else "elem %d" % index[id(e)]
                except KeyError:
                    real = "key"
                except ValueError:
                    real = "value"
                lines.append("@lookup %s %s %s" % (_ser_adm(elems), kind, "-" if want_id is None else ser_str(want_id)))
                lines[-1] = " ".join(lines[-1].split())
                metas.append(("lookup_adm_element", inp, real))
                ctx.count("lookup:" + real.split(" ")[0])
            # the whole glue
            try:
                items = drv.get_rendering_items(adm)
                (tag, p, cs) = items[0]
                real = " ".join(["select", "none" if p is None else str(index[id(p)]), str(len(cs))] +
                                [str(index[id(c)]) for c in cs] + ["pre"] + items[2:] + (["none"] if mode is None else []))
            except KeyError:
                real = "key"
            except ValueError:
                real = "value"
            except AssertionError:
                real = "assert"
            lines.append("@items %s %s %d %s %s" % (_ser_adm(elems), "-" if prog is None else ser_str(prog), len(comps),
                                                   " ".join(ser_str(c) for c in comps), "-" if mode is None else ser_str(mode)))
            lines[-1] = " ".join(lines[-1].split())
            metas.append(("get_rendering_items", inp, real))
            ctx.count("items:" + real.split(" ")[0])
            ctx.case(("items", repr(inp)), bool(elems), sample=dict(inp, outcome=real))
    finally:
        (render_file.select_rendering_items, render_file.preprocess_rendering_items,
         render_file.convert_objects_to_cartesian, render_file.convert_objects_to_polar) = saved
    outs = driver.run(lines)
    for model, (what, inp, real) in zip(outs, metas):
        if model != real:
            ctx.disagree("OfflineRenderDriver.%s vs Earverif.FileRenderLayout" % what, inp, model[:300], real[:300])
        else:
            ctx.validated()


def recording_renderer(log):
    """A Renderer subclass that records the sequence of render / get_tail calls made by render_input_file."""
    from ear.core import Renderer

    class Recording(Renderer):
        _in_tail = False

        def render(self, sample_rate, samples):
            if not self._in_tail:    # get_tail is implemented by a nested render call: not a call of the driver
                log.append(len(samples))
            return super().render(sample_rate, samples)

        def get_tail(self, sample_rate, n_channels):
            log.append("tail")
            self._in_tail = True
            try:
                return super().get_tail(sample_rate, n_channels)
            finally:
                self._in_tail = False

    return Recording
