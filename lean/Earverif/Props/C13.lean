/-
C13 — Zone exclusion silences excluded loudspeakers; channel lock selects one.

Property theorems.  Models: `Earverif/Model/Zone.lean`, `Earverif/Model/ChannelLock.lean`;
helper lemmas: `Earverif/Proofs/C13Zone.lean`, `Earverif/Proofs/C13Lock.lean`;
per-layout tables regenerated from /repo on every run: `Earverif/Gen/C13_Tables.lean`.
-/
import Earverif.Proofs.C13Zone
import Earverif.Proofs.C13Lock
import Earverif.Gen.C13_Tables
import Earverif.Proofs.C13Real
import Earverif.Proofs.C13CartLock
import Earverif.Proofs.C13Polar

namespace Earverif.C13
open Earverif.Zone Earverif.Zone.Scalar Earverif.Zone.ScalarSqrt Earverif.Lock Earverif.CartLock

/-! ## 1. Priority-group structures and the downmix matrix -/

/-- The structural facts about `ZoneExclusionDownmix.channel_groups` that the theorems need:
one group list per channel; members are channel indices; no group repeats a member; and the
groups of a channel together cover every channel (they partition the layout in the real
code, so whenever some loudspeaker is left there is a usable group). -/
def groupsOK (n : Nat) (gs : List (List (List Nat))) : Bool :=
  gs.length == n &&
  gs.all fun g =>
    g.all (fun grp => grp.all (· < n) && nodupB grp) &&
    (List.range n).all fun j => g.any fun grp => grp.contains j

/-- "some but not all loudspeakers are excluded" -/
def someNotAll (mask : List Bool) : Prop := mask.all id = false ∧ mask.all (fun b => !b) = false

instance (mask : List Bool) : Decidable (someNotAll mask) := by unfold someNotAll; infer_instance

theorem groupsOK_row {n : Nat} {gs : List (List (List Nat))} (h : groupsOK n gs = true) :
    gs.length = n ∧ ∀ g ∈ gs,
      (∀ grp ∈ g, (∀ x ∈ grp, x < n) ∧ nodupB grp = true) ∧
      ∀ j, j < n → ∃ grp ∈ g, j ∈ grp := by
  simp only [groupsOK, Bool.and_eq_true, beq_iff_eq, List.all_eq_true, decide_eq_true_eq,
    List.any_eq_true, List.contains_eq_mem, List.mem_range] at h
  refine ⟨h.1, fun g hg => ⟨fun grp hgrp => ?_, fun j hj => ?_⟩⟩
  · exact (h.2 g hg).1 grp hgrp
  · exact (h.2 g hg).2 j hj

/-- A mask that does not exclude everything leaves a non-excluded channel below its length. -/
theorem exists_not_excluded (mask : List Bool) (h : mask.all id = false) :
    ∃ j, j < mask.length ∧ isExcl mask j = false := by
  induction mask with
  | nil => simp at h
  | cons b m ih =>
    cases b with
    | false => exact ⟨0, by simp, by simp [isExcl]⟩
    | true =>
      simp only [List.all_cons, id_eq, Bool.true_and] at h
      obtain ⟨j, hj, hje⟩ := ih h
      exact ⟨j + 1, by simp [hj], by simpa [isExcl] using hje⟩

/-- With covering groups the `for … else: assert False` is never reached. -/
theorem downmixRow_defined {α : Type} [Scalar α] (n : Nat) (mask : List Bool) (j : Nat)
    (hje : isExcl mask j = false) :
    ∀ (g : List (List Nat)), (∃ grp ∈ g, j ∈ grp) → (downmixRow (α := α) n mask g).isSome := by
  intro g
  induction g with
  | nil => intro h; obtain ⟨grp, hgrp, _⟩ := h; simp at hgrp
  | cons grp rest ih =>
    intro h
    simp only [downmixRow]
    by_cases hall : grp.all (isExcl mask) = true
    · simp only [hall, ↓reduceIte]
      obtain ⟨grp', hgrp', hj⟩ := h
      simp only [List.mem_cons] at hgrp'
      rcases hgrp' with rfl | hin
      · rw [List.all_eq_true] at hall
        have := hall j hj
        rw [hje] at this; exact Bool.noConfusion this
      · exact ih ⟨grp', hin, hj⟩
    · simp [hall]

/-- **`downmix_for_excluded` is defined** for every mask of the right length when the groups
are well-formed (the real method then returns a matrix and no assertion fires). -/
theorem downmix_defined (n : Nat) (gs : List (List (List Nat))) (mask : List Bool)
    (hg : groupsOK n gs = true) (hlen : mask.length = n) :
    ∃ D : List (List Rat), downmixForExcluded n gs mask = some D ∧ D.length = n := by
  obtain ⟨hgl, hrows⟩ := groupsOK_row hg
  unfold downmixForExcluded
  simp only [hlen, bne_self_eq_false, Bool.false_eq_true, ↓reduceIte]
  by_cases htriv : (mask.all id || mask.all fun b => !b) = true
  · simp only [htriv, ↓reduceIte]
    exact ⟨eye n, rfl, by simp [eye]⟩
  · simp only [htriv, Bool.false_eq_true, ↓reduceIte]
    have hnall : mask.all id = false := by
      cases h : mask.all id <;> simp_all
    obtain ⟨j, hj, hje⟩ := exists_not_excluded mask hnall
    have := mapOpt_some_of_forall (downmixRow (α := Rat) n mask) gs (fun g hgm =>
      downmixRow_defined n mask j hje g ((hrows g hgm).2 j (by omega)))
    obtain ⟨D, hD, hl⟩ := this
    exact ⟨D, hD, by omega⟩

/-- The rows of the identity matrix sum to one. -/
theorem eye_row_sum (n i : Nat) (hi : i < n) :
    sumList ((List.range n).map fun j => if i == j then (1 : Rat) else 0) = 1 := by
  have := sum_indicator i n
  simp only [hi, ↓reduceIte] at this
  have e : (fun j => if i == j then (1 : Rat) else 0) = fun j => if i = j then (1 : Rat) else 0 := by
    funext j
    by_cases h : i = j <;> simp [h]
  rw [e]; exact this

/-- **Rows sum to one.** For well-formed groups, every row of every matrix the method returns
sums to exactly 1 (over the rationals: the entries are `1/k` on `k` distinct channels). -/
theorem downmix_rows_sum_one (n : Nat) (gs : List (List (List Nat))) (mask : List Bool)
    (hg : groupsOK n gs = true) (D : List (List Rat)) (hD : downmixForExcluded n gs mask = some D) :
    ∀ row ∈ D, sumList row = 1 := by
  obtain ⟨hgl, hrows⟩ := groupsOK_row hg
  unfold downmixForExcluded at hD
  by_cases hlen : (mask.length != n) = true
  · simp [hlen] at hD
  · simp only [hlen, Bool.false_eq_true, ↓reduceIte] at hD
    by_cases htriv : (mask.all id || mask.all fun b => !b) = true
    · simp only [htriv, ↓reduceIte, Option.some.injEq] at hD
      subst hD
      intro row hrow
      simp only [eye, List.mem_map, List.mem_range] at hrow
      obtain ⟨i, hi, rfl⟩ := hrow
      simpa using eye_row_sum n i hi
    · simp only [htriv, Bool.false_eq_true, ↓reduceIte] at hD
      intro row hrow
      obtain ⟨g, hgm, hrowdef⟩ := mapOpt_mem _ gs D hD row hrow
      obtain ⟨grp, hgrp, hnotall, rfl⟩ := downmixRow_some n mask g row hrowdef
      obtain ⟨hlt, hnd⟩ := (hrows g hgm).1 grp hgrp
      have hnd' : nodupB (notExcluded mask grp) = true := nodupB_filter grp _ hnd
      have hlt' : ∀ x ∈ notExcluded mask grp, x < n := fun x hx =>
        hlt x (List.mem_filter.mp hx).1
      have hpos := notExcluded_pos mask grp hnotall
      generalize notExcluded mask grp = ne at *
      simp only [rat_div, rat_one, rat_ofNat, rat_zero]
      have e : (fun j => if ne.contains j then (1 : Rat) / (ne.length : Rat) else 0) =
          fun j => (1 : Rat) / (ne.length : Rat) * ((ne.count j : Nat) : Rat) := by
        funext j; exact indicator_eq_count ne hnd' _ j
      rw [e, sum_map_mul, sum_count n ne hlt']
      have hk : ((ne.length : Nat) : Rat) ≠ 0 := by
        intro h0
        have : ((ne.length : Nat) : Rat) = ((0 : Nat) : Rat) := h0
        have := Rat.natCast_inj.mp this
        omega
      grind

/-- **Entries are non-negative.** -/
theorem downmix_nonneg (n : Nat) (gs : List (List (List Nat))) (mask : List Bool)
    (D : List (List Rat)) (hD : downmixForExcluded n gs mask = some D) :
    ∀ row ∈ D, ∀ x ∈ row, (0 : Rat) ≤ x := by
  unfold downmixForExcluded at hD
  by_cases hlen : (mask.length != n) = true
  · simp [hlen] at hD
  · simp only [hlen, Bool.false_eq_true, ↓reduceIte] at hD
    by_cases htriv : (mask.all id || mask.all fun b => !b) = true
    · simp only [htriv, ↓reduceIte, Option.some.injEq] at hD
      subst hD
      intro row hrow x hx
      simp only [eye, List.mem_map, List.mem_range] at hrow
      obtain ⟨i, _, rfl⟩ := hrow
      simp only [List.mem_map, List.mem_range] at hx
      obtain ⟨j, _, rfl⟩ := hx
      by_cases h : (i == j) = true <;> simp [h]
    · simp only [htriv, Bool.false_eq_true, ↓reduceIte] at hD
      intro row hrow x hx
      obtain ⟨g, _, hrowdef⟩ := mapOpt_mem _ gs D hD row hrow
      obtain ⟨grp, _, _, rfl⟩ := downmixRow_some n mask g row hrowdef
      simp only [List.mem_map, List.mem_range] at hx
      obtain ⟨j, _, rfl⟩ := hx
      by_cases h : (notExcluded mask grp).contains j = true
      · simp only [h, ↓reduceIte, rat_div, rat_one, rat_ofNat]
        have : (0 : Rat) ≤ ((notExcluded mask grp).length : Rat) := by
          have : ((0 : Nat) : Rat) ≤ ((notExcluded mask grp).length : Rat) := Rat.natCast_le_natCast.mpr (Nat.zero_le _)
          simp at this ⊢
        rw [Rat.div_def, Rat.one_mul]
        exact Rat.inv_nonneg this
      · simp only [h, Bool.false_eq_true, ↓reduceIte, rat_zero]; decide

/-- **Excluded columns are zero** (any scalar type): when some but not all loudspeakers are
excluded, no row routes anything to an excluded loudspeaker `j`. -/
theorem downmix_excluded_col_zero {α : Type} [Scalar α] (n : Nat) (gs : List (List (List Nat)))
    (mask : List Bool) (hsna : someNotAll mask)
    (D : List (List α)) (hD : downmixForExcluded n gs mask = some D)
    (j : Nat) (hj : isExcl mask j = true) :
    ∀ row ∈ D, row.getD j zero = zero := by
  unfold downmixForExcluded at hD
  by_cases hlen : (mask.length != n) = true
  · simp [hlen] at hD
  · simp only [hlen, Bool.false_eq_true, ↓reduceIte] at hD
    have htriv : (mask.all id || mask.all fun b => !b) = false := by
      simp [hsna.1, hsna.2]
    simp only [htriv, Bool.false_eq_true, ↓reduceIte] at hD
    intro row hrow
    obtain ⟨g, _, hrowdef⟩ := mapOpt_mem _ gs D hD row hrow
    obtain ⟨grp, _, _, rfl⟩ := downmixRow_some n mask g row hrowdef
    rw [getD_map_range]
    have : (notExcluded mask grp).contains j = false := by
      simpa using not_mem_notExcluded mask grp j hj
    simp only [this, Bool.false_eq_true, ↓reduceIte, ite_self]

/-! ## 2. Excluded loudspeakers get exactly zero gain -/

/-- **Polar path.** When the zone list excludes some but not all loudspeakers, the direct and
the diffuse gain of every excluded loudspeaker `j` are exactly zero — for every output of the
extent/point-source panner (`pans`), every divergence weighting `dg`, gain and diffuseness,
in any scalar type satisfying `ZeroLaws`. -/
theorem polar_excluded_gain_zero {α : Type} [ScalarSqrt α] (hz : ZeroLaws α)
    (n : Nat) (gs : List (List (List Nat))) (mask : List Bool) (hsna : someNotAll mask)
    (pans : List (List α)) (dg : List α) (gain diffuse : α)
    (j : Nat) (hj : j < n) (hex : isExcl mask j = true)
    (out : List α × List α) (hr : renderPolar n gs mask pans dg gain diffuse = some out) :
    out.1[j]? = some zero ∧ out.2[j]? = some zero := by
  unfold renderPolar zoneHandle at hr
  cases hD : downmixForExcluded (α := α) n gs mask with
  | none => simp [hD] at hr
  | some D =>
    simp only [hD, Option.bind_some, Option.some.injEq] at hr
    subst hr
    apply finishGains_zero hz
    exact applyDownmix_zero hz n _ D j hj (downmix_excluded_col_zero n gs mask hsna D hD j hex)

/-- … and with well-formed groups the polar render is defined (no assertion fires), so the
statement above is not vacuous. -/
theorem polar_render_defined (n : Nat) (gs : List (List (List Nat))) (mask : List Bool)
    (hg : groupsOK n gs = true) (hlen : mask.length = n) :
    ∃ D : List (List Rat), downmixForExcluded n gs mask = some D := by
  obtain ⟨D, hD, _⟩ := downmix_defined n gs mask hg hlen
  exact ⟨D, hD⟩

/-- **Cartesian path, final mask.** Every loudspeaker in the mask that `render` actually uses
(`allocentric.get_excluded(…)`) has exactly zero direct and diffuse gain. -/
theorem cart_excluded_gain_zero_on_final_mask {α : Type} [ScalarSqrt α] (hz : ZeroLaws α)
    (final : List Bool) (pans : List (List α)) (dg : List α) (gain diffuse : α)
    (j : Nat) (hex : final[j]? = some true) :
    (renderCart final pans dg gain diffuse).1[j]? = some zero ∧
    (renderCart final pans dg gain diffuse).2[j]? = some zero := by
  unfold renderCart
  apply finishGains_zero hz
  have hj : j < final.length := by
    by_cases h : j < final.length
    · exact h
    · rw [List.getElem?_eq_none (Nat.le_of_not_lt h)] at hex; simp at hex
  apply powerSum_zero hz _ _ _ j hj
  intro row hrow
  simp only [List.mem_map] at hrow
  obtain ⟨g, _, rfl⟩ := hrow
  exact scatter_getD final g j hex

/-- **Cartesian path, characterisation of the reset.** A loudspeaker `j` excluded by the zone
list is missing from the final mask *exactly when* the row extension of the zone mask covers
every loudspeaker; in that case the final mask is empty (nothing at all is excluded).
Otherwise the final mask contains the zone mask. -/
theorem cart_reset_characterised {α : Type} [Scalar α] (pos : List (P3 α)) (mask : List Bool)
    (hlen : pos.length = mask.length) (j : Nat) (hj : isExcl mask j = true) :
    (isExcl (alloExcluded pos mask) j = false ↔ (alloExtend pos mask).all id = true) ∧
    ((alloExtend pos mask).all id = true → alloExcluded pos mask = (alloExtend pos mask).map fun _ => false) ∧
    ((alloExtend pos mask).all id = false → alloExcluded pos mask = alloExtend pos mask) ∧
    isExcl (alloExtend pos mask) j = true := by
  have hmono : isExcl (alloExtend pos mask) j = true := alloExtendFrom_mono pos pos 0 mask hlen j hj
  refine ⟨⟨fun h => ?_, fun h => ?_⟩, fun h => ?_, fun h => ?_, hmono⟩
  · by_cases hall : (alloExtend pos mask).all id = true
    · exact hall
    · unfold alloExcluded at h
      simp only [hall, Bool.false_eq_true, ↓reduceIte] at h
      rw [hmono] at h; exact Bool.noConfusion h
  · unfold alloExcluded
    simp only [h, ↓reduceIte]
    exact isExcl_map_false _ j
  · unfold alloExcluded; simp only [h, ↓reduceIte]
  · unfold alloExcluded; simp only [h, Bool.false_eq_true, ↓reduceIte]

/-! ## 3. The regenerated layout tables -/

def ratOfPair (p : Int × Nat) : Rat := mkRat p.1 p.2

def spkOf (r : List (Int × Nat)) : Spk Rat :=
  match r with
  | [x, y, z, a, e] => ⟨ratOfPair x, ratOfPair y, ratOfPair z, ratOfPair a, ratOfPair e⟩
  | _ => ⟨0, 0, 0, 0, 0⟩

def p3Of (r : List (Int × Nat)) : P3 Rat :=
  match r with
  | [x, y, z] => ⟨ratOfPair x, ratOfPair y, ratOfPair z⟩
  | _ => ⟨0, 0, 0⟩

def azelOf (r : List (Int × Nat)) : Rat × Rat :=
  match r with
  | [a, e] => (ratOfPair a, ratOfPair e)
  | _ => (0, 0)

/-- **Table obligation.** The priority groups that the real `ZoneExclusionDownmix` computes
for each of the ten BS.2051 layouts (regenerated on every run) are well-formed, and all
per-layout tables have one row per channel. -/
theorem tables_groups_ok :
    Gen.C13.layouts.all (fun L =>
      groupsOK L.n L.groups && L.spk.length == L.n && L.allo.length == L.n &&
      L.azel.length == L.n && L.prio.length == L.n &&
      -- every channel's first group is the channel itself (`assert channel_groups_for_i[0] == [i]`)
      (List.range L.n).all (fun i => (L.groups.getD i []).head? == some [i])) = true := by
  decide +kernel

/-- **Table obligation.** The model's priority order (`np.lexsort` key: |elevation|, elevation,
|azimuth|, azimuth) reproduces `channel_priority` of the real handlers on every layout. -/
theorem tables_priorities_ok :
    Gen.C13.layouts.all (fun L => priorities (L.azel.map azelOf) == L.prio) = true := by
  decide +kernel

/-- **Counter-example (known finding `cartesian-zone-extend-reset`).** Layout 0+7+0,
Cartesian zone `x ≤ 0.9` (everything except M-090): the zone list excludes six of the seven
loudspeakers; M+090 sits on the side wall, so its row — which contains M-090 — is added, the
extension covers every loudspeaker and the mask is reset: nothing is excluded and the panner's
gains reach the zone-excluded loudspeakers unchanged. The property as stated is false here. -/
theorem cart_zone_not_silent_witness :
    let L := Gen.C13.L_0_7_0
    let zones : List (Zone Rat) := [.cart (-1) (mkRat 9 10) (-1) 1 (-1) 1]
    let mask := [true, true, true, true, false, true, true]
    getExcluded 4 (L.spk.map spkOf) zones = some mask ∧
    someNotAll mask ∧
    alloExtend (L.allo.map p3Of) mask = [true, true, true, true, true, true, true] ∧
    alloExcluded (L.allo.map p3Of) mask = [false, false, false, false, false, false, false] ∧
    scatter (alloExcluded (L.allo.map p3Of) mask) [1, 2, 3, 4, 5, 6, (7 : Rat)] = [1, 2, 3, 4, 5, 6, 7] := by
  decide +kernel

/-! ## 4. Channel lock -/

/-- **No `maxDistance`.** With at least one candidate loudspeaker the handler returns the
position of a loudspeaker `c` (never the input position, never an error) such that, with `m` a
loudspeaker of minimal weighted distance, `c` is within `tol` of that minimum and has the best
(lowest) priority among all loudspeakers within `tol` of the minimum. Exact arithmetic. -/
theorem lock_returns_speaker_position (tol : Rat) (htol : 0 < tol) (cands : List (Cand Rat))
    (hne : cands ≠ []) :
    ∃ c ∈ cands, lockSelect tol none cands = .locked c.idx ∧
      ∃ m ∈ cands, (∀ c' ∈ cands, m.dw ≤ c'.dw) ∧ c.dw < m.dw + tol ∧
        ∀ c' ∈ cands, c'.dw < m.dw + tol → c.prio ≤ c'.prio :=
  lockSelect_none_spec tol htol cands hne

/-- **With `maxDistance`.** Either no loudspeaker is within `maxDistance + tol` (unweighted
distance) and the position is returned unchanged, or the result is a loudspeaker within that
limit, nearest (weighted distance, within `tol`) among those within the limit, best priority. -/
theorem lock_limit (tol : Rat) (htol : 0 < tol) (md : Rat) (cands : List (Cand Rat)) :
    let poss := cands.filter fun (c : Cand Rat) => decide (c.d < md + tol)
    (poss = [] ∧ lockSelect tol (some md) cands = .unchanged) ∨
    (∃ c ∈ cands, c.d < md + tol ∧ lockSelect tol (some md) cands = .locked c.idx ∧
      ∃ m ∈ poss, (∀ c' ∈ poss, m.dw ≤ c'.dw) ∧ c.dw < m.dw + tol ∧
        ∀ c' ∈ poss, c'.dw < m.dw + tol → c.prio ≤ c'.prio) := by
  intro poss
  have e : lockSelect tol (some md) cands = lockSelect tol none poss := lockSelect_some_eq tol md cands
  by_cases hp : poss = []
  · left
    refine ⟨hp, ?_⟩
    rw [e, hp]; rfl
  · right
    obtain ⟨c, hc, hsel, m, hm, h1, h2, h3⟩ := lockSelect_none_spec tol htol poss hp
    have hc' := List.mem_filter.mp hc
    exact ⟨c, hc'.1, by simpa using hc'.2, by rw [e]; exact hsel, m, hm, h1, h2, h3⟩

/-- The index the whole handler returns belongs to a loudspeaker of the layout that is not
excluded (any scalar type, in particular the `Float` instance that is run against numpy). -/
theorem lock_index_valid {α : Type} [ScalarSqrt α] (allo : Bool) (pos : List (P3 α)) (prio : List Nat)
    (excluded : List Bool) (p : P3 α) (lock : Option (Option α)) (i : Nat)
    (h : lockHandle allo pos prio excluded p lock = .locked i) :
    i < pos.length ∧ isExcl excluded i = false := by
  unfold lockHandle at h
  cases lock with
  | none => simp at h
  | some maxD =>
    simp only at h
    obtain ⟨c, hc, hi⟩ := lockSelect_locked_mem _ _ _ i h
    simp only [List.mem_filterMap, List.mem_filter, List.mem_range] at hc
    obtain ⟨k, ⟨hk, hke⟩, hck⟩ := hc
    rw [List.getElem?_eq_getElem hk] at hck
    simp only [Option.some.injEq] at hck
    subst hck
    simp only at hi
    subst hi
    exact ⟨hk, by simpa using hke⟩

/-- The unit gain vector `e_i`. -/
def unitVec {α : Type} [Scalar α] (n i : Nat) : List α :=
  (List.range n).map fun j => if j == i then one else zero

/-- **`_partial`: "reproduced by exactly one loudspeaker".** *Hypothesis* `hexact`: the point
source panner `pan` is exact at loudspeaker positions (`pan(position of i) = e_i`) — that is
property C05 (`*_exact_at_vertex`) for the polar panner and the allocentric panner's behaviour
at its grid points; it is not proved here, and it holds for the real polar panner only up to
~1e-17 residues. Under it, a locked object without extent or divergence is panned to the unit
vector of a non-excluded loudspeaker of the layout, so exactly that one loudspeaker is non-zero.
What is missing for the full claim: `hexact` itself, and that index is the nearest one
(`lock_returns_speaker_position`, which is stated on the candidate list). -/
theorem lock_one_speaker_partial {α : Type} [ScalarSqrt α] (pan : P3 α → List α)
    (allo : Bool) (pos : List (P3 α)) (prio : List Nat) (excluded : List Bool) (p : P3 α)
    (maxD : Option α) (i : Nat)
    (hexact : ∀ k (c : P3 α), pos[k]? = some c → pan c = unitVec pos.length k)
    (h : lockHandle allo pos prio excluded p (some maxD) = .locked i) :
    ∃ c, pos[i]? = some c ∧ isExcl excluded i = false ∧ pan c = unitVec pos.length i ∧
      (pan c)[i]? = some one ∧ ∀ j, j < pos.length → j ≠ i → (pan c)[j]? = some zero := by
  obtain ⟨hi, hex⟩ := lock_index_valid allo pos prio excluded p (some maxD) i h
  refine ⟨pos[i], List.getElem?_eq_getElem hi, hex, hexact i _ (List.getElem?_eq_getElem hi), ?_, ?_⟩
  · rw [hexact i _ (List.getElem?_eq_getElem hi)]
    unfold unitVec
    rw [getElem?_map_range _ _ _ hi]; simp
  · intro j hj hne
    rw [hexact i _ (List.getElem?_eq_getElem hi)]
    unfold unitVec
    rw [getElem?_map_range _ _ _ hj]; simp [hne]

/-! ## 5. Screen scaling -/

/-- **Identity.** If the reference screen edges equal the reproduction screen edges (and are
sorted, as `interp_sorted` asserts), `scale_az_el` is the identity on `[−180,180] × [−90,90]`.
Exact arithmetic; in binary64 `(x − a) + a` may differ from `x` in the last bit. -/
theorem screen_identity (e : Edges Rat)
    (h1 : -180 ≤ e.right) (h2 : e.right ≤ e.left) (h3 : e.left ≤ 180)
    (h4 : -90 ≤ e.bottom) (h5 : e.bottom ≤ e.top) (h6 : e.top ≤ 90)
    (az el : Rat) (ha1 : -180 ≤ az) (ha2 : az ≤ 180) (he1 : -90 ≤ el) (he2 : el ≤ 90) :
    scaleAzEl e e az el = some (az, el) := by
  have key : ∀ (a b c d x : Rat), a ≤ b → b ≤ c → c ≤ d → a ≤ x → x ≤ d →
      interp4 a b c d a b c d x = x := by
    intro a b c d x hab hbc hcd hax hxd
    unfold interp4 interp4.seg
    simp only [rat_lt, rat_le, rat_eq, rat_add, rat_sub, rat_mul, rat_div]
    grind
  unfold scaleAzEl
  simp only [rat_le, rat_sub, rat_zero, rat_ofNat]
  have c1 : ((180 : Nat) : Rat) = 180 := rfl
  have c2 : ((90 : Nat) : Rat) = 90 := rfl
  have c3 : (0 : Rat) - 180 = -180 := by grind
  have c4 : (0 : Rat) - 90 = -90 := by grind
  simp only [c1, c2, c3, c4]
  rw [key (-180) e.right e.left 180 az h1 h2 h3 ha1 ha2,
      key (-90) e.bottom e.top 90 el h4 h5 h6 he1 he2]
  simp [h1, h2, h3, h4, h5, h6]

/-! ## 6. The zero laws hold in the reals; non-vacuity -/

/-- The laws used by the zero-gain theorems hold over ℝ with `Real.sqrt`. -/
theorem zero_laws_real : ZeroLaws ℝ where
  mul_zero x := by show x * 0 = (0 : ℝ); simp
  zero_mul x := by show 0 * x = (0 : ℝ); simp
  add_zero_zero := by show (0 : ℝ) + 0 = 0; simp
  sqrt_zero := Real.sqrt_zero
  nan_zero := rfl

/-! Non-vacuity: concrete inputs satisfying the hypotheses. -/

-- groups of the real 0+5+0 layout are well-formed; a some-but-not-all mask; the matrix exists
example : groupsOK Gen.C13.L_0_5_0.n Gen.C13.L_0_5_0.groups = true := by decide +kernel
example : someNotAll [true, false, false, true, false] := by decide
example : ∃ D : List (List Rat), downmixForExcluded 5 Gen.C13.L_0_5_0.groups [true, false, false, true, false] = some D :=
  polar_render_defined 5 _ _ (by decide +kernel) rfl
-- M+030 and M+110 excluded on 0+5+0: their energy goes to M+000 and M-110 / M-030 … concretely:
example : downmixForExcluded (α := Rat) 5 Gen.C13.L_0_5_0.groups [true, false, false, true, false] =
    some [[0, 0, 1, 0, 0], [0, 1, 0, 0, 0], [0, 0, 1, 0, 0], [0, 0, 0, 0, 1], [0, 0, 0, 0, 1]] := by decide +kernel
-- the polar theorem applies to a defined render over ℝ
example : ∃ out, renderPolar (α := ℝ) 2 [[[0], [1]], [[1], [0]]] [true, false] [[1, 0]] [1] 1 0 = some out :=
  ⟨_, rfl⟩
-- channel lock: two loudspeakers at equal distance, the lower priority value wins
example : lockSelect (1 / 100000 : Rat) none [⟨0, 1, 1, 3⟩, ⟨1, 1, 1, 2⟩, ⟨2, 2, 2, 0⟩] = .locked 1 := by decide +kernel
-- … and a distance limit that nobody meets leaves the position unchanged
example : lockSelect (1 / 100000 : Rat) (some (1 / 2)) [⟨0, 1, 1, 3⟩, ⟨1, 1, 1, 2⟩] = .unchanged := by decide +kernel
-- default screen edges (about ±29°, ±17.5°) satisfy the hypotheses of `screen_identity`
example : scaleAzEl (⟨29, -29, -35 / 2, 35 / 2⟩ : Edges Rat) ⟨29, -29, -35 / 2, 35 / 2⟩ 10 (-80) = some (10, -80) := by
  decide +kernel
-- … and scaling is not the identity for different screens
example : scaleAzEl (⟨29, -29, -35 / 2, 35 / 2⟩ : Edges Rat) ⟨58, -58, -35, 35⟩ 10 5 = some (20, 10) := by
  decide +kernel
-- the row extension that does not cover everything keeps the zone mask (0+7+0, M+000 only is left)
example : alloExcluded (Gen.C13.L_0_7_0.allo.map p3Of) [true, true, false, true, true, true, true] =
    [true, true, false, true, true, true, true] := by decide +kernel

/-! ## 7. The Cartesian path composed: zone mask → row extension → lock → allocentric panner -/

/-- **The locked loudspeaker is never in the final exclusion mask.** In the composed Cartesian
path the lock handler receives the *final* mask (`allocentric.get_excluded` of the zone mask),
so whenever it locks, the chosen loudspeaker `i` is a loudspeaker of the layout that the panner
keeps (`positions[~excluded]` contains it) — it actually receives the gain.  Any scalar type. -/
theorem cart_lock_target_not_excluded {α : Type} [GainCalc.Scalar α] [ScalarSqrt α] (fuel : Nat)
    (spks : List (Spk α)) (allo : List (P3 α)) (prio : List Nat) (zones : List (Zone α)) (p : P3 α)
    (lock : Option (Option α)) (gain diffuse : α) (final : List Bool) (i : Nat) (out : List α × List α)
    (h : renderCartLock fuel spks allo prio zones p lock gain diffuse = some (final, .locked i, out)) :
    ∃ zmask, getExcluded fuel spks zones = some zmask ∧ final = alloExcluded allo zmask ∧
      lockHandle true allo prio final p lock = .locked i ∧ i < allo.length ∧ isExcl final i = false := by
  unfold renderCartLock at h
  cases h1 : getExcluded fuel spks zones with
  | none => simp [h1] at h
  | some zmask =>
    simp only [h1, Option.bind_some] at h
    cases h2 : lockedPosition allo p (lockHandle true allo prio (alloExcluded allo zmask) p lock) with
    | none => simp [h2] at h
    | some q =>
      simp only [h2, Option.bind_some] at h
      cases h3 : speakerTree (keep (alloExcluded allo zmask) allo) with
      | none => simp [h3] at h
      | some st =>
        simp only [h3, Option.bind_some] at h
        cases h4 : GainCalc.alloHandle (keep (alloExcluded allo zmask) allo).length st q.x q.y q.z with
        | none => simp [h4] at h
        | some g =>
          simp only [h4, Option.bind_some, Option.some.injEq, Prod.mk.injEq] at h
          obtain ⟨hf, hl, _⟩ := h
          subst hf
          have hv := lock_index_valid true allo prio (alloExcluded allo zmask) p lock i hl
          exact ⟨zmask, rfl, rfl, hl, hv.1, hv.2⟩

/-- **The allocentric panner is exact at every loudspeaker, for every set of pairwise distinct
positions**: `_speaker_tree` never asserts on them and `AllocentricPanner(positions).handle` at
`positions[k]` returns `e_k` (each balance pan sees an exact key match and returns (1, 1) on the
single plane / row / column).  This covers the grids of the ten layouts and of every subset
`positions[~excluded]` of them. -/
theorem allo_exact_at_speaker (ps : List (P3 ℝ)) (hd : Distinct ps) (k : Nat) (c : P3 ℝ) (hk : ps[k]? = some c) :
    ∃ st, speakerTree ps = some st ∧
      GainCalc.alloHandle ps.length st c.x c.y c.z = some ((List.replicate ps.length (0 : ℝ)).set k 1) := by
  obtain ⟨st, hst, hts, hm⟩ := speakerTree_spec ps hd
  refine ⟨st, hst, ?_⟩
  have hl : (⟨k, c.x, c.y, c.z⟩ : GainCalc.Leaf ℝ) ∈ leaves st := (hm _).mpr ⟨k, c, hk, rfl⟩
  exact alloHandle_at ps.length st hts ⟨k, c.x, c.y, c.z⟩ hl

/-- **Cartesian channel lock: exactly one loudspeaker, no panner hypothesis.** Whenever the
composed Cartesian path locks (with or without `maxDistance`, with any zone list), the rendered
gains are those of the unit vector of the locked loudspeaker `i`: direct `gain·√(1−diffuse)`
and diffuse `gain·√diffuse` at `i`, exactly 0 everywhere else — and `i` is not excluded.
Hypotheses: the allocentric positions are pairwise distinct (table obligation
`tables_allo_ok`) and there is one nominal position per allocentric position. -/
theorem cart_lock_one_speaker (fuel : Nat) (spks : List (Spk ℝ)) (allo : List (P3 ℝ)) (prio : List Nat)
    (zones : List (Zone ℝ)) (p : P3 ℝ) (lock : Option (Option ℝ)) (gain diffuse : ℝ)
    (final : List Bool) (i : Nat) (d f : List ℝ)
    (hdist : Distinct allo) (hlen : spks.length = allo.length)
    (h : renderCartLock fuel spks allo prio zones p lock gain diffuse = some (final, .locked i, (d, f))) :
    isExcl final i = false ∧ i < allo.length ∧
    d = ((List.replicate allo.length (0 : ℝ)).set i 1).map (fun v => v * gain * Real.sqrt (1 - diffuse)) ∧
    f = ((List.replicate allo.length (0 : ℝ)).set i 1).map (fun v => v * gain * Real.sqrt diffuse) := by
  obtain ⟨zmask, hz, hfin, hl, hi, hex⟩ :=
    cart_lock_target_not_excluded fuel spks allo prio zones p lock gain diffuse final i (d, f) h
  have hzl : zmask.length = allo.length := by rw [getExcluded_length fuel spks zones zmask hz, hlen]
  have hfl : final.length = allo.length := by rw [hfin, alloExcluded_length allo zmask hzl.symm, hzl]
  have hfi : final[i]? = some false := isExcl_false_getElem? final i (by omega) hex
  have hq : allo[i]? = some allo[i] := List.getElem?_eq_getElem hi
  -- the panner's grid: positions[~final]
  have hsubd : Distinct (keep final allo) := distinct_keep final allo hdist
  have hsubk : (keep final allo)[rank final i]? = some allo[i] := keep_getElem final allo i _ hfi hq
  have hsubl : (keep final allo).length = countF final := keep_length final allo hfl
  obtain ⟨st, hst, hpan⟩ := allo_exact_at_speaker (keep final allo) hsubd (rank final i) allo[i] hsubk
  unfold renderCartLock at h
  simp only [hz, Option.bind_some, ← hfin, hl, lockedPosition, hq, hst, hpan, Option.some.injEq, Prod.mk.injEq,
    true_and] at h
  rw [hsubl] at h
  obtain ⟨h1, h2⟩ := renderCart_unit final i hfi gain diffuse
  rw [hfl] at h1 h2
  refine ⟨hex, hi, ?_, ?_⟩
  · rw [← h1, h]
  · rw [← h2, h]

/-- **Table obligation.** For each of the ten layouts the allocentric positions are pairwise
distinct, and the model's `_speaker_tree` on them (exact rational arithmetic) reproduces the
grid the real `AllocentricPanner` built (regenerated on every run). -/
theorem tables_allo_ok :
    Gen.C13.layouts.all (fun L =>
      distinctB (L.allo.map p3Of) &&
      ((speakerTree (L.allo.map p3Of)).map fun t => t.map fun pl => pl.map fun row => row.map (·.idx)) == some L.tree)
      = true := by
  decide +kernel

/-- `allo_exact_at_speaker` instantiated with the regenerated tables: on every layout the panner
at loudspeaker `k`'s allocentric position answers `e_k`. -/
theorem allo_exact_at_speaker_layouts (L : Gen.C13.Layout) (hL : L ∈ Gen.C13.layouts) (k : Nat) (c : P3 ℝ)
    (hk : ((L.allo.map p3Of).map castP3)[k]? = some c) :
    ∃ st, speakerTree ((L.allo.map p3Of).map castP3) = some st ∧
      GainCalc.alloHandle ((L.allo.map p3Of).map castP3).length st c.x c.y c.z =
        some ((List.replicate ((L.allo.map p3Of).map castP3).length (0 : ℝ)).set k 1) := by
  have h := tables_allo_ok
  rw [List.all_eq_true] at h
  have hLk := h L hL
  simp only [Bool.and_eq_true] at hLk
  exact allo_exact_at_speaker _ (distinct_cast _ hLk.1) k c hk

/-! ## 8. Cartesian screen scaling: `compensate_position` -/

/-- `np.interp` on a table whose `yp` equals its `xp` is the identity inside the table. -/
theorem interp4_identity (a b c d x : Rat) (_hab : a ≤ b) (_hbc : b ≤ c) (_hcd : c ≤ d) (hax : a ≤ x) (hxd : x ≤ d) :
    interp4 a b c d a b c d x = x := by
  unfold interp4 interp4.seg
  simp only [rat_lt, rat_le, rat_eq, rat_add, rat_sub, rat_mul, rat_div]
  grind

/-- Layouts without U+045: `compensate_position` does nothing, so the Cartesian `screenRef` path is
`point_polar_to_cart ∘ scale_az_el ∘ point_cart_to_polar` (the conversions are C19's subject). -/
theorem compensate_identity_without_U045 {α : Type} [Scalar α] (az el : α) :
    compensatePosition false az el = (az, el) := rfl

/-- Layouts with U+045: at elevation 0 (and 90) the compensation table is the identity table, so
azimuths in [−180, 180] are unchanged; the elevation is never changed. -/
theorem compensate_identity_at_el0 (az : Rat) (h1 : -180 ≤ az) (h2 : az ≤ 180) :
    compensatePosition true az 0 = (az, 0) ∧ compensatePosition true az 90 = (az, 90) := by
  have e0 : interp3 (0 : Rat) 30 90 30 (30 * (30 / 45)) 30 0 = 30 := by decide +kernel
  have e90 : interp3 (0 : Rat) 30 90 30 (30 * (30 / 45)) 30 90 = 30 := by decide +kernel
  have k := interp4_identity (-180) (-30) 30 180 az (by decide +kernel) (by decide +kernel) (by decide +kernel) h1 h2
  have c0 : ((0 : Nat) : Rat) = 0 := rfl
  have c30 : ((30 : Nat) : Rat) = 30 := rfl
  have c45 : ((45 : Nat) : Rat) = 45 := rfl
  have c90 : ((90 : Nat) : Rat) = 90 := rfl
  have c180 : ((180 : Nat) : Rat) = 180 := rfl
  have n180 : (0 : Rat) - 180 = -180 := by grind
  have n30 : (0 : Rat) - 30 = -30 := by grind
  constructor
  · simp only [compensatePosition, ↓reduceIte, rat_ofNat, rat_sub, rat_zero, rat_mul, rat_div, c0, c30, c45, c90,
      c180, e0, n180, n30, k]
  · simp only [compensatePosition, ↓reduceIte, rat_ofNat, rat_sub, rat_zero, rat_mul, rat_div, c0, c30, c45, c90,
      c180, e90, n180, n30, k]

/-- … and it is not the identity in between: at elevation 30 the ±30° table points move to ±20°. -/
example : compensatePosition true (30 : Rat) 30 = (20, 30) := by decide +kernel

-- Non-vacuity of `cart_lock_one_speaker` / `cart_lock_target_not_excluded`: `renderCartLock` over ℝ is not
-- computable (`Real.sqrt`); the same definition runs over `Float` in the driver, where the correspondence
-- observes hundreds of inputs per run on which it locks (evidence keys "render cart+lock … -> locked") and
-- agrees with the real renderer.  The hypotheses `Distinct` / equal lengths are discharged for the ten layouts
-- by `tables_allo_ok` and `tables_groups_ok`.

/-! ## 9. Polar channel lock composed with the C05 point-source panner -/

/-- a position as the C05 model's vector -/
def vec3 (p : P3 ℝ) : PointSource.Vec3 ℝ := (p.x, p.y, p.z)

/-- **Table obligation, reused from C05 by import** (`PointSource.tables_wellFormed`): in every
regenerated layout each loudspeaker of the inner panner is a vertex of at least one region. -/
theorem polar_tables_every_speaker_is_vertex :
    Earverif.Gen.C05.layouts.all PointSource.RawLayout.covered = true := by
  have h := PointSource.tables_wellFormed
  rw [List.all_eq_true] at h ⊢
  intro l hl
  have := h l hl
  simp only [PointSource.RawLayout.wellFormed, Bool.and_eq_true] at this
  exact this.1.1.2

/-- **`_partial`: polar lock, first accepting region a triplet.** The polar lock handler locks
to loudspeaker `i` (a non-excluded loudspeaker of the layout: `lock_index_valid`).  *Remaining
hypothesis:* the first region of the panner that accepts the direction of loudspeaker `i` is a
triplet (invertible, distinct channels) that has `i` as a vertex at exactly that position.
Then `PointSourcePanner.handle` returns exactly `e_i` (C05 `triplet_exact_at_vertex`).  Not
proved here: that hypothesis for the real region lists (every loudspeaker *is* a vertex of some
region — `polar_tables_every_speaker_is_vertex` — but that the *first accepting* one is such a
region depends on the facet geometry), the downmix wrappers (0+2+0, virtual loudspeakers) and
float rounding (residues ~1e-17). -/
theorem polar_lock_one_speaker_partial
    (regions : List (PointSource.Region ℝ)) (n : Nat) (roots : Nat → Option ℝ × Option ℝ)
    (pos : List (P3 ℝ)) (prio : List Nat) (excluded : List Bool) (p : P3 ℝ) (maxD : Option ℝ) (i : Nat)
    (h : lockHandle false pos prio excluded p (some maxD) = .locked i)
    (k : Nat) (hk : k < regions.length) (c0 c1 c2 : Nat) (P : PointSource.Mat3 ℝ)
    (hreg : regions[k] = .triplet [c0, c1, c2] P) (hdet : PointSource.det3 P ≠ 0)
    (d01 : c0 ≠ c1) (d02 : c0 ≠ c2) (d12 : c1 ≠ c2) :
    ∃ c, pos[i]? = some c ∧ isExcl excluded i = false ∧
      ((∀ j, ∀ hj : j < k, regions[j].handle (roots j) (vec3 c) = none) →
       ((c0 = i ∧ P.1 = vec3 c) ∨ (c1 = i ∧ P.2.1 = vec3 c) ∨ (c2 = i ∧ P.2.2 = vec3 c)) →
       PointSource.PointSourcePanner.handle regions n roots (vec3 c) = some ((List.replicate n (0 : ℝ)).set i 1)) := by
  obtain ⟨hi, hex⟩ := lock_index_valid false pos prio excluded p (some maxD) i h
  refine ⟨pos[i], List.getElem?_eq_getElem hi, hex, ?_⟩
  intro hpre hvert
  obtain ⟨e1, e2, e3⟩ := PointSource.triplet_exact_at_vertex P hdet
  obtain ⟨s1, s2, s3⟩ := scatter_triplet_unit n c0 c1 c2 d01 d02 d12
  apply panner_first_accept regions n roots (vec3 pos[i]) k hk _ hpre
  rw [hreg]
  simp only [PointSource.Region.channels, PointSource.Region.handle, PointSource.remap]
  rcases hvert with ⟨rfl, hv⟩ | ⟨rfl, hv⟩ | ⟨rfl, hv⟩
  · rw [← hv, e1]; simp [PointSource.vecList, s1]
  · rw [← hv, e2]; simp [PointSource.vecList, s2]
  · rw [← hv, e3]; simp [PointSource.vecList, s3]

/-- **`_partial`: polar lock, first accepting region a quad.** Same statement when the first
accepting region is a quadrilateral whose selected roots put the direction at pan-square corner
`m` (`quad_corner` of C05; the roots come from `np.roots`, a parameter of the C05 model): the
answer is `e_i` for `i` = channel number `order[m]` of the region. -/
theorem polar_lock_one_speaker_quad_partial
    (regions : List (PointSource.Region ℝ)) (n : Nat) (roots : Nat → Option ℝ × Option ℝ) (q : PointSource.Vec3 ℝ)
    (k : Nat) (hk : k < regions.length) (a b c d : Nat) (Q : PointSource.QuadRegion ℝ)
    (hreg : regions[k] = .quad [a, b, c, d] Q)
    (dab : a ≠ b) (dac : a ≠ c) (dad : a ≠ d) (dbc : b ≠ c) (dbd : b ≠ d) (dcd : c ≠ d)
    (ho : PointSource.isPermOfRange Q.order 4 = true)
    (x y : ℝ) (m : Nat) (hroots : roots k = (some x, some y))
    (hm : (x, y, m) ∈ [((0 : ℝ), (0 : ℝ), 0), (1, 0, 1), (1, 1, 2), (0, 1, 3)])
    (out : List ℝ) (hacc : Q.handle (some x) (some y) q = some out)
    (hpre : ∀ j, ∀ hj : j < k, regions[j].handle (roots j) q = none) :
    PointSource.PointSourcePanner.handle regions n roots q =
      some ((List.replicate n (0 : ℝ)).set ([a, b, c, d].getD (Q.order.getD m 0) 0) 1) := by
  have hout := PointSource.quad_corner Q q x y m out ho hm hacc
  have hlt : Q.order.getD m 0 < 4 := by
    have hm4 : m < 4 := by
      simp only [List.mem_cons, Prod.mk.injEq, List.mem_nil_iff, or_false] at hm
      rcases hm with ⟨_, _, rfl⟩ | ⟨_, _, rfl⟩ | ⟨_, _, rfl⟩ | ⟨_, _, rfl⟩ <;> omega
    simp only [PointSource.isPermOfRange, Bool.and_eq_true, beq_iff_eq, List.all_eq_true, decide_eq_true_eq] at ho
    have hl : m < Q.order.length := by omega
    rw [List.getD_eq_getElem?_getD, List.getElem?_eq_getElem hl, Option.getD_some]
    exact ho.1.2 _ (List.getElem_mem hl)
  apply panner_first_accept regions n roots q k hk _ hpre
  rw [hreg]
  simp only [PointSource.Region.channels, PointSource.Region.handle, PointSource.remap, hroots, hacc, hout,
    Option.map_some]
  rw [scatter_quad_unit n a b c d dab dac dad dbc dbd dcd _ hlt]

end Earverif.C13
