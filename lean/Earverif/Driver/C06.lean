/- Line protocol for the C06 item-selection model.
   in : segments separated by `;`, first token of a segment is its tag:
        `R <prog|-> <sel>`                       request: chosen programme, selected complementary objects
        `P <idKey> <contents> <screen|-> <avs>`   audioProgramme
        `C <objects> <avs>`                       audioContent
        `O <packs> <tracks> <subObjects> <complementary> <start> <duration> <gain> <mute> <posOff> <importance> <avs>`
        `K <type> <channels> <subPacks> <importance> <absDist> <normalization> <nfcRefDist> <screenRef> <inputPack> <outputPack> <encodePacks>`  audioPackFormat
        `H <type> <lowPass> <highPass> <blocks> <order> <degree> <rtime> <duration> <gain> <importance> <normalization> <nfcRefDist> <screenRef> <outputChannel> <matrixGain> <coeffs>`  audioChannelFormat (a matrix coefficient is `input:gain:delay`)
        `S <channel>` audioStreamFormat   `F <stream>` audioTrackFormat   `U <trackIndex> t<i>|c<i> <pack>` audioTrackUID
        lists are comma separated (`_` = empty), options use `-`, rationals are `num/den`, booleans 0/1,
        silent tracks are `s`, an alternativeValueSet is `label:gain:mute:posOff`.
        track specs in the output: `D<i>` direct, `S` silent, `M(<spec>|gain|delay)`, `X[<spec>+<spec>..]` mix, `G(<spec>|gain)`.
        `W` instead of `R ..`                      request: the validation predicates of the document
   out: `ok <item> ; <item> ...` (items in selection order) | `err <kind>` | `bad-op`; an `R` request runs
        `Adm.selectValidated` (Model/SelectValidated.lean: the C14 model of `validate_structure` on `toDoc adm`, then
        the selection): a document the validation rejects gives `err validate:<function of the raise statement>`
        (`AdmKind.site`), a non-ADM failure inside the validation model `err validate-internal`;
        for `W`: `wf <multitreeOK 0|1> <wrappedNonempty 0|1> <vm 0|1> <vs 0|1>` where `vm` / `vs` = the C14 model's
        `validateMultitree` / `validateStructure` accept the document graph `toDoc adm` (link C06 ↔ C14). -/
import Earverif.Model.SelectItems
import Earverif.Model.Validate
import Earverif.Model.SelectValidated
import Earverif.Driver.Util
open Earverif.Adm Earverif.Driver

def pList {α : Type} (p : String → Option α) (s : String) : Option (List α) :=
  if s == "_" then some [] else (s.splitOn ",").mapM p

def pOpt {α : Type} (p : String → Option α) (s : String) : Option (Option α) :=
  if s == "-" then some none else (p s).map some

def pNat (s : String) : Option Nat := s.toNat?

def pRat (s : String) : Option Rat :=
  match s.splitOn "/" with
  | [n, d] => do
    let n ← n.toInt?
    let d ← d.toNat?
    if d == 0 then none else some (mkRat n d)
  | _ => none

def pBool (s : String) : Option Bool :=
  if s == "0" then some false else if s == "1" then some true else none

def pTrack (s : String) : Option (Option Nat) := if s == "s" then some none else (pNat s).map some

def pCoeff (s : String) : Option Coeff :=
  match s.splitOn ":" with
  | [i, g, d] => do some ⟨← pNat i, ← pOpt pRat g, ← pOpt pRat d⟩
  | _ => none

def pAvs (s : String) : Option Avs :=
  match s.splitOn ":" with
  | [l, g, m, o] => do some ⟨← pNat l, ← pOpt pRat g, ← pOpt pBool m, ← pOpt pNat o⟩
  | _ => none

structure Req where
  adm : Adm := default
  prog : Option Nat := none
  sel : List Nat := []
  seenR : Bool := false
  wfOnly : Bool := false

def addSeg (r : Req) (ws : List String) : Option Req :=
  let a := r.adm
  match ws with
  | ["R", p, s] => do some { r with prog := ← pOpt pNat p, sel := ← pList pNat s, seenR := true }
  | ["W"] => some { r with seenR := true, wfOnly := true }
  | ["P", k, c, sc, av] => do
    let p : Programme := ⟨← pNat k, ← pList pNat c, ← pOpt pNat sc, ← pList pNat av⟩
    some { r with adm := { a with programmes := a.programmes ++ [p] } }
  | ["C", o, av] => do
    let c : Content := ⟨← pList pNat o, ← pList pNat av⟩
    some { r with adm := { a with contents := a.contents ++ [c] } }
  | ["O", pk, tr, su, co, st, du, g, m, po, im, av] => do
    let o : Obj := ⟨← pList pNat pk, ← pList pTrack tr, ← pList pNat su, ← pList pNat co, ← pOpt pRat st,
      ← pOpt pRat du, ← pRat g, ← pBool m, ← pOpt pNat po, ← pOpt String.toInt? im, ← pList pAvs av⟩
    some { r with adm := { a with objects := a.objects ++ [o] } }
  | ["K", ty, ch, su, im, ad, no, nf, sr, ip, op, ep] => do
    let p : Pack := ⟨← pNat ty, ← pList pNat ch, ← pList pNat su, ← pOpt String.toInt? im, ← pOpt pRat ad,
      ← pOpt pNat no, ← pOpt pRat nf, ← pOpt pBool sr, ← pOpt pNat ip, ← pOpt pNat op, ← pList pNat ep⟩
    some { r with adm := { a with fmt := { a.fmt with packs := a.fmt.packs ++ [p] } } }
  | ["H", ty, lo, hi, bl, od, dg, rt, du, g, im, no, nf, sr, oc, mg, co] => do
    let h : HoaBlock := ⟨← od.toInt?, ← dg.toInt?, ← pOpt pRat rt, ← pOpt pRat du, ← pRat g, ← im.toInt?,
      ← pOpt pNat no, ← pOpt pRat nf, ← pOpt pBool sr⟩
    let m : MatrixBlock := ⟨← pOpt pNat oc, ← pRat mg, ← pList pCoeff co⟩
    let c : Channel := ⟨← pNat ty, ← pOpt pRat lo, ← pOpt pRat hi, ← pList pNat bl, h, m⟩
    some { r with adm := { a with fmt := { a.fmt with channels := a.fmt.channels ++ [c] } } }
  | ["S", c] => do
    some { r with adm := { a with fmt := { a.fmt with streamFormats := a.fmt.streamFormats ++ [← pNat c] } } }
  | ["F", s] => do
    some { r with adm := { a with fmt := { a.fmt with trackFormats := a.fmt.trackFormats ++ [← pNat s] } } }
  | ["U", ti, rf, pk] => do
    let ref ← (if rf.startsWith "t" then (pNat (rf.drop 1).toString).map TrackRef.trackFormat
               else if rf.startsWith "c" then (pNat (rf.drop 1).toString).map TrackRef.channel else none)
    let u : TrackUID := ⟨← pNat ti, ref, ← pNat pk⟩
    some { r with adm := { a with fmt := { a.fmt with trackUIDs := a.fmt.trackUIDs ++ [u] } } }
  | _ => none

def sRat (r : Rat) : String := s!"{r.num}/{r.den}"
def sOpt {α : Type} (f : α → String) : Option α → String
  | none => "-"
  | some x => f x
def sList {α : Type} (f : α → String) (sep : String) (l : List α) : String :=
  if l.isEmpty then "_" else sep.intercalate (l.map f)
def sBool (b : Bool) : String := if b then "1" else "0"
def sNat (n : Nat) : String := toString n
def sInt (n : Int) : String := toString n
def sPath (p : List Nat) : String := sList sNat "." p

partial def sSpec : TSpec → String
  | .direct i => s!"D{i}"
  | .silent => "S"
  | .matrix t g d => s!"M({sSpec t}|{sOpt sRat g}|{sOpt sRat d})"
  | .mix ts => "X[" ++ "+".intercalate (ts.map sSpec) ++ "]"
  | .gain t g => s!"G({sSpec t}|{sRat g})"

def showItem (i : Item) : String :=
  let e := i.extra
  let base := s!"k={i.kind} t={sList sSpec "," i.tracks} ch={sList sNat "," i.channels}" ++
    s!" pr={sOpt sNat i.programme} co={sOpt sNat i.content} op={sOpt sPath i.objPath}" ++
    s!" pp={sList sPath "," i.packPaths}" ++
    s!" st={sOpt sRat e.objectStart} du={sOpt sRat e.objectDuration} sc={sOpt sNat e.screen}" ++
    s!" lo={sOpt sRat e.lowPass} hi={sOpt sRat e.highPass} ad={sOpt sRat e.absDist}" ++
    s!" g={sRat e.gain} m={sBool e.mute} po={sOpt sNat e.posOff}" ++
    s!" im={sList (fun (x : Option Int × Option Int) => sOpt sInt x.1 ++ ":" ++ sOpt sInt x.2) "," i.importances}" ++
    s!" b={sList sNat "," i.blocks}"
  match i.hoa with
  | none => base
  | some h => base ++
    s!" rt={sOpt sRat h.rtime} hd={sOpt sRat h.duration} or={sList sInt "," h.orders} de={sList sInt "," h.degrees}" ++
    s!" hg={sList sRat "," h.gains} hi2={sList sInt "," h.importances} no={h.normalization}" ++
    s!" nf={sOpt sRat h.nfcRefDist} sr={sBool h.screenRef}"

def showErr : Err → String
  | .notComplementary => "notComplementary"
  | .multipleSelected => "multipleSelected"
  | .conflicting => "conflicting"
  | .ambiguous => "ambiguous"
  | .pathParamConflict => "pathParamConflict"
  | .paramMismatch => "paramMismatch"
  | .notImplemented => "notImplemented"
  | .internal => "internal"

def answer (line : String) : String :=
  let segs := (line.splitOn ";").map words
  match segs.foldlM addSeg ({} : Req) with
  | none => "bad-op"
  | some r =>
    let a := r.adm
    let okProg := match r.prog with | none => true | some p => p < a.programmes.length
    if !r.seenR || !a.refsInRange || !okProg || !r.sel.all (· < a.objects.length) then "bad-op"
    else if r.wfOnly then
      let d := toDoc a
      let vm := match Earverif.Validate.validateMultitree d with | .ok _ => true | .error _ => false
      let vs := match Earverif.Validate.validateStructure d with | .ok _ => true | .error _ => false
      s!"wf {sBool (multitreeOK a.fmt)} {sBool (wrappedNonempty a.fmt)} {sBool vm} {sBool vs}"
    else
      match selectValidated a r.prog r.sel with
      | .error (.inl (.adm k _)) => "err validate:" ++ k.site.1
      | .error (.inl (.internal _)) => "err validate-internal"
      | .error (.inr e) => "err " ++ showErr e
      | .ok items => "ok " ++ " ; ".intercalate (items.map showItem)

def main : IO Unit := lineLoop answer
