/-
C08 float leaf: `"{:.5f}".format` / `float()` (`FloatType`) and `"{:07.5f}".format(float(t))` / `Fraction()`
(`SecondsType`) of `ear/fileio/adm/xml.py`, modelled in `Model/FloatText.lean` over exact rationals.

Part 1 (rounding, unbounded statements from the nearest-value property of `rn53`, no enumeration):
  `rhe_nearest`, `rhe_tie_even`, `rhe_of_le_half`, `rn53_nearest`, `rn53_idem_pos`, `core`, `core_range`.
Part 2 (text): `parseFloat_body`, `parseFraction_body`, `fmtPad5_fin`.
Part 3: the statements used by `Props/C08.lean`.
-/
import Earverif.Model.FloatText
import Earverif.Proofs.C16Ieee
import Earverif.Proofs.C08Leaf

namespace Earverif.FloatText
open Earverif.Ieee Earverif.Digits

/-! ### Part 1: rounding -/

/-- `x` has at most 53 significant bits (it is its own binary64 rounding, exponent range aside) -/
def F53 (x : ℚ) : Prop := rn53 x = x

/-- `roundHalfEven m` is a nearest integer -/
theorem rhe_nearest (m : ℚ) (k : ℤ) : |(roundHalfEven m : ℚ) - m| ≤ |(k : ℚ) - m| := by
  by_cases h : |m - k| < 1 / 2
  · rw [rhe_snap m k h]
  · have := rhe_err m
    rw [abs_sub_comm] at h
    linarith [not_lt.mp h]

/-- a tie is resolved to the even neighbour -/
theorem rhe_tie_even (m : ℚ) (h : |(roundHalfEven m : ℚ) - m| = 1 / 2) : roundHalfEven m % 2 = 0 := by
  have h1 : ((m.floor : ℤ) : ℚ) ≤ m := Int.floor_le m
  have h2 : m < ((m.floor : ℤ) : ℚ) + 1 := Int.lt_floor_add_one m
  simp only [roundHalfEven] at h ⊢
  generalize m.floor = f at *
  split_ifs at h ⊢ with a b hc
  · exfalso; rw [abs_of_nonpos (by linarith)] at h; linarith
  · exfalso; push_cast at h; rw [abs_of_nonneg (by linarith)] at h; linarith
  · exact hc
  · omega

/-- an integer within 1/2 of `m` is the result, provided a tie points at an even integer -/
theorem rhe_of_le_half (m : ℚ) (n : ℤ) (h : |m - n| ≤ 1 / 2) (he : |m - n| = 1 / 2 → n % 2 = 0) :
    roundHalfEven m = n := by
  rcases lt_or_eq_of_le h with h | h
  · exact rhe_snap m n h
  · have hev := he h
    rcases (abs_eq (by norm_num : (0 : ℚ) ≤ 1 / 2)).mp h with h' | h'
    · have hf : m.floor = n := by rw [floor_eq, Int.floor_eq_iff]; constructor <;> linarith
      simp only [roundHalfEven, hf]
      split_ifs with a b <;> first | rfl | omega | (exfalso; linarith)
    · have hf : m.floor = n - 1 := by rw [floor_eq, Int.floor_eq_iff]; push_cast; constructor <;> linarith
      simp only [roundHalfEven, hf]
      split_ifs with a b c <;> first | omega | (exfalso; push_cast at *; linarith)

theorem F53_grid (x : ℚ) (hx : 0 < x) (h : F53 x) : ∃ k : ℤ, x = k * (2 : ℚ) ^ (ilog2 x - 52) := by
  unfold F53 at h
  simp only [rn53, if_neg (ne_of_gt hx), if_pos hx, rnAt] at h
  exact ⟨_, h.symm⟩

theorem two_pow_split (e : ℤ) : ((2 ^ 52 : ℤ) : ℚ) * (2 : ℚ) ^ (e - 52) = (2 : ℚ) ^ e := by
  have : ((2 ^ 52 : ℤ) : ℚ) = (2 : ℚ) ^ (52 : ℤ) := by norm_num
  rw [this, ← zpow_add₀ (by norm_num)]; congr 1; ring

/-- among the multiples of the grid step of its binade `rnAt` picks a nearest one -/
theorem rnAt_nearest (e : ℤ) (d : ℚ) (k : ℤ) : |rnAt e d - d| ≤ |(k : ℚ) * (2 : ℚ) ^ (e - 52) - d| := by
  have hP := two_zpow_pos (e - 52)
  simp only [rnAt]
  generalize (2 : ℚ) ^ (e - 52) = P at *
  have hd : d = d / P * P := by field_simp
  have h := rhe_nearest (d / P) k
  calc |(roundHalfEven (d / P) : ℚ) * P - d|
      = |((roundHalfEven (d / P) : ℚ) - d / P) * P| := by congr 1; rw [sub_mul, ← hd]
    _ = |(roundHalfEven (d / P) : ℚ) - d / P| * P := by rw [abs_mul, abs_of_pos hP]
    _ ≤ |(k : ℚ) - d / P| * P := mul_le_mul_of_nonneg_right h (le_of_lt hP)
    _ = |((k : ℚ) - d / P) * P| := by rw [abs_mul, abs_of_pos hP]
    _ = |(k : ℚ) * P - d| := by congr 1; rw [sub_mul, ← hd]

/-- `rn53 d` is a nearest 53-bit value: no 53-bit value is closer to `d` -/
theorem rn53_nearest (d z : ℚ) (hd : 0 < d) (hz : F53 z) : |rn53 d - d| ≤ |z - d| := by
  obtain ⟨s1, s2⟩ := ilog2_spec d hd
  rw [rn53_pos d _ s1 s2]
  generalize ilog2 d = e at *
  rcases le_or_gt ((2 : ℚ) ^ e) z with hze | hze
  · have hzpos : 0 < z := lt_of_lt_of_le (two_zpow_pos e) hze
    obtain ⟨k, hk⟩ := F53_grid z hzpos hz
    obtain ⟨_, t2⟩ := ilog2_spec z hzpos
    have hee : e ≤ ilog2 z := by
      have : (2 : ℚ) ^ e < (2 : ℚ) ^ (ilog2 z + 1) := lt_of_le_of_lt hze t2
      rw [zpow_lt_zpow_iff_right₀ (by norm_num)] at this; omega
    obtain ⟨j, hj⟩ := Int.eq_ofNat_of_zero_le (sub_nonneg.mpr hee)
    have hpow : (2 : ℚ) ^ (ilog2 z - 52) = ((2 ^ j : ℤ) : ℚ) * (2 : ℚ) ^ (e - 52) := by
      have : ilog2 z - 52 = (j : ℤ) + (e - 52) := by omega
      rw [this, zpow_add₀ (by norm_num), zpow_natCast]; push_cast; ring
    have := rnAt_nearest e d (k * 2 ^ j)
    have hz' : z = ((k * 2 ^ j : ℤ) : ℚ) * (2 : ℚ) ^ (e - 52) := by
      rw [hk, hpow]; push_cast; ring
    rw [← hz'] at this; exact this
  · have h1 := rnAt_nearest e d (2 ^ 52)
    rw [two_pow_split] at h1
    rw [abs_of_nonpos (by linarith : (2 : ℚ) ^ e - d ≤ 0)] at h1
    rw [abs_of_neg (by linarith : z - d < 0)]
    linarith

/-- rounding lands in the closed binade -/
theorem rnAt_bounds (e : ℤ) (c : ℚ) (h1 : (2 : ℚ) ^ e ≤ c) (h2 : c < (2 : ℚ) ^ (e + 1)) :
    (2 : ℚ) ^ e ≤ rnAt e c ∧ rnAt e c ≤ (2 : ℚ) ^ (e + 1) := by
  constructor
  · have := rnAt_ge e c (2 ^ 52) (by rw [two_pow_split]; exact h1)
    rwa [two_pow_split] at this
  · have hh : ((2 ^ 53 : ℤ) : ℚ) * (2 : ℚ) ^ (e - 52) = (2 : ℚ) ^ (e + 1) := by
      have : ((2 ^ 53 : ℤ) : ℚ) = (2 : ℚ) ^ (53 : ℤ) := by norm_num
      rw [this, ← zpow_add₀ (by norm_num)]; congr 1; ring
    have := rnAt_le e c (2 ^ 53) (by rw [hh]; exact le_of_lt h2)
    rwa [hh] at this

/-- a rounded value is a 53-bit value -/
theorem rn53_idem_pos (c : ℚ) (hc : 0 < c) : F53 (rn53 c) := by
  obtain ⟨s1, s2⟩ := ilog2_spec c hc
  unfold F53
  rw [rn53_pos c _ s1 s2]
  generalize ilog2 c = e at *
  obtain ⟨b1, b2⟩ := rnAt_bounds e c s1 s2
  have hP := two_zpow_pos (e - 52)
  rcases lt_or_eq_of_le b2 with b2 | b2
  · rw [rn53_pos _ e b1 b2]
    have : rnAt e c = ((roundHalfEven (c / (2 : ℚ) ^ (e - 52)) : ℤ) : ℚ) * (2 : ℚ) ^ (e - 52) := rfl
    rw [this]
    apply rnAt_snap
    rw [sub_self, abs_zero]; positivity
  · have hb : (2 : ℚ) ^ (e + 1) < (2 : ℚ) ^ (e + 1 + 1) := by
      rw [zpow_lt_zpow_iff_right₀ (by norm_num)]; omega
    rw [b2, rn53_pos _ (e + 1) le_rfl hb]
    have h := rnAt_snap (e + 1) ((2 : ℚ) ^ (e + 1)) (2 ^ 52)
      (by rw [two_pow_split, sub_self, abs_zero]; have := two_zpow_pos (e + 1 - 52); positivity)
    rw [two_pow_split] at h; exact h

theorem rn53_ge_pow (d : ℚ) (j : ℤ) (h : (2 : ℚ) ^ j ≤ d) : (2 : ℚ) ^ j ≤ rn53 d := by
  have hd : 0 < d := lt_of_lt_of_le (two_zpow_pos j) h
  obtain ⟨s1, s2⟩ := ilog2_spec d hd
  rw [rn53_pos d _ s1 s2]
  have hje : j ≤ ilog2 d := by
    have : (2 : ℚ) ^ j < (2 : ℚ) ^ (ilog2 d + 1) := lt_of_le_of_lt h s2
    rw [zpow_lt_zpow_iff_right₀ (by norm_num)] at this; omega
  calc (2 : ℚ) ^ j ≤ (2 : ℚ) ^ (ilog2 d) := (zpow_le_zpow_iff_right₀ (by norm_num)).mpr hje
    _ ≤ _ := (rnAt_bounds _ d s1 s2).1

/-- a 53-bit value below `2^j` is at least one grid step of the top binade below it -/
theorem F53_lt_pow (x : ℚ) (j : ℤ) (hx : 0 < x) (hF : F53 x) (hlt : x < (2 : ℚ) ^ j) :
    x ≤ (2 : ℚ) ^ j - (2 : ℚ) ^ (j - 53) := by
  obtain ⟨s1, s2⟩ := ilog2_spec x hx
  obtain ⟨k, hk⟩ := F53_grid x hx hF
  generalize ilog2 x = e at *
  have hej : e < j := by
    have : (2 : ℚ) ^ e < (2 : ℚ) ^ j := lt_of_le_of_lt s1 hlt
    rwa [zpow_lt_zpow_iff_right₀ (by norm_num)] at this
  have hsplit : (2 : ℚ) ^ j = 2 * (2 : ℚ) ^ (j - 1) := by
    rw [show j = 1 + (j - 1) by ring, zpow_add₀ (by norm_num), zpow_one]; congr 2; ring
  have hsmall : (2 : ℚ) ^ (j - 53) ≤ (2 : ℚ) ^ (j - 1) :=
    (zpow_le_zpow_iff_right₀ (by norm_num)).mpr (by omega)
  rcases eq_or_lt_of_le (show e ≤ j - 1 by omega) with he | he
  · subst he
    have e1 : j - 1 - 52 = j - 53 := by ring
    rw [e1] at hk
    have hP := two_zpow_pos (j - 53)
    have hj : (2 : ℚ) ^ j = ((2 ^ 53 : ℤ) : ℚ) * (2 : ℚ) ^ (j - 53) := by
      have : ((2 ^ 53 : ℤ) : ℚ) = (2 : ℚ) ^ (53 : ℤ) := by norm_num
      rw [this, ← zpow_add₀ (by norm_num)]; congr 1; ring
    have hk53 : k < 2 ^ 53 := by
      have : (k : ℚ) * (2 : ℚ) ^ (j - 53) < ((2 ^ 53 : ℤ) : ℚ) * (2 : ℚ) ^ (j - 53) := by
        rw [← hk, ← hj]; exact hlt
      have := lt_of_mul_lt_mul_right this (le_of_lt hP)
      exact_mod_cast this
    have hk' : (k : ℚ) ≤ ((2 ^ 53 : ℤ) : ℚ) - 1 := by
      have : k ≤ 2 ^ 53 - 1 := by omega
      exact_mod_cast this
    rw [hk, hj]
    nlinarith
  · have : (2 : ℚ) ^ (e + 1) ≤ (2 : ℚ) ^ (j - 1) := (zpow_le_zpow_iff_right₀ (by norm_num)).mpr (by omega)
    linarith

/-! ### the five-decimal grid -/

theorem scale5 (a : ℚ) (n : ℤ) : |a * 100000 - n| = |a - (n : ℚ) / 100000| * 100000 := by
  have : a * 100000 - n = (a - (n : ℚ) / 100000) * 100000 := by ring
  rw [this, abs_mul, abs_of_pos (by norm_num : (0 : ℚ) < 100000)]

theorem rn53_zero' : rn53 0 = 0 := by simp [rn53]

theorem rhe_zero : roundHalfEven 0 = 0 := by
  have := rhe_snap 0 0 (by norm_num)
  simpa using this

/-- The heart of the fixed-point property.  `x ≥ 0` a 53-bit value, `n` = its five-decimal rounding (as an integer
count of 1e-5), `d = n / 10^5` the decimal that is printed, `rn53 d` what is read back.  Then reading back and
printing again gives `n` again — for EVERY magnitude: `rn53 d` is at least as close to `d` as `x` is
(`rn53_nearest`), hence within half a unit of the fifth decimal; and if it is exactly half a unit away then so was
`x`, so `n` is even (ties-to-even of the printer) and the tie is resolved to `n` again. -/
theorem core (x : ℚ) (h0 : 0 ≤ x) (hF : F53 x) :
    roundHalfEven (rn53 ((roundHalfEven (x * 100000) : ℚ) / 100000) * 100000) = roundHalfEven (x * 100000) ∧
    |rn53 ((roundHalfEven (x * 100000) : ℚ) / 100000) - (roundHalfEven (x * 100000) : ℚ) / 100000| ≤
      |x - (roundHalfEven (x * 100000) : ℚ) / 100000| ∧
    |x - (roundHalfEven (x * 100000) : ℚ) / 100000| ≤ 1 / 200000 ∧
    0 ≤ roundHalfEven (x * 100000) := by
  have hn0 : 0 ≤ roundHalfEven (x * 100000) := rhe_ge _ 0 (by push_cast; nlinarith)
  have herr := rhe_err (x * 100000)
  generalize hn : roundHalfEven (x * 100000) = n at *
  have hxd : |x - (n : ℚ) / 100000| ≤ 1 / 200000 := by
    have := scale5 x n
    rw [abs_sub_comm] at herr
    rw [this] at herr
    linarith
  rcases eq_or_lt_of_le hn0 with hz | hpos
  · subst hz
    simp only [Int.cast_zero, zero_div, rn53_zero', zero_mul, rhe_zero, sub_self, abs_zero, true_and, le_refl, and_true]
    refine ⟨abs_nonneg _, ?_⟩
    simpa using hxd
  · have hd : (0 : ℚ) < (n : ℚ) / 100000 := by
      have : (0 : ℚ) < n := by exact_mod_cast hpos
      positivity
    have hnear := rn53_nearest _ x hd hF
    refine ⟨?_, hnear, hxd, hn0⟩
    have hle : |rn53 ((n : ℚ) / 100000) * 100000 - n| ≤ |x * 100000 - n| := by
      rw [scale5, scale5]; exact mul_le_mul_of_nonneg_right hnear (by norm_num)
    have hx5 : |x * 100000 - n| ≤ 1 / 2 := by rw [abs_sub_comm]; exact herr
    apply rhe_of_le_half _ _ (le_trans hle hx5)
    intro htie
    have : |(roundHalfEven (x * 100000) : ℚ) - x * 100000| = 1 / 2 := by
      rw [hn, abs_sub_comm]; linarith
    have := rhe_tie_even _ this
    rw [hn] at this; exact this

theorem small_rounds_to_zero (x : ℚ) (h0 : 0 ≤ x) (h : x ≤ (2 : ℚ) ^ (-1022 : ℤ)) :
    roundHalfEven (x * 100000) = 0 := by
  apply rhe_snap
  have : (2 : ℚ) ^ (-1022 : ℤ) < 1 / 1000000 := by
    rw [zpow_neg, inv_lt_comm₀ (by positivity) (by norm_num)]
    calc (1 / 1000000 : ℚ)⁻¹ = 1000000 := by norm_num
      _ < (2 : ℚ) ^ (20 : ℤ) := by norm_num
      _ ≤ (2 : ℚ) ^ (1022 : ℤ) := (zpow_le_zpow_iff_right₀ (by norm_num)).mpr (by norm_num)
  rw [Int.cast_zero, sub_zero, abs_of_nonneg (by positivity)]
  linarith

theorem tiny_lt : (2 : ℚ) ^ (-1022 : ℤ) < 1 / 1000000 := by
  rw [zpow_neg, inv_lt_comm₀ (by positivity) (by norm_num)]
  calc (1 / 1000000 : ℚ)⁻¹ = 1000000 := by norm_num
    _ < (2 : ℚ) ^ (20 : ℤ) := by norm_num
    _ ≤ (2 : ℚ) ^ (1022 : ℤ) := (zpow_le_zpow_iff_right₀ (by norm_num)).mpr (by norm_num)

theorem rn64_zero : rn64 0 = some 0 := by
  have h : (0 : ℚ) < (2 : ℚ) ^ (-1022 : ℤ) := two_zpow_pos _
  simp only [rn64, if_pos h, zero_div, rhe_zero, Int.cast_zero, zero_mul]

/-- `rn64` in the normal range -/
theorem rn64_normal (d : ℚ) (h1 : (2 : ℚ) ^ (-1022 : ℤ) ≤ d) (h2 : rn53 d < (2 : ℚ) ^ (1024 : ℤ)) :
    rn64 d = some (rn53 d) := by
  simp only [rn64, if_neg (not_lt.mpr h1), if_pos h2]

/-- a binary64 magnitude: non-negative and its own correctly rounded value (subnormals and range included) -/
def IsDouble (m : ℚ) : Prop := 0 ≤ m ∧ rn64 m = some m

theorem IsDouble.cases {m : ℚ} (h : IsDouble m) :
    m ≤ (2 : ℚ) ^ (-1022 : ℤ) ∨ (F53 m ∧ m < (2 : ℚ) ^ (1024 : ℤ) ∧ (2 : ℚ) ^ (-1022 : ℤ) ≤ m) := by
  obtain ⟨_, h⟩ := h
  by_cases hs : m < (2 : ℚ) ^ (-1022 : ℤ)
  · exact Or.inl (le_of_lt hs)
  · right
    simp only [rn64, if_neg hs] at h
    split_ifs at h with hy
    have := Option.some.inj h
    exact ⟨this, by rw [this] at hy; exact hy, not_lt.mp hs⟩

/-- what is read back from the five decimals printed for a 53-bit value below `2^1024` is in range -/
theorem core_range (x : ℚ) (h0 : 0 ≤ x) (hF : F53 x) (hlt : x < (2 : ℚ) ^ (1024 : ℤ)) :
    rn64 ((roundHalfEven (x * 100000) : ℚ) / 100000) = some (rn53 ((roundHalfEven (x * 100000) : ℚ) / 100000)) := by
  obtain ⟨_, hnear, hxd, hn0⟩ := core x h0 hF
  generalize roundHalfEven (x * 100000) = n at *
  rcases eq_or_lt_of_le hn0 with hz | hpos
  · subst hz; simp [rn64_zero, rn53_zero']
  · have hn1 : (1 : ℚ) ≤ n := by exact_mod_cast hpos
    have hd : (1 : ℚ) / 100000 ≤ (n : ℚ) / 100000 := by
      apply div_le_div_of_nonneg_right hn1 (by norm_num)
    have hxpos : 0 < x := by
      rcases eq_or_lt_of_le h0 with hx | hx
      · exfalso; subst hx
        rw [zero_sub, abs_neg, abs_of_nonneg (by positivity)] at hxd; linarith
      · exact hx
    have hmax := F53_lt_pow x 1024 hxpos hF hlt
    have hbig : (1 : ℚ) < (2 : ℚ) ^ ((1024 : ℤ) - 53) := by
      have : (1 : ℚ) = (2 : ℚ) ^ (0 : ℤ) := by norm_num
      rw [this, zpow_lt_zpow_iff_right₀ (by norm_num)]; norm_num
    apply rn64_normal
    · have := tiny_lt; linarith
    · have a1 := abs_le.mp hnear
      have a2 := abs_le.mp hxd
      have a3 := abs_le.mp (le_trans hnear hxd)
      linarith [a3.2, a2.1]

/-! ### Part 2: text -/

/-- the text printed for the count `n` of 1e-5 units -/
def numText (n : ℕ) : List Char := decStr (n / 100000) ++ '.' :: decPad 5 (n % 100000)

theorem body5_eq (m : ℚ) : body5 m = numText (roundHalfEven (m * 100000)).toNat := rfl

theorem isDec_iff (c : Char) : isDec c = true ↔
    c = '0' ∨ c = '1' ∨ c = '2' ∨ c = '3' ∨ c = '4' ∨ c = '5' ∨ c = '6' ∨ c = '7' ∨ c = '8' ∨ c = '9' := by
  simp [isDec, or_assoc]

theorem isDec_props (c : Char) (h : isDec c = true) :
    isSpace c = false ∧ isReSpace c = false ∧ c ≠ '_' ∧ c ≠ '-' ∧ c ≠ '+' ∧ c ≠ '.' ∧ c ≠ '/' ∧ lower c = c ∧
    c ≠ 'i' ∧ c ≠ 'n' := by
  rcases (isDec_iff c).mp h with h | h | h | h | h | h | h | h | h | h <;> subst h <;> decide

theorem numText_chars (n : ℕ) : ∀ c ∈ numText n, isDec c = true ∨ c = '.' := by
  intro c hc
  unfold numText at hc
  rw [List.mem_append, List.mem_cons] at hc
  rcases hc with hc | hc | hc
  · exact Or.inl (decStr_all_dec _ c hc)
  · exact Or.inr hc
  · exact Or.inl (decPad_all_dec 5 _ c hc)

theorem numText_head (n : ℕ) : ∃ c cs, numText n = c :: cs ∧ isDec c = true := by
  unfold numText
  cases h : decStr (n / 100000) with
  | nil => exact absurd h (decStr_ne_nil _)
  | cons c cs => exact ⟨c, _, rfl, decStr_all_dec (n / 100000) c (by rw [h]; simp)⟩

theorem dropWhile_none {p : Char → Bool} (l : List Char) (h : ∀ c ∈ l, p c = false) : l.dropWhile p = l := by
  cases l with
  | nil => rfl
  | cons c r => simp [h c (by simp)]

theorem strip_eq (s : List Char) (h : ∀ c ∈ s, isSpace c = false) : strip s = s := by
  unfold strip
  rw [dropWhile_none s h, dropWhile_none s.reverse (fun c hc => h c (List.mem_reverse.mp hc)), List.reverse_reverse]

theorem deUnderscore_eq (prev : Option Char) (s : List Char) (hp : prev ≠ some '_') (h : ∀ c ∈ s, c ≠ '_') :
    deUnderscore prev s = some s := by
  induction s generalizing prev with
  | nil =>
    have : (prev == some '_') = false := by simpa using hp
    simp [deUnderscore, this]
  | cons c r ih =>
    have hc : (c == '_') = false := by simpa using h c (by simp)
    have hpb : (prev == some '_') = false := by simpa using hp
    have := ih (some c) (by simpa using h c (by simp)) (fun d hd => h d (by simp [hd]))
    simp [deUnderscore, hc, hpb, this]

theorem sign_text_chars (neg : Bool) (n : ℕ) :
    (∀ c ∈ (if neg then '-' :: numText n else numText n), isSpace c = false) ∧
    (∀ c ∈ (if neg then '-' :: numText n else numText n), c ≠ '_') := by
  have hb : ∀ c ∈ numText n, isSpace c = false ∧ c ≠ '_' := by
    intro c hc
    rcases numText_chars n c hc with h | h
    · exact ⟨(isDec_props c h).1, (isDec_props c h).2.2.1⟩
    · subst h; exact ⟨by decide, by decide⟩
  cases neg
  · exact ⟨fun c hc => (hb c hc).1, fun c hc => (hb c hc).2⟩
  · constructor
    · intro c hc
      rcases List.mem_cons.mp hc with h | h
      · subst h; decide
      · exact (hb c h).1
    · intro c hc
      rcases List.mem_cons.mp hc with h | h
      · subst h; decide
      · exact (hb c h).2

theorem takeSign_text (neg : Bool) (n : ℕ) :
    takeSign (if neg then '-' :: numText n else numText n) = (neg, numText n) := by
  cases neg
  · obtain ⟨c, cs, hcs, hc⟩ := numText_head n
    have hp := isDec_props c hc
    simp only [Bool.false_eq_true, if_false, hcs]
    unfold takeSign
    split
    · rename_i r heq; injection heq with h1 _; exact absurd h1 hp.2.2.2.1
    · rename_i r heq; injection heq with h1 _; exact absurd h1 hp.2.2.2.2.1
    · rfl
  · rfl

theorem parseDecimal_numText (n : ℕ) :
    parseDecimal (numText n) = some (decStr (n / 100000), decPad 5 (n % 100000), 0) := by
  unfold parseDecimal numText
  have hs := takeWhile_isDec (decStr (n / 100000)) ('.' :: decPad 5 (n % 100000)) (decStr_all_dec _)
    (Or.inr ⟨'.', _, rfl, by decide⟩)
  have hf := takeWhile_isDec (decPad 5 (n % 100000)) [] (decPad_all_dec 5 _) (Or.inl rfl)
  rw [List.append_nil] at hf
  have hne : (decStr (n / 100000)).isEmpty = false := by
    cases h : decStr (n / 100000) with
    | nil => exact absurd h (decStr_ne_nil _)
    | cons c cs => rfl
  simp only [hs.1, hs.2, hf.1, hf.2, hne, Bool.false_and, parseExp, Option.map_some]
  rfl

theorem decNat_append (a b : List Char) : decNat (a ++ b) = decNat a * 10 ^ b.length + decNat b := by
  unfold decNat ofDigits
  rw [List.map_append, List.foldl_append, foldl_horner, List.length_map]
  rfl

theorem decNat_numText (n : ℕ) : decNat (decStr (n / 100000) ++ decPad 5 (n % 100000)) = n := by
  rw [decNat_append, decNat_decStr, decNat_decPad,
    Earverif.XmlCodec.decPad_length 5 _ (by omega) (by omega)]
  have := Nat.div_add_mod n 100000
  omega

theorem decNat_zero_of_dropWhile (l : List Char) (h : l.dropWhile (· == '0') = []) : decNat l = 0 := by
  induction l with
  | nil => rfl
  | cons c r ih =>
    rw [List.dropWhile_cons] at h
    split at h
    · rename_i hc
      have : c = '0' := by simpa using hc
      subst this
      have := ih h
      unfold decNat at this ⊢
      rw [List.map_cons, decVal_zero, ofDigits_cons_zero]; exact this
    · cases h

theorem decStr_length_le (w q : ℕ) (hw : 1 ≤ w) (h : q < 10 ^ w) : (decStr q).length ≤ w := by
  unfold decStr; rw [List.length_map]
  exact natDigits_length_le 8 w q hw (by simpa using h)

theorem decimalValue_numText (n : ℕ) :
    decimalValue (decStr (n / 100000)) (decPad 5 (n % 100000)) 0 = (n : ℚ) / 100000 := by
  unfold decimalValue
  rw [decNat_numText, Earverif.XmlCodec.decPad_length 5 _ (by omega) (by omega)]
  norm_num
  ring

/-- the value of the printed text: what `float()` makes of the digits -/
theorem roundDecimal_numText (neg : Bool) (n : ℕ) (y : ℚ) (hn : n < 10 ^ 314)
    (hy : rn64 ((n : ℚ) / 100000) = some y) :
    roundDecimal neg (decStr (n / 100000)) (decPad 5 (n % 100000)) 0 = .fin neg y := by
  have hlen5 : (decPad 5 (n % 100000)).length = 5 := Earverif.XmlCodec.decPad_length 5 _ (by omega) (by omega)
  have hval := decimalValue_numText n
  unfold roundDecimal
  simp only []
  split_ifs with h1 h2 h3
  · -- all digits zero
    have hz : n = 0 := by
      have := decNat_zero_of_dropWhile _ (List.isEmpty_iff.mp h1)
      rw [decNat_numText] at this; exact this
    subst hz
    rw [Nat.cast_zero, zero_div, rn64_zero] at hy
    rw [Option.some.inj hy]
  · exfalso
    have hq : n / 100000 < 10 ^ 309 := by
      have : (10 : ℕ) ^ 314 = 10 ^ 309 * 100000 := by
        rw [show (100000 : ℕ) = 10 ^ 5 by norm_num, ← pow_add]
      rw [this] at hn
      exact Nat.div_lt_of_lt_mul (by rw [Nat.mul_comm]; exact hn)
    have hl := decStr_length_le 309 _ (by norm_num) hq
    have hd := ((decStr (n / 100000) ++ decPad 5 (n % 100000)).dropWhile_sublist (· == '0')).length_le
    rw [List.length_append, hlen5] at hd
    rw [hlen5] at h2
    omega
  · exfalso
    rw [hlen5] at h3
    omega
  · rw [hval, hy]

theorem special_names (c : Char) (cs : List Char) (hc : isDec c = true) :
    ¬ ((c :: cs).map lower = ['i', 'n', 'f'] ∨ (c :: cs).map lower = ['i', 'n', 'f', 'i', 'n', 'i', 't', 'y']) ∧
    ¬ ((c :: cs).map lower = ['n', 'a', 'n']) := by
  have hp := isDec_props c hc
  simp only [List.map_cons, hp.2.2.2.2.2.2.2.1, List.cons.injEq, hp.2.2.2.2.2.2.2.2.1, hp.2.2.2.2.2.2.2.2.2, false_and,
    or_self, not_false_eq_true, and_self]

/-- `float()` of the text printed for `n` units of 1e-5 with sign `neg` -/
theorem parseFloat_text (neg : Bool) (n : ℕ) (y : ℚ) (hn : n < 10 ^ 314)
    (hy : rn64 ((n : ℚ) / 100000) = some y) :
    parseFloat (if neg then '-' :: numText n else numText n) = some (.fin neg y) := by
  obtain ⟨hsp, hus⟩ := sign_text_chars neg n
  unfold parseFloat
  rw [strip_eq _ hsp, deUnderscore_eq none _ (by simp) hus]
  simp only [takeSign_text]
  obtain ⟨c, cs, hcs, hc⟩ := numText_head n
  have hnm := special_names c cs hc
  rw [← hcs] at hnm
  rw [if_neg hnm.1, if_neg hnm.2, parseDecimal_numText]
  simp only [Option.map_some, roundDecimal_numText neg n y hn hy]

theorem numText_length (n : ℕ) : 7 ≤ (numText n).length := by
  unfold numText
  rw [List.length_append, List.length_cons, Earverif.XmlCodec.decPad_length 5 _ (by omega) (by omega)]
  have := decStr_length_pos (n / 100000)
  omega

theorem padLeft_of_le {α} (w : ℕ) (fill : α) (xs : List α) (h : w ≤ xs.length) : padLeft w fill xs = xs := by
  unfold padLeft
  rw [Nat.sub_eq_zero_of_le h]; rfl

/-- `{:07.5f}` never pads a finite number: `0.00000` already has seven characters -/
theorem fmt07_5_fin (neg : Bool) (m : ℚ) : fmt07_5 (.fin neg m) = fmt5 (.fin neg m) := by
  have h5 : fmt5 (.fin neg m) = if neg then '-' :: numText (roundHalfEven (m * 100000)).toNat
      else numText (roundHalfEven (m * 100000)).toNat := rfl
  unfold fmt07_5 fmtPad5
  rw [h5]
  have hl := numText_length (roundHalfEven (m * 100000)).toNat
  cases neg
  · obtain ⟨c, cs, hcs, hc⟩ := numText_head (roundHalfEven (m * 100000)).toNat
    have hp := isDec_props c hc
    simp only [Bool.false_eq_true, if_false]
    rw [hcs] at hl ⊢
    split
    · rename_i b heq; injection heq with h1 _; exact absurd h1 hp.2.2.2.1
    · exact padLeft_of_le _ _ _ hl
  · simp only [if_true]
    rw [padLeft_of_le _ _ _ (by omega)]

/-- `Fraction()` of the text printed for `n` units of 1e-5 -/
theorem parseFraction_numText (n : ℕ) : parseFraction (numText n) = some ((n : ℚ) / 100000) := by
  obtain ⟨c, cs, hcs, hc⟩ := numText_head n
  have hp := isDec_props c hc
  have hs := takeWhile_isDec (decStr (n / 100000)) ('.' :: decPad 5 (n % 100000)) (decStr_all_dec _)
    (Or.inr ⟨'.', _, rfl, by decide⟩)
  have hf := takeWhile_isDec (decPad 5 (n % 100000)) [] (decPad_all_dec 5 _) (Or.inl rfl)
  rw [List.append_nil] at hf
  have hts := takeSign_text false n
  simp only [Bool.false_eq_true, if_false] at hts
  have hdw : (numText n).dropWhile isReSpace = numText n := by
    rw [hcs]; simp [hp.2.1]
  have hdot : ('.' :: decPad 5 (n % 100000)).dropWhile isReSpace = '.' :: decPad 5 (n % 100000) := by
    have : isReSpace '.' = false := by decide
    simp [this]
  unfold parseFraction
  rw [hdw, hts]
  simp only []
  have hs1 : List.takeWhile isDec (numText n) = decStr (n / 100000) := hs.1
  have hs2 : List.dropWhile isDec (numText n) = '.' :: decPad 5 (n % 100000) := hs.2
  rw [hs1, hs2, hdot, hcs]
  simp only [hc, Bool.true_or, Bool.not_true, Bool.false_eq_true, if_false]
  split
  · rename_i r heq; injection heq with h1 _; exact absurd h1 (by decide)
  · simp only [hf.1, hf.2, List.dropWhile_nil, List.isEmpty_nil, if_true, decimalValue_numText]

/-! ### Part 3: the round trip of the float leaf -/

theorem toNat_cast (n : ℤ) (h : 0 ≤ n) : ((n.toNat : ℕ) : ℚ) = (n : ℚ) := by
  have : ((n.toNat : ℕ) : ℤ) = n := Int.toNat_of_nonneg h
  exact_mod_cast this

theorem rn53_rel_err (d : ℚ) (hd : 0 < d) : |rn53 d - d| ≤ d / 2 ^ 53 := by
  obtain ⟨s1, s2⟩ := ilog2_spec d hd
  rw [rn53_pos d _ s1 s2]
  have h := rnAt_err (ilog2 d) d
  have : (2 : ℚ) ^ (ilog2 d - 52) / 2 = (2 : ℚ) ^ (ilog2 d) / 2 ^ 53 := by
    rw [zpow_sub₀ (by norm_num)]; norm_num; ring
  rw [this] at h
  exact le_trans h (div_le_div_of_nonneg_right s1 (by positivity))

theorem two_pow_1024 : (2 : ℚ) ^ (1024 : ℤ) = ((2 ^ 1024 : ℕ) : ℚ) := by norm_num

set_option exponentiation.threshold 1100 in
/-- the count of 1e-5 units of a value below `2^1024 + 1` has at most 314 digits -/
theorem units_lt (n : ℕ) (h : (n : ℚ) / 100000 < (2 : ℚ) ^ (1024 : ℤ) + 1) : n < 10 ^ 314 := by
  rw [two_pow_1024, div_lt_iff₀ (by norm_num)] at h
  have h' : n < (2 ^ 1024 + 1) * 100000 := by exact_mod_cast h
  exact lt_trans h' (by norm_num)

/-- Everything about one print / parse of a finite binary64 magnitude `m`, any sign.  With `n` the five-decimal
rounding of `m` and `d = n / 10^5`: the printed text is read back as a binary64 number `y` with the same sign, which
prints as the same text again, is at least as close to `d` as `m` was, and within relative 2^-53 of `d`. -/
theorem roundtrip_master (neg : Bool) (m : ℚ) (hm : IsDouble m) :
    ∃ y, IsDouble y ∧ parseFloat (fmt5 (.fin neg m)) = some (.fin neg y) ∧
      roundHalfEven (y * 100000) = roundHalfEven (m * 100000) ∧
      |y - (roundHalfEven (m * 100000) : ℚ) / 100000| ≤ |m - (roundHalfEven (m * 100000) : ℚ) / 100000| ∧
      |m - (roundHalfEven (m * 100000) : ℚ) / 100000| ≤ 1 / 200000 ∧
      |y - (roundHalfEven (m * 100000) : ℚ) / 100000| ≤ (roundHalfEven (m * 100000) : ℚ) / 100000 / 2 ^ 53 := by
  have hfmt : fmt5 (.fin neg m) = if neg then '-' :: numText (roundHalfEven (m * 100000)).toNat
      else numText (roundHalfEven (m * 100000)).toNat := rfl
  rcases hm.cases with hs | ⟨hF, hlt, hge⟩
  · -- zero and subnormals: everything is printed as 0.00000
    have hn := small_rounds_to_zero m hm.1 hs
    refine ⟨0, ⟨le_refl _, rn64_zero⟩, ?_, ?_, ?_, ?_, ?_⟩
    · rw [hfmt, hn]
      exact parseFloat_text neg 0 0 (by norm_num) (by simpa using rn64_zero)
    · rw [zero_mul, rhe_zero, hn]
    · rw [hn]; simp only [Int.cast_zero, zero_div, sub_self, abs_zero, sub_zero]; exact abs_nonneg _
    · rw [hn]; simp only [Int.cast_zero, zero_div, sub_zero]
      rw [abs_of_nonneg hm.1]
      have := tiny_lt; linarith
    · rw [hn]; simp
  · obtain ⟨hfix, hnear, hxd, hn0⟩ := core m hm.1 hF
    have hrange := core_range m hm.1 hF hlt
    generalize hn : roundHalfEven (m * 100000) = n at *
    have hcast := toNat_cast n hn0
    have hN : n.toNat < 10 ^ 314 := by
      apply units_lt
      rw [hcast]
      have := abs_le.mp hxd
      linarith
    refine ⟨rn53 ((n : ℚ) / 100000), ?_, ?_, hfix, hnear, hxd, ?_⟩
    · -- the value read back is a binary64 number
      rcases eq_or_lt_of_le hn0 with hz | hpos
      · subst hz; simp only [Int.cast_zero, zero_div, rn53_zero']; exact ⟨le_refl _, rn64_zero⟩
      · have hn1 : (1 : ℚ) ≤ n := by exact_mod_cast hpos
        have hd : (2 : ℚ) ^ (-1022 : ℤ) ≤ (n : ℚ) / 100000 := by
          have : (1 : ℚ) / 100000 ≤ (n : ℚ) / 100000 := div_le_div_of_nonneg_right hn1 (by norm_num)
          have := tiny_lt; linarith
        have hdpos : (0 : ℚ) < (n : ℚ) / 100000 := lt_of_lt_of_le (two_zpow_pos _) hd
        have hy1 := rn53_ge_pow _ _ hd
        have hyF := rn53_idem_pos _ hdpos
        have hylt : rn53 ((n : ℚ) / 100000) < (2 : ℚ) ^ (1024 : ℤ) := by
          simp only [rn64, if_neg (not_lt.mpr hd)] at hrange
          by_contra hc
          rw [if_neg hc] at hrange; cases hrange
        refine ⟨le_trans (le_of_lt (two_zpow_pos _)) hy1, ?_⟩
        have := rn64_normal _ hy1 (by rw [hyF]; exact hylt)
        rw [hyF] at this; exact this
    · rw [hfmt]
      apply parseFloat_text neg n.toNat _ hN
      rw [hcast]; exact hrange
    · rcases eq_or_lt_of_le hn0 with hz | hpos
      · subst hz; simp [rn53_zero']
      · exact rn53_rel_err _ (by have : (0 : ℚ) < n := by exact_mod_cast hpos
                                 positivity)

theorem fmt5_fin (neg : Bool) (m : ℚ) :
    fmt5 (.fin neg m) = if neg then '-' :: numText (roundHalfEven (m * 100000)).toNat
      else numText (roundHalfEven (m * 100000)).toNat := rfl

/-- **`fmt5_parse_fmt5`**: printing is a fixed point of parse ∘ print for EVERY finite binary64 number (either sign,
zero, subnormal, up to the largest double) — no magnitude bound is needed (see `core`). -/
theorem fmt5_parse_fmt5 (neg : Bool) (m : ℚ) (hm : IsDouble m) :
    ∃ y, IsDouble y ∧ parseFloat (fmt5 (.fin neg m)) = some (.fin neg y) ∧
      fmt5 (.fin neg y) = fmt5 (.fin neg m) := by
  obtain ⟨y, hy, hp, hfix, _⟩ := roundtrip_master neg m hm
  exact ⟨y, hy, hp, by rw [fmt5_fin, fmt5_fin, hfix]⟩

/-- second-generation stability of the VALUE, unconditionally: what was read back from a printed number is
reproduced exactly by any further print / parse -/
theorem parse_fmt5_idempotent (neg : Bool) (m : ℚ) (hm : IsDouble m) :
    ∃ y, IsDouble y ∧ parseFloat (fmt5 (.fin neg m)) = some (.fin neg y) ∧
      parseFloat (fmt5 (.fin neg y)) = some (.fin neg y) := by
  obtain ⟨y, hy, hp, hf⟩ := fmt5_parse_fmt5 neg m hm
  exact ⟨y, hy, hp, by rw [hf]; exact hp⟩

/-- **`parse_fmt5_close`** ("numbers as printed to five decimals"): the value read back differs from the value
printed by at most half a unit of the fifth decimal plus the binary64 rounding of the reader (relative 2^-53 of
the decimal), and never by more than one unit of the fifth decimal. -/
theorem parse_fmt5_close (neg : Bool) (m : ℚ) (hm : IsDouble m) :
    ∃ y, parseFloat (fmt5 (.fin neg m)) = some (.fin neg y) ∧
      |(PyFloat.fin neg y).val - (PyFloat.fin neg m).val| ≤ 1 / 200000 + (m + 1 / 200000) / 2 ^ 53 ∧
      |(PyFloat.fin neg y).val - (PyFloat.fin neg m).val| ≤ 1 / 100000 := by
  obtain ⟨y, _, hp, _, hnear, hxd, hrel⟩ := roundtrip_master neg m hm
  refine ⟨y, hp, ?_⟩
  have hval : |(PyFloat.fin neg y).val - (PyFloat.fin neg m).val| = |y - m| := by
    cases neg
    · rfl
    · show |(-y) - (-m)| = |y - m|
      rw [neg_sub_neg, abs_sub_comm]
  rw [hval]
  generalize (roundHalfEven (m * 100000) : ℚ) / 100000 = d at *
  have a1 := abs_le.mp hnear
  have a2 := abs_le.mp hxd
  have a3 := abs_le.mp (le_trans hnear hxd)
  have a4 := abs_le.mp hrel
  have hd : d / 2 ^ 53 ≤ (m + 1 / 200000) / 2 ^ 53 :=
    div_le_div_of_nonneg_right (by linarith [a2.1]) (by positivity)
  constructor <;> rw [abs_le] <;> constructor <;> linarith [a2.1, a2.2, a3.1, a3.2, a4.1, a4.2]

theorem isDouble_rn53 (d : ℚ) (hd : (2 : ℚ) ^ (-1022 : ℤ) ≤ d) (hlt : rn53 d < (2 : ℚ) ^ (1024 : ℤ)) :
    IsDouble (rn53 d) := by
  have hdpos : (0 : ℚ) < d := lt_of_lt_of_le (two_zpow_pos _) hd
  have hy1 := rn53_ge_pow _ _ hd
  have hyF := rn53_idem_pos _ hdpos
  refine ⟨le_trans (le_of_lt (two_zpow_pos _)) hy1, ?_⟩
  have := rn64_normal _ hy1 (by rw [hyF]; exact hlt)
  rw [hyF] at this; exact this

/-- the five-decimal grid below 2^36: the double nearest to `k / 10^5` is read from and printed as exactly that
decimal -/
theorem grid_core (k : ℕ) (hk : k < 2 ^ 36 * 10 ^ 5) :
    rn64 ((k : ℚ) / 100000) = some (rn53 ((k : ℚ) / 100000)) ∧
    roundHalfEven (rn53 ((k : ℚ) / 100000) * 100000) = (k : ℤ) ∧
    IsDouble (rn53 ((k : ℚ) / 100000)) := by
  rcases Nat.eq_zero_or_pos k with hz | hpos
  · subst hz
    simp only [Nat.cast_zero, zero_div, rn53_zero', rn64_zero, zero_mul, rhe_zero, true_and]
    exact ⟨le_refl _, rn64_zero⟩
  · have hk1 : (1 : ℚ) ≤ k := by exact_mod_cast hpos
    have hkq : (k : ℚ) < 2 ^ 36 * 10 ^ 5 := by exact_mod_cast hk
    have hc1 : (1 : ℚ) / 100000 ≤ (k : ℚ) / 100000 := div_le_div_of_nonneg_right hk1 (by norm_num)
    have hc2 : (k : ℚ) / 100000 < 68719476736 := by
      rw [div_lt_iff₀ (by norm_num)]; norm_num at hkq ⊢; linarith
    have hkc : (k : ℚ) = (k : ℚ) / 100000 * 100000 := by ring
    generalize (k : ℚ) / 100000 = c at *
    have hcpos : 0 < c := by linarith
    have hsub : (2 : ℚ) ^ (-1022 : ℤ) ≤ c := by have := tiny_lt; linarith
    obtain ⟨s1, s2⟩ := ilog2_spec c hcpos
    have he : ilog2 c ≤ 35 := by
      have h36 : (68719476736 : ℚ) = (2 : ℚ) ^ (36 : ℤ) := by norm_num
      have : (2 : ℚ) ^ (ilog2 c) < (2 : ℚ) ^ (36 : ℤ) := by rw [← h36]; exact lt_of_le_of_lt s1 hc2
      rw [zpow_lt_zpow_iff_right₀ (by norm_num)] at this; omega
    have herr : |rn53 c - c| ≤ 1 / 262144 := by
      rw [rn53_pos c _ s1 s2]
      have h := rnAt_err (ilog2 c) c
      have : (2 : ℚ) ^ (ilog2 c - 52) ≤ (2 : ℚ) ^ (-17 : ℤ) :=
        (zpow_le_zpow_iff_right₀ (by norm_num)).mpr (by omega)
      have h17 : (2 : ℚ) ^ (-17 : ℤ) = 1 / 131072 := by norm_num
      rw [h17] at this
      linarith
    have hb := abs_le.mp herr
    have hlt : rn53 c < (2 : ℚ) ^ (1024 : ℤ) := by
      have h37 : (68719476737 : ℚ) ≤ (2 : ℚ) ^ (37 : ℤ) := by norm_num
      have : (2 : ℚ) ^ (37 : ℤ) ≤ (2 : ℚ) ^ (1024 : ℤ) := (zpow_le_zpow_iff_right₀ (by norm_num)).mpr (by norm_num)
      have h1024 := le_trans h37 this
      have : rn53 c < 68719476737 := by linarith
      exact lt_of_lt_of_le this h1024
    refine ⟨rn64_normal c hsub hlt, ?_, isDouble_rn53 c hsub hlt⟩
    apply rhe_snap
    push_cast
    have : |rn53 c * 100000 - (k : ℚ)| = |rn53 c - c| * 100000 := by
      rw [hkc, ← sub_mul, abs_mul, abs_of_pos (by norm_num : (0 : ℚ) < 100000)]
    rw [this]
    linarith

set_option exponentiation.threshold 400 in
/-- **`parse_fmt5_exact_of_5dec`**: parse ∘ print is the identity on parsed documents.  If `x` is the double nearest
to a decimal `k / 10^5 < 2^36` (what `float()` returns for a text with at most five decimals) then `x` is printed as
exactly that decimal and read back as `x`.  The bound is sharp for the first half (`grid_bound_sharp`). -/
theorem parse_fmt5_exact_of_5dec (neg : Bool) (k : ℕ) (hk : k < 2 ^ 36 * 10 ^ 5) :
    IsDouble (rn53 ((k : ℚ) / 100000)) ∧
    fmt5 (.fin neg (rn53 ((k : ℚ) / 100000))) = (if neg then '-' :: numText k else numText k) ∧
    parseFloat (if neg then '-' :: numText k else numText k) = some (.fin neg (rn53 ((k : ℚ) / 100000))) := by
  obtain ⟨h64, hrhe, hdbl⟩ := grid_core k hk
  refine ⟨hdbl, ?_, ?_⟩
  · rw [fmt5_fin, hrhe]; rfl
  · apply parseFloat_text neg k _ _ h64
    calc k < 2 ^ 36 * 10 ^ 5 := hk
      _ < 10 ^ 16 := by norm_num
      _ ≤ 10 ^ 314 := Nat.pow_le_pow_right (by norm_num) (by norm_num)

/-! ### `SecondsType` -/

theorem secondsDumps_of (t x : ℚ) (ht : 0 ≤ t) (hx : rn64 t = some x) :
    secondsDumps t = some (numText (roundHalfEven (x * 100000)).toNat) := by
  unfold secondsDumps floatOfRat
  rw [if_neg (not_lt.mpr ht), hx]
  simp only [Option.map_some, fmt07_5_fin, fmt5_fin, Bool.false_eq_true, if_false]

/-- the result of `float(Fraction)` for `0 ≤ t`: either everything up to `2^-1022`, or a 53-bit value in range -/
theorem rn64_cases (t x : ℚ) (ht : 0 ≤ t) (hx : rn64 t = some x) :
    (t < (2 : ℚ) ^ (-1022 : ℤ) ∧ 0 ≤ x ∧ x ≤ (2 : ℚ) ^ (-1022 : ℤ)) ∨
    ((2 : ℚ) ^ (-1022 : ℤ) ≤ t ∧ x = rn53 t ∧ F53 x ∧ x < (2 : ℚ) ^ (1024 : ℤ) ∧ 0 ≤ x) := by
  by_cases hs : t < (2 : ℚ) ^ (-1022 : ℤ)
  · left
    simp only [rn64, if_pos hs] at hx
    have hx := (Option.some.inj hx).symm
    have hP := two_zpow_pos (-1074 : ℤ)
    have h1 : (0 : ℤ) ≤ roundHalfEven (t / (2 : ℚ) ^ (-1074 : ℤ)) :=
      rhe_ge _ 0 (by rw [Int.cast_zero]; exact div_nonneg ht (le_of_lt hP))
    have hsplit : (2 : ℚ) ^ (-1022 : ℤ) = ((2 ^ 52 : ℤ) : ℚ) * (2 : ℚ) ^ (-1074 : ℤ) := by
      have h := two_pow_split (-1022)
      rw [show ((-1022 : ℤ) - 52) = -1074 by norm_num] at h
      exact h.symm
    have h2 : roundHalfEven (t / (2 : ℚ) ^ (-1074 : ℤ)) ≤ 2 ^ 52 :=
      rhe_le _ _ (by rw [div_le_iff₀ hP, ← hsplit]; exact le_of_lt hs)
    refine ⟨hs, ?_, ?_⟩
    · rw [hx]; exact mul_nonneg (by exact_mod_cast h1) (le_of_lt hP)
    · rw [hx, hsplit]
      exact mul_le_mul_of_nonneg_right (by exact_mod_cast h2) (le_of_lt hP)
  · right
    simp only [rn64, if_neg hs] at hx
    split_ifs at hx with hy
    have hx := (Option.some.inj hx).symm
    have hge := not_lt.mp hs
    have htpos : 0 < t := lt_of_lt_of_le (two_zpow_pos _) hge
    refine ⟨hge, hx, ?_, by rw [hx]; exact hy, ?_⟩
    · rw [hx]; exact rn53_idem_pos t htpos
    · rw [hx]; exact le_trans (le_of_lt (two_zpow_pos _)) (rn53_ge_pow _ _ hge)

/-- **`seconds_roundtrip`** (`SecondsType`, jumpPosition interpolationLength): for a non-negative `Fraction` that
`float()` can hold, the text written is `n` units of 1e-5 with five decimals; `Fraction()` reads exactly that decimal;
writing it again gives the same text; the decimal is within half a unit of the fifth place (plus the rounding of
`float(t)`) of `t`. -/
theorem seconds_roundtrip (t x : ℚ) (ht : 0 ≤ t) (hx : rn64 t = some x) :
    ∃ n : ℕ, secondsDumps t = some (numText n) ∧ parseFraction (numText n) = some ((n : ℚ) / 100000) ∧
      secondsDumps ((n : ℚ) / 100000) = some (numText n) ∧
      |(n : ℚ) / 100000 - t| ≤ 1 / 200000 + t / 2 ^ 53 := by
  refine ⟨(roundHalfEven (x * 100000)).toNat, secondsDumps_of t x ht hx, parseFraction_numText _, ?_, ?_⟩
  · rcases rn64_cases t x ht hx with ⟨_, hx0, hxs⟩ | ⟨_, _, hF, hlt, hx0⟩
    · rw [small_rounds_to_zero x hx0 hxs]
      have := secondsDumps_of 0 0 (le_refl _) rn64_zero
      simpa [rhe_zero] using this
    · obtain ⟨hfix, _, _, hn0⟩ := core x hx0 hF
      have hr := core_range x hx0 hF hlt
      rw [toNat_cast _ hn0]
      have := secondsDumps_of _ _ (div_nonneg (by exact_mod_cast hn0) (by norm_num)) hr
      rw [this, hfix]
  · rcases rn64_cases t x ht hx with ⟨hts, hx0, hxs⟩ | ⟨hge, hxe, hF, hlt, hx0⟩
    · rw [small_rounds_to_zero x hx0 hxs]
      simp only [Int.toNat_zero, Nat.cast_zero, zero_div, zero_sub, abs_neg, abs_of_nonneg ht]
      have := tiny_lt
      have : 0 ≤ t / 2 ^ 53 := div_nonneg ht (by positivity)
      linarith
    · obtain ⟨_, _, hxd, hn0⟩ := core x hx0 hF
      rw [toNat_cast _ hn0]
      have htpos : 0 < t := lt_of_lt_of_le (two_zpow_pos _) hge
      have hrel := rn53_rel_err t htpos
      rw [← hxe] at hrel
      have a1 := abs_le.mp hxd
      have a2 := abs_le.mp hrel
      rw [abs_le]; constructor <;> linarith [a1.1, a1.2, a2.1, a2.2]

/-- a multiple of 1e-5 s below 2^36 s comes back exactly -/
theorem seconds_exact_of_5dec (k : ℕ) (hk : k < 2 ^ 36 * 10 ^ 5) :
    secondsDumps ((k : ℚ) / 100000) = some (numText k) ∧ parseFraction (numText k) = some ((k : ℚ) / 100000) := by
  obtain ⟨h64, hrhe, _⟩ := grid_core k hk
  refine ⟨?_, parseFraction_numText k⟩
  rw [secondsDumps_of _ _ (div_nonneg (Nat.cast_nonneg k) (by norm_num)) h64, hrhe]; rfl

/-! ### sharpness and excluded points (kernel-checked) -/

/-- the bound of `parse_fmt5_exact_of_5dec` cannot be raised past the next grid point: the hypothesis is
`k < 2^36·10^5`; `k = 2^36·10^5` (the value 2^36 itself) still satisfies the conclusion, and the first failing point is
`k = 2^36·10^5 + 1`: the double nearest to `2^36 + 0.00001` is `2^36 + 2^-16`, whose number of 1e-5 units after
`roundHalfEven` is `…00002` (this is a statement about `roundHalfEven (x·10^5)`, the integer that `fmt5` then prints,
not about the text) — above 2^36 the doubles are more than 1e-5 apart, so not every five-decimal text survives
parse -> print (the VALUE read back still does: `parse_fmt5_idempotent`) -/
theorem grid_bound_sharp :
    roundHalfEven (rn53 (mkRat (2 ^ 36 * 10 ^ 5 + 1) 100000) * 100000) = 2 ^ 36 * 10 ^ 5 + 2 := by decide +kernel

/-- the rounding term of `parse_fmt5_close` is needed: `x = 2^35 + 2^-16` is printed as `34359738368.00002`, which is
read back as `2^35 + 3·2^-17`, 2^-17 ≈ 7.6e-6 > 5e-6 away from `x` (doubles are 2^-17 apart there) -/
theorem close_needs_rounding_term :
    rn53 ((roundHalfEven (mkRat (2 ^ 52 + 2) (2 ^ 17) * 100000) : ℚ) / 100000) - mkRat (2 ^ 52 + 2) (2 ^ 17)
      = mkRat 1 (2 ^ 17) ∧ rn53 (mkRat (2 ^ 52 + 2) (2 ^ 17)) = mkRat (2 ^ 52 + 2) (2 ^ 17) := by decide +kernel

/-- `SecondsType` is NOT a fixed point for a negative value that rounds to zero: `Fraction` has no negative zero, so
`-0.00000` is read as `0` and written as `0.00000` (outside the property: interpolationLength is non-negative and on
the printable grid) -/
theorem seconds_negative_tiny_excluded :
    secondsDumps (mkRat (-1) (10 ^ 9)) = some ['-', '0', '.', '0', '0', '0', '0', '0'] ∧
    parseFraction ['-', '0', '.', '0', '0', '0', '0', '0'] = some 0 ∧
    secondsDumps 0 = some ['0', '.', '0', '0', '0', '0', '0'] := by decide +kernel

/-- the same value through `FloatType` IS stable, because `float` keeps the sign of zero -/
theorem float_negative_tiny_stable :
    parseFloat ['-', '0', '.', '0', '0', '0', '0', '0'] = some (.fin true 0) ∧
    fmt5 (.fin true 0) = ['-', '0', '.', '0', '0', '0', '0', '0'] := by decide +kernel

/-! ### the printable-grid codec of `Model/XmlLeaf.lean` is the real codec on grid doubles -/

open Earverif.XmlCodec in
/-- `floatCodec` of the handler-table model works on integers `k` (meaning `k / 10^5`).  For `|k| / 10^5 < 2^36` its
text is exactly what the real `FloatType.dumps` prints for the double nearest to `k / 10^5` (with the sign of `k`), and
the real `FloatType.loads` maps that text to that double.  This is a statement about ONE leaf: it is not composed
with the class / document theorems (`C08_roundtrip_model` is stated over `Leaf.num (k : ℤ)` with no bound on `k` in
`Valid` / `DocValid`, so it also covers leaves such as `dumpsNum (2^36·10^5 + 1)`, a text the printer does not produce
for the nearest double: `grid_model_excluded_points`).  Reading a class theorem as a statement about doubles needs, for
each `num` leaf `k` of the element, `|k| < 2^36·10^5` and this theorem, applied leaf by leaf by the reader; and
`loadsNum` is the inverse of `dumpsNum` on its image only, not `float()`: other spellings (`0.5`, `1`, `1e0`) are
`none` in the model, and `-0.00000` is read as the integer 0 where `float()` keeps `-0.0`
(`grid_model_excluded_points`). -/
theorem floatCodec_refines (k : ℤ) (hk : k.natAbs < 2 ^ 36 * 10 ^ 5) :
    (dumpsNum k).toList = fmt5 (.fin (decide (k < 0)) (rn53 ((k.natAbs : ℚ) / 100000))) ∧
    parseFloat (dumpsNum k).toList = some (.fin (decide (k < 0)) (rn53 ((k.natAbs : ℚ) / 100000))) ∧
    loadsNum (dumpsNum k) = some k ∧ IsDouble (rn53 ((k.natAbs : ℚ) / 100000)) := by
  obtain ⟨hd, hf, hp⟩ := parse_fmt5_exact_of_5dec (decide (k < 0)) k.natAbs hk
  have htxt : (dumpsNum k).toList = if decide (k < 0) = true then '-' :: numText k.natAbs else numText k.natAbs := by
    unfold dumpsNum numText
    simp only [String.toList_ofList, decide_eq_true_eq]
  exact ⟨by rw [htxt, hf], by rw [htxt]; exact hp, loadsNum_dumpsNum k, hd⟩

open Earverif.XmlCodec in
/-- **`SecondsType` on the grid** (jumpPosition `interpolationLength`, modelled in `Model/XmlCustom.lean` with
`dumpsNum` / `loadsNum` although the real reader is `Fraction(str)` and the real writer `"{:07.5f}".format(float(t))`):
for `0 ≤ k`, `k / 10^5 < 2^36`, the real writer applied to the Fraction `k / 10^5` prints exactly `dumpsNum k`, the
real reader maps that text to exactly `k / 10^5`, and the model's reader gives `k`.  (`k < 0` is outside: an
interpolationLength is non-negative; `k = 0` is `0.00000`, there is no negative zero among the integers.) -/
theorem secondsCodec_refines (k : ℤ) (h0 : 0 ≤ k) (hk : k.natAbs < 2 ^ 36 * 10 ^ 5) :
    secondsDumps ((k : ℚ) / 100000) = some (dumpsNum k).toList ∧
    parseFraction (dumpsNum k).toList = some ((k : ℚ) / 100000) ∧
    loadsNum (dumpsNum k) = some k := by
  obtain ⟨hd, hp⟩ := seconds_exact_of_5dec k.natAbs hk
  have hcast : ((k.natAbs : ℕ) : ℚ) = (k : ℚ) := by
    rw [Nat.cast_natAbs, abs_of_nonneg h0]
  have htxt : (dumpsNum k).toList = numText k.natAbs := by
    unfold dumpsNum numText
    simp only [String.toList_ofList, if_neg (not_lt.mpr h0)]
  rw [hcast] at hd hp
  exact ⟨by rw [htxt]; exact hd, by rw [htxt]; exact hp, loadsNum_dumpsNum k⟩

open Earverif.XmlCodec in
/-- no grid leaf is printed as `-0.00000`: the text the real code writes for `-0.0` and for every negative double
that rounds to zero (gain = -1e-7) has no counterpart `Leaf.num k`, so the class theorems say nothing about it -/
theorem negzero_not_grid (k : ℤ) : (dumpsNum k).toList ≠ ['-', '0', '.', '0', '0', '0', '0', '0'] := by
  intro h
  have h1 := loadsNum_dumpsNum k
  have h2 : loadsNum (dumpsNum k) = some 0 := by
    unfold loadsNum; rw [h]; decide +kernel
  have hk : k = 0 := by rw [h1] at h2; injection h2
  subst hk
  revert h; decide +kernel

open Earverif.XmlCodec in
/-- where the printable-grid model (`Leaf.num k`, `dumpsNum`, `loadsNum`) and the real float leaf differ (kernel-checked
on the executable models): (1) the double nearest to -1e-7 is printed `-0.00000`, which `float()` reads as `-0.0`, while
the model reads it as the integer 0 and prints 0 as `0.00000`; (2) `loadsNum` is not `float()`: `0.5`, `1`, `1e0` are
`none` in the model, numbers for `float()`; (3) the class theorems have no bound on `k`: the leaf `2^36·10^5 + 1` is
printed by the model as `68719476736.00001`, which is not what `"{:.5f}"` prints for the nearest double -/
theorem grid_model_excluded_points :
    (fmt5 (.fin true (rn53 (mkRat 1 (10 ^ 7)))) = ['-', '0', '.', '0', '0', '0', '0', '0'] ∧
     parseFloat ['-', '0', '.', '0', '0', '0', '0', '0'] = some (.fin true 0) ∧
     loadsNum "-0.00000" = some 0 ∧ dumpsNum 0 = "0.00000") ∧
    (loadsNum "0.5" = none ∧ loadsNum "1" = none ∧ loadsNum "1e0" = none ∧
     parseFloat ['0', '.', '5'] = some (.fin false (mkRat 1 2)) ∧ parseFloat ['1'] = some (.fin false 1) ∧
     parseFloat ['1', 'e', '0'] = some (.fin false 1)) ∧
    (dumpsNum (2 ^ 36 * 10 ^ 5 + 1)).toList ≠ fmt5 (.fin false (rn53 (mkRat (2 ^ 36 * 10 ^ 5 + 1) 100000))) := by
  decide +kernel

end Earverif.FloatText
