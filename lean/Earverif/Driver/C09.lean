/- Line protocol for the BW64 writer/reader byte models (serves C09 and C17).

   values   : `-` = None, `e` = b'' , otherwise lower-case hex
   chna     : `-` = None, `c<hex>` = ChnaChunk whose AudioIDs are the consecutive 40-byte groups of <hex>
   in  : `write <closed 0|1> <force 0|1> <channels> <rate> <bits> <chna> <axml> <bext> [; op]*`
           op = `w <val>` (byte level: the encoded bytes of one write call)
              | `ws <samples>` (sample level: the float64 bit patterns, 16 hex digits each, comma separated, row-major
                 frames x channels, of one write call; `-` = a block of zero frames)
              | `sa <val>` | `sb <val>` | `sc <chna>`
           a history uses `w` or `ws`, not both
   out : `H:<hex of the buffer>` if the history satisfies the hypotheses of C09_roundtrip / C09_samples_roundtrip
           (closed) resp. C17_unclosed (unclosed), `N:<hex>` if it does not (the model is still the transliteration)
         | `unpackable` (struct.pack would raise) | `raises` (a sample block cannot be encoded)
   in  : `read <hex|e>`
   out : `err <kind>` | `ok ff=<hex> tag=_ ch=_ rate=_ bits=_ frames=_ data=<val> chna=<chna> axml=<val> bext=<val> warns=<sorted kinds,>`
   in  : `reads <hex|e>`  (the opened reader, then `read(len(reader))` through decode_pcm_samples + deinterleave)
   out : as `read`, followed by ` cfg=<data offset>,<block alignment>,<data size>,<file length> pos=<buffer position afterwards>`
         ` samples=<bit patterns of the samples, row-major, comma separated | - | raises>`
   in  : `trunc <hex>`   out: the `read` answers for every proper prefix (k = 0 .. len-1) joined by ` | `
   `bad-op` for a malformed line. -/
import Earverif.Model.Bw64Reader
import Earverif.Driver.Util
open Earverif.Bw64 Earverif.Driver Earverif.Ieee

def hexDigit? (c : Char) : Option Nat :=
  if '0' ≤ c ∧ c ≤ '9' then some (c.toNat - '0'.toNat)
  else if 'a' ≤ c ∧ c ≤ 'f' then some (c.toNat - 'a'.toNat + 10)
  else none

def parseHexChars : List Char → Option Bytes
  | [] => some []
  | a :: b :: rest => do
    let x ← hexDigit? a
    let y ← hexDigit? b
    let r ← parseHexChars rest
    some ((16 * x + y) :: r)
  | _ => none

def parseHex? (s : String) : Option Bytes := parseHexChars s.toList

def hexChar (n : Nat) : Char := if n < 10 then Char.ofNat (48 + n) else Char.ofNat (87 + n)

def toHex (b : Bytes) : String :=
  String.ofList (b.flatMap fun x => [hexChar (x / 16 % 16), hexChar (x % 16)])

/-- bytes-or-None -/
def parseVal? (s : String) : Option (Option Bytes) :=
  if s = "-" then some none
  else if s = "e" then some (some [])
  else (parseHex? s).map some

def showBytes (b : Bytes) : String := if b.isEmpty then "e" else toHex b

def showVal : Option Bytes → String
  | none => "-"
  | some b => showBytes b

def groups40 : Nat → Bytes → Option (List ChnaEntry)
  | _, [] => some []
  | 0, _ => none
  | fuel + 1, b =>
    if b.length < 40 then none else do
      let r ← groups40 fuel (b.drop 40)
      some (⟨fromLE (b.take 2), (b.take 40).drop 2⟩ :: r)

def parseChna? (s : String) : Option (Option (List ChnaEntry)) :=
  if s = "-" then some none
  else match s.toList with
    | 'c' :: rest => do
      let b ← parseHexChars rest
      let es ← groups40 (b.length + 1) b
      some (some es)
    | _ => none

def showChna : Option (List ChnaEntry) → String
  | none => "-"
  | some es => "c" ++ toHex (es.map ChnaEntry.enc).flatten

def hexNat? (s : String) : Option Nat :=
  if s.isEmpty then none
  else s.toList.foldlM (fun acc c => do some (acc * 16 + (← hexDigit? c))) 0

/-- `-` = no samples, else comma separated 16-digit patterns; NaN patterns are rejected (`none`) -/
def parseSamples? (s : String) : Option (List Rat) :=
  if s = "-" then some [] else (s.splitOn ",").mapM (fun h => if h.length = 16 then hexNat? h >>= ofBits else none)

def rowsOf (ch : Nat) : Nat → List Rat → List (List Rat)
  | 0, _ => []
  | fuel + 1, xs => if xs.isEmpty then [] else xs.take ch :: rowsOf ch fuel (xs.drop ch)

/-- a parsed client call: byte level, sample level, or a setter (which is both) -/
inductive DOp where
  | w (b : Bytes)
  | ws (flat : List Rat)
  | set (o : WOp)

def parseOp? (ws : List String) : Option DOp :=
  match ws with
  | ["w", v] => do
    match ← parseVal? v with
    | some b => some (.w b)
    | none => none
  | ["ws", v] => do some (.ws (← parseSamples? v))
  | ["sa", v] => do some (.set (.setAxml (← parseVal? v)))
  | ["sb", v] => do some (.set (.setBext (← parseVal? v)))
  | ["sc", v] => do some (.set (.setChna (← parseChna? v)))
  | _ => none

def toWOps : List DOp → Option (List WOp)
  | [] => some []
  | .w b :: r => (toWOps r).map (.write b :: ·)
  | .set o :: r => (toWOps r).map (o :: ·)
  | .ws _ :: _ => none

def setS : WOp → SOp
  | .setChna v => .setChna v
  | .setAxml v => .setAxml v
  | .setBext v => .setBext v
  | .write _ => .write []   -- not reached

def toSOps (ch : Nat) : List DOp → Option (List SOp)
  | [] => some []
  | .ws flat :: r =>
    if ch = 0 ∨ flat.length % ch ≠ 0 then none else (toSOps ch r).map (.write (rowsOf ch flat.length flat) :: ·)
  | .set o :: r => (toSOps ch r).map (setS o :: ·)
  | .w _ :: _ => none

/-- the values pending at `close` and the number of data bytes (mirrors `pendChna`/`pendAxml`/`pendBext`/`dataOf`
of Proofs/C09Layout.lean on the byte-level history) -/
def pendOf (c : Option (List ChnaEntry)) (a b : Option Bytes) (n : Nat) :
    List WOp → Option (List ChnaEntry) × Option Bytes × Option Bytes × Nat
  | [] => (c, a, b, n)
  | .write d :: r => pendOf c a b (n + d.length) r
  | .setChna v :: r => pendOf v a b n r
  | .setAxml v :: r => pendOf c v b n r
  | .setBext v :: r => pendOf c a v n r

/-- hypotheses of `C09_roundtrip` (closed) / `C17_unclosed` (unclosed) on a byte-level history, via the executable
tests `Fmt.okB`, `chnaOkB`, `bytesPackable` (proved equivalent to `FmtOK`, `ChnaOK`, `BytesOK` in Props/C09.lean) -/
def hypW (closed : Bool) (fmt : Fmt) (c0 : Option (List ChnaEntry)) (a0 b0 : Option Bytes) (ops : List WOp) : Bool :=
  let (cF, aF, bF, n) := pendOf c0 a0 b0 0 ops
  if closed then
    fmt.okB && chnaOkB c0 && chnaOkB cF && bytesPackable a0 && bytesPackable aF && bytesPackable b0 && bytesPackable bF
      && n % fmt.blockAlign == 0 && decide (n < 2 ^ 63)
  else chnaOkB c0 && bytesPackable a0 && bytesPackable b0

def showErr : Err → String
  | .struct => "struct" | .notRiff => "notRiff" | .notWave => "notWave" | .missingDs64 => "missingDs64"
  | .badId => "badId" | .chunkEnd => "chunkEnd" | .dataPlaceholder => "dataPlaceholder" | .missingChunk => "missingChunk" | .fmtSize => "fmtSize"
  | .cbSize => "cbSize" | .fmtInvalid => "fmtInvalid" | .chnaTracks => "chnaTracks"
  | .unsupported => "unsupported" | .fuel => "fuel"

def showWarn : Warn → String
  | .dataPad => "dataPad" | .chnaRef => "chnaRef"

def insertSorted (x : String) : List String → List String
  | [] => [x]
  | y :: ys => if x ≤ y then x :: y :: ys else y :: insertSorted x ys

def sortStrings (l : List String) : List String := l.foldr insertSorted []

def showRead (f : Bytes) : String :=
  match readFile f with
  | .error e => "err " ++ showErr e
  | .ok (p, w) =>
    s!"ok ff={toHex p.fileFormat} tag={p.fmt.formatTag} ch={p.fmt.channels} rate={p.fmt.rate} bits={p.fmt.bits} " ++
    s!"frames={p.frames} data={showBytes p.data} chna={showChna p.chna} axml={showVal p.axml} bext={showVal p.bext} " ++
    "warns=" ++ String.intercalate "," (sortStrings (w.map showWarn))

def showBits (x : Rat) : String :=
  match toBits x with
  | some w => String.ofList ((List.range 16).reverse.map fun i => hexChar (w / 16 ^ i % 16))
  | none => "not-a-double"

def showReadS (f : Bytes) : String :=
  match openReader f with
  | .error _ => showRead f
  | .ok (p, k, _) =>
    let r := readSamples f p.fmt k k.data (p.frames : Int)
    let smp := match r.2 with
      | none => "raises"
      | some rows => if rows.flatten.isEmpty then "-" else String.intercalate "," (rows.flatten.map showBits)
    showRead f ++ s!" cfg={k.data},{k.A},{k.size},{k.fileLen} pos={r.1} samples={smp}"

def answerWrite (hd : List String) (rest : List String) : String :=
  match hd with
  | [closed, force, ch, rate, bits, chna, axml, bext] =>
    match parseInts? [closed, force, ch, rate, bits], parseChna? chna, parseVal? axml, parseVal? bext,
          rest.mapM (fun s => parseOp? (words s)) with
    | some [c, fo, ch, rate, bits], some chna, some axml, some bext, some dops =>
      if c < 0 ∨ c > 1 ∨ fo < 0 ∨ fo > 1 ∨ ch < 0 ∨ rate < 0 ∨ bits < 0 then "bad-op" else
      let fmt : Fmt := ⟨ch.toNat, rate.toNat, bits.toNat⟩
      match toWOps dops with
      | some ops =>
        if !(fmt.packable && chnaPackable chna && bytesPackable axml && bytesPackable bext
              && ops.all WOp.packable) then "unpackable" else
        (if hypW (c = 1) fmt chna axml bext ops then "H:" else "N:") ++
        (if c = 1 then toHex (closedFile fmt chna axml bext (fo = 1) ops)
         else toHex (unclosedFile fmt chna axml bext (fo = 1) ops))
      | none =>
        match toSOps fmt.channels dops with
        | none => "bad-op"
        | some sops =>
          if !(fmt.packable && chnaPackable chna && bytesPackable axml && bytesPackable bext
                && sops.all SOp.packable) then "unpackable" else
          -- the sample-level hypotheses: as the byte-level ones on the encoded history (`encOps`); blocks are
          -- well shaped by construction (`rowsOf`)
          match encOps fmt sops, (if c = 1 then closedFileS fmt chna axml bext (fo = 1) sops
                                  else unclosedFileS fmt chna axml bext (fo = 1) sops) with
          | some wops, some buf => (if hypW (c = 1) fmt chna axml bext wops then "H:" else "N:") ++ toHex buf
          | _, _ => "raises"
    | _, _, _, _, _ => "bad-op"
  | _ => "bad-op"

def answer (line : String) : String :=
  match line.splitOn ";" with
  | hd :: rest =>
    match words hd with
    | "write" :: ws => answerWrite ws rest
    | ["read", h] =>
      if !rest.isEmpty then "bad-op" else
      match parseVal? h with
      | some (some f) => showRead f
      | _ => "bad-op"
    | ["reads", h] =>
      if !rest.isEmpty then "bad-op" else
      match parseVal? h with
      | some (some f) => showReadS f
      | _ => "bad-op"
    | ["trunc", h] =>
      if !rest.isEmpty then "bad-op" else
      match parseHex? h with
      | some f => String.intercalate " | " ((List.range f.length).map fun k => showRead (f.take k))
      | none => "bad-op"
    | _ => "bad-op"
  | [] => "bad-op"

def main : IO Unit := lineLoop answer
