/-
Kernel ties, group `KernelsSel` (see `harness/kernels.py` and the header of `Props/Kernels.lean`): item selection,
`ear/core/select_items/{utils,pack_allocation,select_items,hoa,matrix,validate}.py` (properties C06, C07, C14).

`Earverif/Gen/KernelsSel.lean` is regenerated on every run from the Python SOURCE of the functions below; each theorem here states
that the regenerated definition equals the hand-written model definition (`Model/PackAlloc.lean`, `Model/SelectItems.lean`,
`Model/Validate.lean`) that the property theorems are about.  Objects of the ADM graph are identity tokens (`Nat`, `is` = equality)
or the models' structures; `for x in l:` is the model's `forE` (validators) or a left fold (counting loop); `raise AdmError(..)`
is the model's error kind.  Where the model has no separate def for the translated piece, the theorem states the model function
with the translated def in place of its own expression.

Only core Lean.
-/
import Earverif.Gen.KernelsSel
import Earverif.Model.PackAlloc
import Earverif.Model.SelectItems
import Earverif.Model.Validate

-- simp sets below carry lemmas that only a behaviour-preserving rewrite of the source needs
set_option linter.unusedSimpArgs false

namespace Earverif.Kernels
open Earverif

/-! ### C07 — `utils.in_by_id`, `_is_compatible`, `could_possibly_allocate`, the fail-early test -/

theorem in_by_id_eq_model (x : Nat) (l : List Nat) : Gen.in_by_id x l = PackAlloc.inById x l := by
  simp only [Gen.in_by_id, PackAlloc.inById]
  first
  | rfl
  | (congr 1; funext y; rw [Bool.eq_iff_iff, beq_iff_eq, decide_eq_true_eq]; exact eq_comm)

theorem is_compatible_eq_model (t : PackAlloc.TrackRef) (c : PackAlloc.Channel) :
    Gen.is_compatible t c = PackAlloc.isCompatible t c := by
  cases t with
  | none => rfl
  | some t =>
    simp only [Gen.is_compatible, PackAlloc.isCompatible, in_by_id_eq_model]
    rw [Bool.eq_iff_iff]
    simp [and_comm]

/-- the counting loop `for c in l: if t(c): n += 1` (a left fold) counts the elements that satisfy the test -/
theorem could_possibly_allocate_count {α : Type} (f : α → Bool) (l : List α) (n : Nat) :
    List.foldl (fun n c => if f c = true then n + 1 else n) n l = n + l.countP f := by
  induction l generalizing n with
  | nil => simp
  | cons a l ih =>
    simp only [List.foldl_cons, ih, List.countP_cons]
    by_cases h : f a = true <;> simp [h] <;> omega

/-- `could_possibly_allocate` where it is evaluated: after `len(tracks) < remaining_in_partial` has been excluded
(the model's `tracks.length - remaining` is a truncated subtraction, Python's is not) -/
theorem could_possibly_allocate_eq_model (tracks : List PackAlloc.TrackRef) (refs : Option (List Nat)) (remaining : Nat)
    (p : PackAlloc.Pack) (h : remaining ≤ tracks.length) :
    Gen.could_possibly_allocate tracks refs remaining p = PackAlloc.couldPossiblyAllocate tracks refs remaining p := by
  have hc : ∀ c, (tracks.any fun t => Gen.is_compatible t c) = (tracks.any fun t => PackAlloc.isCompatible t c) := by
    intro c; congr 1; funext t; exact is_compatible_eq_model t c
  have hf := could_possibly_allocate_count (fun c => tracks.any fun t => PackAlloc.isCompatible t c) p.channels 0
  cases refs <;>
    simp only [Gen.could_possibly_allocate, PackAlloc.couldPossiblyAllocate, hc, hf, in_by_id_eq_model] <;>
    grind

example : (1 : Nat) ≤ [some (⟨0, 1, 2⟩ : PackAlloc.Track), none].length := by decide

/-- the fail-early test inside the model's `allocImpl` (unfolding of one step on a non-empty track list) -/
theorem fail_early_test_eq_model (fuel : Nat) (packs : List PackAlloc.Pack) (track : PackAlloc.TrackRef)
    (rest : List PackAlloc.TrackRef) (refs : Option (List Nat)) (sol : PackAlloc.Sol) :
    PackAlloc.allocImpl (fuel + 1) packs (track :: rest) refs sol =
      (let remaining := PackAlloc.countEmpty sol
       if Gen.fail_early_test (track :: rest) remaining then []
       else
         let packs' := packs.filter (PackAlloc.couldPossiblyAllocate (track :: rest) refs remaining)
         (PackAlloc.candidatePartialSolutions track packs' refs sol).flatMap fun (np, rp, rr) =>
           PackAlloc.allocObviousWith (PackAlloc.allocImpl fuel) rp rest rr np) := by
  simp only [PackAlloc.allocImpl, Gen.fail_early_test, decide_eq_true_eq]

/-! ### C06 — pieces of `select_items.py` / `hoa.py` inside the functions of Model/SelectItems.lean -/

/-- `hoa.get_nfcRefDist`: the model's `hoaNfc` with the translated conditional in place of its own -/
theorem get_nfcRefDist_eq_model (f : Adm.Formats) (pc : List Nat × Nat) :
    Adm.hoaNfc f pc =
      match Adm.hoaPackParam f (·.nfcRefDist) (·.nfcRefDist) pc with
      | .error e => .error e
      | .ok v => .ok (Gen.get_nfcRefDist v) := by
  unfold Adm.hoaNfc
  cases Adm.hoaPackParam f (·.nfcRefDist) (·.nfcRefDist) pc with
  | error e => rfl
  | ok v => first | rfl | (simp only [Gen.get_nfcRefDist]; congr 1; split <;> simp_all)

/-- `_PackAllocator.get_track_spec` inside the model's `slotSpec` -/
theorem get_track_spec_eq_model (f : Adm.Formats) (uids : List Nat) (s : PackAlloc.Slot) :
    Adm.slotSpec f uids s =
      match s with
      | none => .error .internal
      | some none => .ok (Gen.get_track_spec none)
      | some (some t) =>
        match uids[t.id]? with
        | some u => .ok (Gen.get_track_spec (some (f.uid u).trackIndex))
        | none => .error .internal := by
  unfold Adm.slotSpec
  rcases s with _ | _ | t <;> first | rfl | (simp only [Gen.get_track_spec]; cases uids[t.id]? <;> rfl)

/-- `silent_tracks = len(obj.audioTrackUIDs) - len(real_track_uids)` is the (truncated) count the model's `allocProblem` uses:
`real_track_uids` are the non-`None` entries, so the difference is never negative -/
theorem silent_tracks_eq_model (tracks : List (Option Nat)) :
    Gen.silent_tracks tracks (tracks.filterMap id) = ((tracks.length - (tracks.filterMap id).length : Nat) : Int) := by
  have := List.length_filterMap_le id tracks
  simp only [Gen.silent_tracks]
  omega

/-- the same tie stated against the model's `allocProblem` itself (not a restated difference): for a state with a selected
audioObject, the problem's `numSilent` is the translated `silent_tracks` of that object's track list and its non-`None`
entries (`real_track_uids`). -/
theorem silent_tracks_allocProblem (a : Adm.Adm) (st : Adm.State) (wps : List Adm.WPack) (p : List Nat)
    (h : st.objPath = some p) :
    (((Adm.allocProblem a st wps).1.numSilent : Nat) : Int) =
      Gen.silent_tracks (a.obj (p.getLastD 0)).tracks ((a.obj (p.getLastD 0)).tracks.filterMap id) := by
  rw [silent_tracks_eq_model]
  simp only [Adm.allocProblem, h]

example : ({ programme := none, content := none, objPath := some [0] } : Adm.State).objPath = some [0] := rfl

theorem select_programme_eq_model (a : Adm.Adm) (given : Option Nat) :
    Gen.select_programme a.programmes given = Adm.selectProgramme a given := by
  unfold Gen.select_programme Adm.selectProgramme
  cases given with
  | some p => rfl
  | none =>
    rcases a.programmes with _ | ⟨p, _ | ⟨q, r⟩⟩ <;> simp

/-- `_select_only_selected_complementary`: the state is yielded iff the translated test holds -/
theorem only_selected_test_eq_model (ign : List Nat) (st : Adm.State) :
    Adm.onlySelected ign st = if Gen.only_selected_test st.objPath ign then [st] else [] := by
  unfold Adm.onlySelected Gen.only_selected_test
  cases st.objPath with
  | none => rfl
  | some p =>
    have h : (p.any fun o => Gen.in_by_id o ign) = p.any (ign.contains ·) := by
      congr 1; funext o
      rw [in_by_id_eq_model, PackAlloc.inById, List.contains_eq_any_beq]
      congr 1; funext y
      rw [Bool.eq_iff_iff, beq_iff_eq, beq_iff_eq]
      exact eq_comm
    simp only [h]
    cases p.any (ign.contains ·) <;> simp

/-- `matrix.type_of` inside the model's `wrapMatrix` (`_PackAllocator.wrap_matrix_pack`): which of the three usages of a
matrix pack are wrapped is decided by the translated `type_of` -/
theorem matrix_type_of_wrap_eq_model (f : Adm.Formats) (p : Nat) :
    Adm.wrapMatrix f p =
      (let pk := f.pack p
       let flat (q fixed : Nat) : List PackAlloc.Channel := (Adm.slots f q).map fun s => ⟨s.2, [fixed]⟩
       let preApplied : Adm.WPack := ⟨3 * p + 1, .matrix, p, (Adm.slots f p).map fun s => ⟨s.2, s.1⟩⟩
       match Gen.matrix_type_of pk.inputPack pk.outputPack with
       | .ok .direct =>
         match pk.inputPack with
         | some i => .ok [⟨3 * p, .matrix, p, flat i p⟩, preApplied]
         | none => .error .internal
       | .ok .encode => .ok []
       | .ok .decode =>
         match pk.encodePacks with
         | [e] =>
           match (f.pack e).inputPack with
           | some ei => .ok [⟨3 * p, .matrix, p, flat e p⟩, preApplied, ⟨3 * p + 2, .matrix, p, flat ei e⟩]
           | none => .error .internal
         | _ => .error .internal
       | .error _ => .error .internal) := by
  unfold Adm.wrapMatrix Gen.matrix_type_of
  cases h1 : (f.pack p).inputPack <;> cases h2 : (f.pack p).outputPack <;> simp [h1, h2]
  rcases (f.pack p).encodePacks with _ | ⟨e, _ | ⟨e2, r⟩⟩ <;> rfl

section
open Earverif.AdmV

/-! ### C14 — `matrix.type_of` and validators of `validate.py`.

The translated validators raise the model's error *kind* with an empty message (`Err.adm k []`): the diagnostic text is
not translated.  The ties are therefore stated modulo `stripR`, which forgets the message of an `AdmError` and keeps
everything else (kind, internal errors, success); loops are the model's `forE`. -/

/-- forget the diagnostic message -/
def strip : Validate.Err → Validate.Err
  | .adm k _ => .adm k []
  | e => e

def stripR {α : Type} (r : Validate.R α) : Validate.R α :=
  match r with
  | .ok a => .ok a
  | .error e => .error (strip e)

theorem forE_strip {α : Type} (f g : α → Validate.R Unit) (h : ∀ x, stripR (f x) = g x) :
    ∀ l : List α, stripR (Validate.forE l f) = Validate.forE l g := by
  intro l
  induction l with
  | nil => rfl
  | cons x xs ih =>
    have hx := h x
    simp only [Validate.forE]
    cases hfx : f x with
    | ok u => rw [hfx] at hx; simp only [stripR] at hx; rw [← hx]; exact ih
    | error e => rw [hfx] at hx; simp only [stripR] at hx; rw [← hx]; rfl

theorem forEI_strip {α : Type} (f : Nat → α → Validate.R Unit) (g : α → Validate.R Unit)
    (h : ∀ i x, stripR (f i x) = g x) : ∀ (l : List α) (i : Nat), stripR (Validate.forEI l i f) = Validate.forE l g := by
  intro l
  induction l with
  | nil => intro i; rfl
  | cons x xs ih =>
    intro i
    have hx := h i x
    simp only [Validate.forEI, Validate.forE]
    cases hfx : f i x with
    | ok u => rw [hfx] at hx; simp only [stripR] at hx; rw [← hx]; exact ih (i + 1)
    | error e => rw [hfx] at hx; simp only [stripR] at hx; rw [← hx]; rfl

theorem matrix_type_of_eq_model (p : Pack) : Gen.matrix_type_of p.input p.output = Validate.typeOf p := by
  unfold Gen.matrix_type_of Validate.typeOf
  cases p.input <;> cases p.output <;> simp

theorem validate_non_matrix_pack_eq_model (pi : Nat) (p : Pack) :
    Gen.validate_non_matrix_pack p = stripR (Validate.validateNonMatrixPack pi p) := by
  unfold Gen.validate_non_matrix_pack Validate.validateNonMatrixPack
  cases p.input <;> cases p.output <;> cases p.encodePacks <;> simp [stripR, strip]

theorem validate_track_or_channel_eq_model (d : Doc) :
    Gen.validate_track_or_channel d = stripR (Validate.validateTrackOrChannel d) := by
  unfold Gen.validate_track_or_channel Validate.validateTrackOrChannel
  symm
  apply forEI_strip
  intro i t
  cases t.trackFormat <;> cases t.channel <;> simp [stripR, strip]

theorem validate_hoa_channels_eq_model (d : Doc) :
    Gen.validate_hoa_channels d = stripR (Validate.validateHoaChannels d) := by
  unfold Gen.validate_hoa_channels Validate.validateHoaChannels
  symm
  apply forEI_strip
  intro i c
  by_cases h1 : c.blocks.length = 1 <;> cases c.type <;> cases c.freq <;> simp [stripR, strip, h1]

theorem validate_objects_channels_eq_model (d : Doc) :
    Gen.validate_objects_channels d = stripR (Validate.validateObjectsChannels d) := by
  unfold Gen.validate_objects_channels Validate.validateObjectsChannels
  symm
  apply forEI_strip
  intro i c
  have hb := forEI_strip
    (fun bi (b : Block) => if b.cartMismatch then (.error (.adm .cartesian [.block i bi]) : Validate.R Unit) else .ok ())
    (fun b => if b.cartMismatch = true then .error (.adm .cartesian []) else .ok ())
    (by intro bi b; cases b.cartMismatch <;> simp [stripR, strip]) c.blocks 0
  cases c.type <;> cases c.freq <;> simp [stripR, strip] <;> exact hb

theorem validate_pack_channel_types_eq_model (d : Doc) :
    Gen.validate_pack_channel_types d = stripR (Validate.validatePackChannelTypes d) := by
  unfold Gen.validate_pack_channel_types Validate.validatePackChannelTypes
  symm
  apply forEI_strip
  intro i p
  apply forE_strip
  intro c
  by_cases h : (d.chan c).type = p.type
  · simp [stripR, strip, h]
  · have h' : ¬ p.type = (d.chan c).type := fun e => h e.symm
    simp [stripR, strip, h, h']

theorem validate_pack_subpack_types_eq_model (d : Doc) :
    Gen.validate_pack_subpack_types d = stripR (Validate.validatePackSubpackTypes d) := by
  unfold Gen.validate_pack_subpack_types Validate.validatePackSubpackTypes
  symm
  apply forEI_strip
  intro i p
  apply forE_strip
  intro c
  by_cases h : (d.pack c).type = p.type
  · simp [stripR, strip, h]
  · have h' : ¬ p.type = (d.pack c).type := fun e => h e.symm
    simp [stripR, strip, h, h']

theorem validate_v2_refs_eq_model (d : Doc) : Gen.validate_v2_refs d = stripR (Validate.validateV2Refs d) := by
  unfold Gen.validate_v2_refs Validate.validateV2Refs
  cases d.v2Allowed <;> cases h : d.trackUIDs.any (fun t => t.channel.isSome) <;> simp_all [stripR, strip]

/-- the block-count test of `_validate_matrix_channel` decides the model's first branch -/
theorem matrix_channel_blocks_test_eq_model (ci : Nat) (c : Channel) :
    (Gen.matrix_channel_blocks_test c = true → Validate.validateMatrixChannel ci c = .error (.adm .mxchblocks [.id .acf ci])) ∧
    (Gen.matrix_channel_blocks_test c = false → ∃ b, c.blocks = [b]) := by
  unfold Validate.validateMatrixChannel Gen.matrix_channel_blocks_test
  constructor
  · intro h; simp_all
  · intro h
    have hl : c.blocks.length = 1 := by simpa using h
    exact List.length_eq_one_iff.mp hl

/-- the first two checks of `validate_selected_audioTrackUID` inside the model's `validateSelectedTrack` -/
theorem selected_track_checks_eq_model (d : Doc) (t : Nat) :
    stripR (Validate.validateSelectedTrack d t) =
      match Gen.selected_track_checks (d.atu t) with
      | .error e => .error e
      | .ok _ =>
        match (d.atu t).trackFormat with
        | none => .ok ()
        | some f => match (d.tf f).stream with
          | none => .error (.internal .attrNone)
          | some s => if (d.stream s).channel.isNone then .error (.adm .streamnochannel []) else .ok () := by
  unfold Validate.validateSelectedTrack Gen.selected_track_checks
  generalize d.atu t = u
  rcases u with ⟨ti, pk, tf, ch⟩
  cases ti <;> cases pk <;> cases tf <;> try rfl
  rename_i i p f
  simp only [Option.isNone_some, Bool.false_eq_true, if_false, stripR]
  cases (d.tf f).stream with
  | none => rfl
  | some s => simp only; cases (d.stream s).channel <;> rfl

end

end Earverif.Kernels
