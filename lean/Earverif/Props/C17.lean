/-
C17 — Unfinished or truncated BW64 files are never misread.

Property theorems about the byte-level models (`unclosedFile`, `closedFile`, `readFile`).
-/
import Earverif.Proofs.C17

namespace Earverif.Bw64

/-- **Plain RIFF file whose `data` header holds the placeholder.**  Any byte string that consists of a RIFF/WAVE
header, well-formed chunks `cs` (none of them a placeholder header), then the eight bytes `data` + `0xFFFFFFFF` and
*anything whatsoever* after them (`rest`: no bytes, fewer than 2^32 - 1, exactly 2^32 - 1, more; any content) is
rejected by the reader with "data chunk size has not been set; the file was not closed properly"
(the `elif` added to `_read_chunk_header` by commit 61d37f4). -/
theorem riff_placeholder_rejected (cs : List Chunk) (hok : ∀ c ∈ cs, c.OK none) (s4 rest f : Bytes) (hs : s4.length = 4)
    (hf : f = idRIFF ++ (s4 ++ (idWAVE ++ (encAll cs ++ (idData ++ (ffff ++ rest)))))) :
    readFile f = .error .dataPlaceholder := by
  have hhead : readHead f = .ok (idRIFF, none, 12) := readHead_riff hf hs
  have hf' : f = (idRIFF ++ (s4 ++ idWAVE)) ++ (encAll cs ++ (idData ++ (ffff ++ rest))) := by rw [hf]; simp
  have h12 : (idRIFF ++ (s4 ++ idWAVE)).length = 12 := by simp [idRIFF, idWAVE, hs]
  have hle := length_le_encAll cs (fun c hc => (hok c hc).idLen)
  have hfl : f.length = 12 + (encAll cs).length + 8 + rest.length := by
    rw [hf']; simp [idRIFF, idWAVE, idData, ffff, hs]; omega
  obtain ⟨fuel, hfuel⟩ : ∃ k, f.length + 1 = cs.length + (k + 1) := ⟨f.length - cs.length, by omega⟩
  have hw := walk_chunks_then none cs hok _ f _ (fuel + 1) [] [] hf'
  rw [h12] at hw
  have hh := readChunkHeader_placeholder (f := f) (pre := idRIFF ++ (s4 ++ idWAVE) ++ encAll cs) (rest := rest)
    (by rw [hf']; simp)
  rw [List.length_append, h12] at hh
  simp only [readFile, hhead, hfuel, hw]
  rw [readChunks_placeholder hh]

/-- **C17 (unfinished files).**  The buffer left behind by a writer that was never closed — after any
history of `write` and setter calls, whatever chunks were given to the constructor or are still pending,
with or without `forceBw64` (an unclosed buffer always starts with `RIFF`: only `close()` rewrites the header),
and **any amount of data** — is rejected by the reader: the `data` header still carries the placeholder size
`0xFFFFFFFF`, which `_read_chunk_header` refuses in a plain RIFF file ("data chunk size has not been set; the
file was not closed properly").

(Before commit 61d37f4 the reader had no such test and relied on the placeholder chunk ending after the end of
the file; this theorem then needed `(dataOf ops).length < 2^32 - 1`, and the reader model accepted unfinished
files with `2^32 - 1` data bytes and walked into the sample bytes beyond `2^32`.  The defect was found by this
check (sparse-file probe `big_unclosed_probe` in harness/c17.py) and repaired in /repo.) -/
theorem C17_unclosed (fmt : Fmt) (c0 : Option (List ChnaEntry)) (a0 b0 : Option Bytes) (force : Bool)
    (ops : List WOp) (hc0 : ChnaOK c0) (ha0 : BytesOK a0) (hb0 : BytesOK b0) :
    readFile (unclosedFile fmt c0 a0 b0 force ops) = .error .dataPlaceholder := by
  have hds : ∀ d, (none : Option Ds64) = some d → d.table = [] := by intro d hd; cases hd
  have hok : ∀ c ∈ junkC :: fmtC fmt :: preC c0 a0 b0, c.OK none := by
    intro c hc
    rcases List.mem_cons.1 hc with rfl | hc
    · exact junkC_ok
    · rcases List.mem_cons.1 hc with rfl | hc
      · exact fmtC_ok none hds fmt
      · exact preC_ok none hds hc0 ha0 hb0 c hc
  refine riff_placeholder_rejected _ hok ffff (dataOf ops) _ rfl ?_
  rw [unclosedFile_layout, preB_eq hc0, head0, fmtChunk_eq, junkChunk_eq]; simp

/-- **Unfinished *and* truncated.**  Every prefix (the whole string included) of a plain RIFF file whose chunks
`cs` contain no `data` chunk and are followed by the placeholder `data` header is rejected: cut inside the 12-byte
header `struct.error`; cut inside a chunk of `cs` "chunk ends after the end of the file", or — cut inside a chunk
header — "required chunk data not found"; cut inside the placeholder header the same; cut anywhere after it "data
chunk size has not been set". -/
theorem riff_placeholder_prefix_rejected (cs : List Chunk) (hok : ∀ c ∈ cs, c.OK none) (hno : NoId idData cs)
    (s4 rest f : Bytes) (hs : s4.length = 4)
    (hf : f = idRIFF ++ (s4 ++ (idWAVE ++ (encAll cs ++ (idData ++ (ffff ++ rest)))))) (k : Nat) :
    ∃ e, readFile (f.take k) = .error e := by
  by_cases hk12 : k < 12
  · exact ⟨.struct, by simp only [readFile, readHead_riff_short hf hs hk12]⟩
  have h12 : (idRIFF ++ (s4 ++ idWAVE)).length = 12 := by simp [idRIFF, idWAVE, hs]
  have hf' : f = (idRIFF ++ (s4 ++ idWAVE)) ++ (encAll cs ++ (idData ++ (ffff ++ rest))) := by rw [hf]; simp
  have hle := length_le_encAll cs (fun c hc => (hok c hc).idLen)
  -- the cut file: complete header, then a prefix of the rest
  have hfk : f.take k = (idRIFF ++ (s4 ++ idWAVE)) ++ (encAll cs ++ (idData ++ (ffff ++ rest))).take (k - 12) := by
    rw [hf', List.take_append, List.take_of_length_le (by omega), h12]
  have hhead : readHead (f.take k) = .ok (idRIFF, none, 12) :=
    readHead_riff (s4 := s4) (rest := (encAll cs ++ (idData ++ (ffff ++ rest))).take (k - 12)) (by rw [hfk]; simp) hs
  by_cases hk1 : k - 12 < (encAll cs).length
  · -- cut inside the chunks before the data header
    obtain ⟨A, c, B, j, hcs, hj, hm, htk⟩ := take_encAll cs (k - 12) hk1
    have hfk' : f.take k = (idRIFF ++ (s4 ++ idWAVE)) ++ (encAll A ++ c.enc.take j) := by
      rw [hfk, List.take_append_of_le_length (Nat.le_of_lt hk1), htk]
    have hAok : ∀ x ∈ A, x.OK none := fun x hx => hok x (by rw [hcs]; simp [hx])
    have hcok : c.OK none := hok c (by rw [hcs]; simp)
    have hAl := length_le_encAll A (fun x hx => (hAok x hx).idLen)
    have hlen : (f.take k).length = 12 + ((encAll A).length + j) := by
      rw [hfk']; simp only [List.length_append, List.length_take, h12]
      have := hj; omega
    have hw := walk_prefix none A c hAok hcok _ (f.take k) j hj hfk' ((f.take k).length + 1) (by omega)
    rw [h12] at hw
    rw [hcs] at hno
    simp only [readFile, hhead, hw]
    unfold prefixOutcome
    by_cases h8 : j < 8
    · simp only [h8, ↓reduceIte]
      exact ⟨_, finishRead_noData (by rw [tlookup_walkTable_absent _ _ (noId_sub_left hno).1]; rfl)⟩
    · have hp : ¬ (c.body.length % 2 = 1 ∧ c.id = idData ∧ j = 8 + c.body.length) :=
        fun h => (noId_sub_left hno).2 h.2.1
      simp only [h8, ↓reduceIte, if_neg hp]
      exact ⟨_, rfl⟩
  · by_cases hk2 : k - 12 < (encAll cs).length + 8
    · -- cut inside the placeholder header: all chunks walked, EOF, no data chunk
      have hfk' : f.take k = (idRIFF ++ (s4 ++ idWAVE)) ++
          (encAll cs ++ (idData ++ (ffff ++ rest)).take (k - 12 - (encAll cs).length)) := by
        rw [hfk, List.take_append, List.take_of_length_le (by omega)]
      have hlen : (f.take k).length ≤ 12 + (encAll cs).length + (k - 12 - (encAll cs).length) := by
        rw [hfk']; simp only [List.length_append, List.length_take, h12]; omega
      have hlen2 : 12 + (encAll cs).length ≤ (f.take k).length := by
        rw [hfk']; simp only [List.length_append, h12]; omega
      obtain ⟨fuel, hfuel⟩ : ∃ q, (f.take k).length + 1 = cs.length + (q + 1) := ⟨(f.take k).length - cs.length, by omega⟩
      have hw := walk_chunks_then none cs hok _ (f.take k) _ (fuel + 1) [] [] hfk'
      rw [h12] at hw
      simp only [readFile, hhead, hfuel, hw]
      rw [readChunks_eof (by omega)]
      exact ⟨_, finishRead_noData (by rw [tlookup_walkTable_absent _ _ hno]; rfl)⟩
    · -- the placeholder header is complete
      have hfk' : f.take k = idRIFF ++ (s4 ++ (idWAVE ++ (encAll cs ++ (idData ++ (ffff ++
          rest.take (k - 12 - (encAll cs).length - 8)))))) := by
        have h8 : (idData ++ ffff).length = 8 := rfl
        have e : idData ++ (ffff ++ rest) = (idData ++ ffff) ++ rest := by simp
        rw [hfk, List.take_append, List.take_of_length_le (by omega), e, List.take_append,
          List.take_of_length_le (by rw [h8]; omega), h8]
        simp
      exact ⟨_, riff_placeholder_rejected cs hok s4 _ _ hs hfk'⟩

/-- **C17 (unfinished files, truncated as well).**  Every prefix of the buffer of a writer that was never closed —
what is on disk after a crash that also lost the tail of the buffer — is rejected. -/
theorem C17_unclosed_prefix (fmt : Fmt) (c0 : Option (List ChnaEntry)) (a0 b0 : Option Bytes) (force : Bool)
    (ops : List WOp) (hc0 : ChnaOK c0) (ha0 : BytesOK a0) (hb0 : BytesOK b0) (k : Nat) :
    ∃ e, readFile ((unclosedFile fmt c0 a0 b0 force ops).take k) = .error e := by
  have hds : ∀ d, (none : Option Ds64) = some d → d.table = [] := by intro d hd; cases hd
  have hok : ∀ c ∈ [junkC] ++ fmtC fmt :: preC c0 a0 b0, c.OK none := by
    intro c hc
    rcases List.mem_append.1 hc with h | hc
    · rw [List.mem_singleton.1 h]; exact junkC_ok
    · rcases List.mem_cons.1 hc with rfl | hc
      · exact fmtC_ok none hds fmt
      · exact preC_ok none hds hc0 ha0 hb0 c hc
  have hF : ∀ x ∈ [junkC], x.id = idJUNK := by intro x hx; rw [List.mem_singleton.1 hx]; rfl
  have hno : NoId idData ([junkC] ++ fmtC fmt :: preC c0 a0 b0) := by simp only [preC]; no_id
  refine riff_placeholder_prefix_rejected _ hok hno ffff (dataOf ops) _ rfl ?_ k
  rw [unclosedFile_layout, preB_eq hc0, head0, fmtChunk_eq, junkChunk_eq]; simp

/-- **The former excluded point.**  `C17_unclosed` at the sizes where the reader used to go wrong: with `2^32 - 1`
or more data bytes (where the placeholder `0xFFFFFFFF` describes a chunk that ends at or inside the file) the
unfinished file is rejected like any other.  (The length hypothesis is satisfiable — one `write` of that many
bytes — but no such list is built here: the data stays a variable.  On the real code the same sizes are run as
sparse files on every check, `big_unclosed_probe`.) -/
theorem unclosed_rejected_any_size (fmt : Fmt) (c0 : Option (List ChnaEntry)) (a0 b0 : Option Bytes) (force : Bool)
    (ops : List WOp) (hc0 : ChnaOK c0) (ha0 : BytesOK a0) (hb0 : BytesOK b0)
    (_hdata : 2 ^ 32 - 1 ≤ (dataOf ops).length) :
    readFile (unclosedFile fmt c0 a0 b0 force ops) = .error .dataPlaceholder :=
  C17_unclosed fmt c0 a0 b0 force ops hc0 ha0 hb0

/-! ### truncated finalised files -/

/-- The finalised file as the reader sees it: a header part `pre` (12 bytes for RIFF, 48 for BW64 including
the ds64 chunk) that `_read_riff_chunk`/`_read_ds64_chunk` accept exactly when it is complete, followed by
well-formed chunks: (JUNK,) fmt, constructor chunks, data, late chunks. -/
theorem closedFile_written (fmt : Fmt) (c0 : Option (List ChnaEntry)) (a0 b0 : Option Bytes) (force : Bool)
    (ops : List WOp)
    (hc0 : ChnaOK c0) (hcF : ChnaOK (pendChna c0 ops))
    (ha0 : BytesOK a0) (haF : BytesOK (pendAxml a0 ops))
    (hb0 : BytesOK b0) (hbF : BytesOK (pendBext b0 ops))
    (hdata : (dataOf ops).length < 2 ^ 63) :
    ∃ (pre : Bytes) (F : List Chunk) (ds : Option Ds64) (ff : Bytes) (sz : Nat),
      closedFile fmt c0 a0 b0 force ops = pre ++ encAll (F ++ bodyC fmt c0 a0 b0 sz (dataOf ops)
        (pad (dataOf ops).length) (pendChna c0 ops) (pendAxml a0 ops) (pendBext b0 ops)) ∧
      (∀ x ∈ F, x.id = idJUNK) ∧
      (∀ x ∈ F ++ bodyC fmt c0 a0 b0 sz (dataOf ops) (pad (dataOf ops).length) (pendChna c0 ops)
        (pendAxml a0 ops) (pendBext b0 ops), x.OK ds) ∧
      (∀ d, ds = some d → d.dataSize = (dataOf ops).length) ∧
      12 ≤ pre.length ∧
      (∀ k, pre.length ≤ k → readHead ((closedFile fmt c0 a0 b0 force ops).take k) = .ok (ff, ds, pre.length)) ∧
      (∀ k, k < pre.length → readHead ((closedFile fmt c0 a0 b0 force ops).take k) = .error .struct) := by
  obtain ⟨hop, hoc, hoa, hob⟩ := openW_opened fmt c0 a0 b0 force
  obtain ⟨hrun, hrc, hra, hrb⟩ := runW_opened ops hop
  rw [hoc] at hrc; rw [hoa] at hra; rw [hob] at hrb
  simp only [List.nil_append] at hrun
  have hlay := closeW_layout hrun
  rw [hrc, hra, hrb] at hlay
  have hpre := preB_eq hc0 a0 b0
  have hlate := lateB_eq hcF c0.isSome (truthy a0) (truthy b0) (pendAxml a0 ops) (pendBext b0 ops)
  have hpl := preB_length_le hc0 ha0 hb0
  have hll := lateB_length_le c0.isSome (truthy a0) (truthy b0) hcF haF hbF
  simp only [closedFile]
  rw [hlay]
  simp only []
  generalize hR : riffSizeOf (preB c0 a0 b0) (dataOf ops)
    (lateB c0.isSome (truthy a0) (truthy b0) (pendChna c0 ops) (pendAxml a0 ops) (pendBext b0 ops)) = R
  have hRlt : R < 2 ^ 64 := by rw [← hR]; unfold riffSizeOf; omega
  have hnR : (dataOf ops).length + 72 ≤ R := by rw [← hR]; unfold riffSizeOf; omega
  split
  · -- BW64
    generalize hfile : idBW64 ++ (ffff ++ (idWAVE ++ (ds64Chunk R (dataOf ops).length ++ (fmtChunk fmt ++
      (preB c0 a0 b0 ++ (idData ++ (ffff ++ (dataOf ops ++ (pad (dataOf ops).length ++
        lateB c0.isSome (truthy a0) (truthy b0) (pendChna c0 ops) (pendAxml a0 ops) (pendBext b0 ops)))))))))) = f
    have hds : ∀ d, (some (⟨R, (dataOf ops).length, []⟩ : Ds64)) = some d → d.table = [] := by
      intro d hd; cases hd; rfl
    have hf : f = (idBW64 ++ (ffff ++ (idWAVE ++ ds64Chunk R (dataOf ops).length))) ++
        encAll ([] ++ bodyC fmt c0 a0 b0 4294967295 (dataOf ops) (pad (dataOf ops).length) (pendChna c0 ops)
          (pendAxml a0 ops) (pendBext b0 ops)) := by
      rw [← hfile, hpre, hlate, fmtChunk_eq]
      have hffff : le 4 4294967295 = ffff := by decide
      simp [bodyC, dataC, Chunk.enc, hffff]
    have hdOK : (dataC 4294967295 (dataOf ops) (pad (dataOf ops).length)).OK (some ⟨R, (dataOf ops).length, []⟩) :=
      ⟨by simp only [dataC]; decide, by simp only [dataC]; decide, by simp only [dataC]; omega,
        by simp [effSize, hdrSize, dataC], by simp [dataC, pad_length], rfl⟩
    have hpl48 : (idBW64 ++ (ffff ++ (idWAVE ++ ds64Chunk R (dataOf ops).length))).length = 48 := by
      simp [idBW64, ffff, idWAVE, ds64Chunk, idDs64, le_length]
    refine ⟨_, [], some ⟨R, (dataOf ops).length, []⟩, idBW64, 4294967295, hf, by simp, ?_,
      by intro d hd; cases hd; rfl, by rw [hpl48]; omega, ?_, ?_⟩
    · simpa using bodyC_ok _ hds hc0 hcF ha0 haF hb0 hbF hdOK
    · intro k hk
      rw [hpl48] at hk ⊢
      have hfk : f.take k = idBW64 ++ (ffff ++ (idWAVE ++ (ds64Chunk R (dataOf ops).length ++
          (encAll ([] ++ bodyC fmt c0 a0 b0 4294967295 (dataOf ops) (pad (dataOf ops).length) (pendChna c0 ops)
            (pendAxml a0 ops) (pendBext b0 ops))).take (k - 48)))) := by
        rw [hf, List.take_append, List.take_of_length_le (by rw [hpl48]; exact hk), hpl48]; simp
      exact readHead_bw64 hfk hRlt (by omega)
    · intro k hk
      rw [hpl48] at hk
      exact readHead_bw64_short hfile.symm hk
  · -- RIFF
    rename_i hbw
    have hR32 : R < 2 ^ 32 := by
      simp at hbw; omega
    generalize hfile : idRIFF ++ (le 4 R ++ (idWAVE ++ (junkChunk ++ (fmtChunk fmt ++
      (preB c0 a0 b0 ++ (idData ++ (le 4 (dataOf ops).length ++ (dataOf ops ++ (pad (dataOf ops).length ++
        lateB c0.isSome (truthy a0) (truthy b0) (pendChna c0 ops) (pendAxml a0 ops) (pendBext b0 ops)))))))))) = f
    have hds : ∀ d, (none : Option Ds64) = some d → d.table = [] := by intro d hd; cases hd
    have hf : f = (idRIFF ++ (le 4 R ++ idWAVE)) ++
        encAll ([junkC] ++ bodyC fmt c0 a0 b0 (dataOf ops).length (dataOf ops) (pad (dataOf ops).length)
          (pendChna c0 ops) (pendAxml a0 ops) (pendBext b0 ops)) := by
      rw [← hfile, hpre, hlate, fmtChunk_eq, junkChunk_eq]
      simp [bodyC, dataC, Chunk.enc]
    have hdOK : (dataC (dataOf ops).length (dataOf ops) (pad (dataOf ops).length)).OK none :=
      ⟨by simp only [dataC]; decide, by simp only [dataC]; decide, by simp only [dataC]; omega,
        by simp [effSize, hdrSize, dataC], by simp [dataC, pad_length],
        by simp only [dataC, isPlaceholder, decide_true, Bool.true_and]; exact decide_eq_false (by omega)⟩
    have hpl12 : (idRIFF ++ (le 4 R ++ idWAVE)).length = 12 := by simp [idRIFF, idWAVE, le_length]
    refine ⟨_, [junkC], none, idRIFF, (dataOf ops).length, hf,
      by intro x hx; rw [List.mem_singleton.1 hx]; rfl, ?_, (by intro d hd; cases hd), by have := hpl12; omega, ?_, ?_⟩
    · intro c hc
      rcases List.mem_append.1 hc with h | h
      · rw [List.mem_singleton.1 h]; exact junkC_ok
      · exact bodyC_ok _ hds hc0 hcF ha0 haF hb0 hbF hdOK c h
    · intro k hk
      rw [hpl12] at hk ⊢
      have hfk : f.take k = idRIFF ++ (le 4 R ++ (idWAVE ++
          (encAll ([junkC] ++ bodyC fmt c0 a0 b0 (dataOf ops).length (dataOf ops) (pad (dataOf ops).length)
            (pendChna c0 ops) (pendAxml a0 ops) (pendBext b0 ops))).take (k - 12))) := by
        rw [hf, List.take_append, List.take_of_length_le (by rw [hpl12]; exact hk), hpl12]; simp
      exact readHead_riff hfk (le_length 4 R)
    · intro k hk
      rw [hpl12] at hk
      exact readHead_riff_short hfile.symm (le_length 4 R) hk

/-- **C17 (truncated files).**  For every finalised file the writer model produces (same quantifier as
`C09_roundtrip`) and every cut position `k` before its end, the reader either rejects the first `k` bytes
or accepts them with the original format, the original frame count, exactly the original sample bytes, and
each of chna / axml / bext either absent or identical to what the complete file holds — never another frame
count, never a partial chunk. -/
theorem C17_truncation (fmt : Fmt) (c0 : Option (List ChnaEntry)) (a0 b0 : Option Bytes) (force : Bool)
    (ops : List WOp)
    (hfmt : FmtOK fmt)
    (hc0 : ChnaOK c0) (hcF : ChnaOK (pendChna c0 ops))
    (ha0 : BytesOK a0) (haF : BytesOK (pendAxml a0 ops))
    (hb0 : BytesOK b0) (hbF : BytesOK (pendBext b0 ops))
    (hframes : (dataOf ops).length % fmt.blockAlign = 0)
    (hdata : (dataOf ops).length < 2 ^ 63)
    (k : Nat) (hk : k < (closedFile fmt c0 a0 b0 force ops).length) :
    TruncOK ⟨1, fmt.channels, fmt.rate, fmt.bits⟩ ((dataOf ops).length / fmt.blockAlign) (dataOf ops)
      (effChna c0 (pendChna c0 ops)) (effMeta a0 (pendAxml a0 ops)) (effMeta b0 (pendBext b0 ops))
      (readFile ((closedFile fmt c0 a0 b0 force ops).take k)) := by
  obtain ⟨pre, F, ds, ff, sz, hf, hF, hok, hds, hpre, hhead, hshort⟩ :=
    closedFile_written fmt c0 a0 b0 force ops hc0 hcF ha0 haF hb0 hbF hdata
  by_cases hkp : k < pre.length
  · simp only [readFile, hshort k hkp]
    trivial
  · simp only [readFile, hhead k (by omega)]
    exact trunc_body (ff := ff) hfmt hc0 hcF hf hF hok hds hframes (by omega) k (by omega) hk

/-! ### non-vacuity and concrete behaviour of the model on unfinished / truncated files -/

example : ChnaOK none ∧ BytesOK (some exAxml) ∧ BytesOK none :=
  ⟨trivial, by show exAxml.length < 2 ^ 32; decide, trivial⟩

set_option maxRecDepth 100000 in
/-- an unfinished file (odd axml at open, one write, bext pending; forceBw64 either way) is rejected -/
example : readFile (unclosedFile exFmt none (some exAxml) none true [.write exData, .setBext (some exBext)])
      = .error .dataPlaceholder ∧
    readFile (unclosedFile exFmt none (some exAxml) none false [.write exData, .setBext (some exBext)])
      = .error .dataPlaceholder := by decide +kernel

set_option maxRecDepth 100000 in
/-- prefixes of that unfinished file: cut in the RIFF header, inside the axml body, inside the data header, after it -/
example :
    let f := unclosedFile exFmt none (some exAxml) none true [.write exData, .setBext (some exBext)]
    f.length = 101 ∧ readFile (f.take 11) = .error .struct ∧ readFile (f.take 82) = .error .chunkEnd ∧
    readFile (f.take 75) = .error .missingChunk ∧ readFile (f.take 91) = .error .missingChunk ∧
    readFile (f.take 92) = .error .dataPlaceholder ∧ readFile (f.take 100) = .error .dataPlaceholder := by decide +kernel

/-- a crafted plain RIFF file: header, `fmt `, `data` + 0xFFFFFFFF + two sample bytes -/
def exCrafted (rest : Bytes) : Bytes :=
  idRIFF ++ (le 4 0 ++ (idWAVE ++ (encAll [fmtC ⟨1, 48000, 16⟩] ++ (idData ++ (ffff ++ rest)))))

set_option maxRecDepth 100000 in
/-- the model computes on it: rejected with the new error whatever follows the header (nothing, one frame); with the
size field one less (0xFFFFFFFE) it is the old "chunk ends after the end of the file"; with the header cut short the
file has no data chunk; and the same eight bytes in a BW64 file (where the writer's `close()` leaves them) are fine -/
example : readFile (exCrafted []) = .error .dataPlaceholder ∧ readFile (exCrafted [1, 2]) = .error .dataPlaceholder ∧
    readFile (idRIFF ++ (le 4 0 ++ (idWAVE ++ (encAll [fmtC ⟨1, 48000, 16⟩] ++ (idData ++ (le 4 4294967294 ++ [1, 2]))))))
      = .error .chunkEnd ∧
    readFile ((exCrafted []).take 43) = .error .missingChunk ∧
    readFile (closedFile ⟨1, 48000, 16⟩ none none none true [.write [1, 2]]) =
      .ok (⟨idBW64, ⟨1, 1, 48000, 16⟩, 1, [1, 2], none, none, none⟩, []) ∧
    readAt (closedFile ⟨1, 48000, 16⟩ none none none true [.write [1, 2]]) 72 8 = idData ++ ffff := by decide +kernel

/-- a finalised RIFF file: 12 + 36 + 24, axml 8+3+1 at open, data 8+9+1, bext 8+5+1 late: 116 bytes -/
def exFile : Bytes := closedFile exFmt none (some exAxml) none false [.write exData, .setBext (some exBext)]

set_option maxRecDepth 100000 in
example : exFile.length = 116 := by decide +kernel

set_option maxRecDepth 100000 in
/-- cut inside the late bext chunk: rejected; cut right after the data chunk's pad byte: accepted with the
original frames and without bext; cut before the data chunk's pad byte: accepted with a warning;
cut inside the data: rejected; cut inside the bext header: accepted without bext; cut inside the data header: rejected (no data chunk);
cut inside the RIFF header: rejected -/
example :
    readFile (exFile.take 110) = .error .chunkEnd ∧
    readFile (exFile.take 102) = .ok (⟨idRIFF, ⟨1, 3, 48000, 24⟩, 1, exData, none, some exAxml, none⟩, []) ∧
    readFile (exFile.take 101) = .ok (⟨idRIFF, ⟨1, 3, 48000, 24⟩, 1, exData, none, some exAxml, none⟩, [.dataPad]) ∧
    readFile (exFile.take 100) = .error .chunkEnd ∧
    readFile (exFile.take 106) = .ok (⟨idRIFF, ⟨1, 3, 48000, 24⟩, 1, exData, none, some exAxml, none⟩, []) ∧
    readFile (exFile.take 90) = .error .missingChunk ∧
    readFile (exFile.take 10) = .error .struct := by decide +kernel

end Earverif.Bw64
