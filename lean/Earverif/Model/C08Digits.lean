/-
Positional digit strings shared by the C08 models (`TimeFormat`, `GenIds`).

Python's `str(int)`, `f"{n:02d}"`, `"{:04X}".format(n)` and `int(s)` are modelled by
`natDigits` (most significant digit first), `padLeft` (minimum width, never truncates)
and `ofDigits`.  Core Lean only.
-/
namespace Earverif.Digits

/-- Digits of `n` in base `b+2`, most significant first; `0 ↦ [0]` (as `str(0) == "0"`). -/
def natDigits (b : Nat) (n : Nat) : List Nat :=
  if n < b + 2 then [n] else natDigits b (n / (b + 2)) ++ [n % (b + 2)]
termination_by n
decreasing_by
  apply Nat.div_lt_self <;> omega

/-- Value of a big-endian digit list in base `base` (Horner), as `int(s)` / `int(s, 16)`. -/
def ofDigits (base : Nat) (ds : List Nat) : Nat :=
  ds.foldl (fun a d => a * base + d) 0

/-- Minimum-width padding (`{:0w}`): pads on the left, never truncates. -/
def padLeft {α} (w : Nat) (fill : α) (xs : List α) : List α :=
  List.replicate (w - xs.length) fill ++ xs

/-- ASCII decimal digit. -/
def decChar : Nat → Char
  | 0 => '0' | 1 => '1' | 2 => '2' | 3 => '3' | 4 => '4'
  | 5 => '5' | 6 => '6' | 7 => '7' | 8 => '8' | 9 => '9'
  | _ => '?'

/-- ASCII decimal digits only (the model's `\d`; Python's `\d` on `str` also accepts other
Unicode decimal digits, which the check keeps outside its generators). -/
def isDec (c : Char) : Bool :=
  c == '0' || c == '1' || c == '2' || c == '3' || c == '4' ||
  c == '5' || c == '6' || c == '7' || c == '8' || c == '9'

def decVal : Char → Nat
  | '0' => 0 | '1' => 1 | '2' => 2 | '3' => 3 | '4' => 4
  | '5' => 5 | '6' => 6 | '7' => 7 | '8' => 8 | '9' => 9
  | _ => 0

/-- Upper-case hexadecimal digit (`X` format code). -/
def hexChar : Nat → Char
  | 0 => '0' | 1 => '1' | 2 => '2' | 3 => '3' | 4 => '4'
  | 5 => '5' | 6 => '6' | 7 => '7' | 8 => '8' | 9 => '9'
  | 10 => 'A' | 11 => 'B' | 12 => 'C' | 13 => 'D' | 14 => 'E' | 15 => 'F'
  | _ => '?'

def isHexUpper (c : Char) : Bool :=
  isDec c || c == 'A' || c == 'B' || c == 'C' || c == 'D' || c == 'E' || c == 'F'

def hexVal : Char → Nat
  | 'A' => 10 | 'B' => 11 | 'C' => 12 | 'D' => 13 | 'E' => 14 | 'F' => 15
  | c => decVal c

/-- `str(n)` for a non-negative int. -/
def decStr (n : Nat) : List Char := (natDigits 8 n).map decChar

/-- `int(s)` for an ASCII digit string. -/
def decNat (cs : List Char) : Nat := ofDigits 10 (cs.map decVal)

/-- `f"{n:0{w}d}"`. -/
def decPad (w n : Nat) : List Char := padLeft w '0' (decStr n)

/-- `"{:0{w}X}".format(n)`. -/
def hexPad (w n : Nat) : List Char := padLeft w '0' ((natDigits 14 n).map hexChar)

/-- `int(s, 16)` restricted to upper-case digits. -/
def hexNat (cs : List Char) : Nat := ofDigits 16 (cs.map hexVal)

end Earverif.Digits
