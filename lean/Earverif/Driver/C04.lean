/- Line protocol for the C04 file-render glue model.
   in : `<chan names> | none or <ch> <name,name> <num/den> ; ... | <gain num/den> | <fail 0/1> | <M> | <blocks>`
        blocks: `#`-separated blocks, `;`-separated frames, space-separated samples `num/den`; an empty block is `-`
   out: `n=<nChannels> failed=<0/1> over=<0/1> | <frame codes ...> ; ...`  or `bad-op`

   Lines starting with `@` address the speakers-file / selection model (`Model/FileRenderLayout.lean`); all
   arguments are blank-separated tokens:
     rational  `num/den` or `int`;   string `=` followed by `.`-separated decimal code points (`=` alone: empty)
     Y         `n` | `t` | `f` | `i <int>` | `q <rat>` | `s <string>` | `l <k> <Y>*k` | `d <k> (<string> <Y>)*k`
     screen    `N` | `P <aspect> <az> <el> <r> <width>` | `C <aspect> <X> <Y> <Z> <width>`
     channels  `<k> (<string name> <az> <el> <r> <azLo> <azHi> <elLo> <elHi>)*k`
   ops:
     `@load <dflt screen> <Y>`                         load_real_layout
         -> `ok speakers=N|<k> (<Y channel> <k'> <Y name>*k' <pos: N | az el r> <Y gain>)*k screen=<screen>` | `reject` | `unsupported`
     `@out <dflt screen> <layout screen> <channels> <N | F <Y>>`   load_output_layout
         -> `ok n=<n> upmix=N|<rows> <cols> <rat>* pos=<az el r>* screen=<screen> warn=<k> <warning>*` | `reject` | `unsupported`
         warning: `az <string>` | `el <string>` | `nm <string>` | `mo <string> <k> <nat>*` | `rm <nat> <k> <string>*`
     `@check <k> <string>*k <rows> <cols> <rat>*`     check_upmix_matrix -> `<k> <warning>*`
     `@inside <x> <start> <end>`                       inside_angle_range -> `0` | `1`
     `@lookup <k> (<string id | -> <p|o|x>)*k <p|o> <string id | ->`   lookup_adm_element
         -> `none` | `elem <index>` | `key` | `value`
     `@items <k> (<id|-> <kind>)*k <string programme id | -> <m> <string comp id>*m <string mode | ->`   get_rendering_items
         with recording parameters -> `select <index|none> <m> <index>* pre <mode>` | `key` | `value` | `assert`
     `@parts <blocksize> <n>`                          block lengths of iter_sample_blocks over n frames -> `<k> <len>*`
-/
import Earverif.Model.FileRender
import Earverif.Model.FileRenderLayout
import Earverif.Driver.Util
open Earverif.FileRender Earverif.Driver
open Earverif.FileRenderLayout

def parseRat? (s : String) : Option Rat :=
  match s.splitOn "/" with
  | [n] => do some ((← n.toInt?) : Rat)
  | [n, d] => do
    let n ← n.toInt?
    let d ← d.toNat?
    if d = 0 then none else some (mkRat n d)
  | _ => none

def parseSpeaker? (s : String) : Option Speaker :=
  match words s with
  | [c, names, g] => do some ⟨← c.toNat?, names.splitOn ",", ← parseRat? g⟩
  | _ => none

def parseSpeakers? (s : String) : Option (Option (List Speaker)) :=
  if words s == ["none"] then some none
  else do
    let sp ← ((s.splitOn ";").filter (fun t => words t ≠ [])).mapM parseSpeaker?
    if sp.isEmpty then none else some (some sp)

def parseFrame? (s : String) : Option (List Rat) := (words s).mapM parseRat?

def parseBlock? (s : String) : Option (List (List Rat)) :=
  if words s == ["-"] then some []
  else ((s.splitOn ";").filter (fun t => words t ≠ [])).mapM parseFrame?

/-! ### `@` ops: speakers-file and selection model -/

abbrev P (α : Type) := List String → Option (α × List String)

def pStr : P String
  | t :: rest =>
    if t.startsWith "=" then
      let body := (t.drop 1).toString
      if body == "" then some ("", rest)
      else do
        let cps ← (body.splitOn ".").mapM (·.toNat?)
        some (String.ofList (cps.map Char.ofNat), rest)
    else none
  | [] => none

def pRat : P Rat
  | t :: rest => do some (← parseRat? t, rest)
  | [] => none

def pNat : P Nat
  | t :: rest => do some (← t.toNat?, rest)
  | [] => none

def pMany {α : Type} (p : P α) : Nat → P (List α)
  | 0, ts => some ([], ts)
  | k + 1, ts => do
    let (x, ts) ← p ts
    let (xs, ts) ← pMany p k ts
    some (x :: xs, ts)

partial def pY : P Y
  | "n" :: rest => some (.null, rest)
  | "t" :: rest => some (.bool true, rest)
  | "f" :: rest => some (.bool false, rest)
  | "i" :: v :: rest => do some (.int (← v.toInt?), rest)
  | "q" :: v :: rest => do some (.num (← parseRat? v), rest)
  | "s" :: rest => do let (s, rest) ← pStr rest; some (.str s, rest)
  | "l" :: k :: rest => do
    let (xs, rest) ← pMany pY (← k.toNat?) rest
    some (.list xs, rest)
  | "d" :: k :: rest => do
    let (kvs, rest) ← pMany (fun ts => do
      let (key, ts) ← pStr ts
      let (v, ts) ← pY ts
      some ((key, v), ts)) (← k.toNat?) rest
    some (.dict kvs, rest)
  | _ => none

def pScreen : P (Option Screen)
  | "N" :: rest => some (none, rest)
  | "P" :: rest => do
    let (v, rest) ← pMany pRat 5 rest
    match v with
    | [a, az, el, r, w] => some (some (.polar a ⟨az, el, r⟩ w), rest)
    | _ => none
  | "C" :: rest => do
    let (v, rest) ← pMany pRat 5 rest
    match v with
    | [a, x, y, z, w] => some (some (.cart a ⟨x, y, z⟩ w), rest)
    | _ => none
  | _ => none

def pChannel : P Channel := fun ts => do
  let (name, ts) ← pStr ts
  let (v, ts) ← pMany pRat 7 ts
  match v with
  | [az, el, r, a0, a1, e0, e1] => some (⟨name, ⟨az, el, r⟩, a0, a1, e0, e1⟩, ts)
  | _ => none

def pChannels : P (List Channel) := fun ts => do
  let (k, ts) ← pNat ts
  pMany pChannel k ts

def showRat (q : Rat) : String := s!"{q.num}/{q.den}"

def showStr (s : String) : String :=
  "=" ++ String.intercalate "." (s.toList.map fun c => toString c.toNat)

partial def showY : Y → String
  | .null => "n"
  | .bool true => "t"
  | .bool false => "f"
  | .int i => s!"i {i}"
  | .num q => s!"q {showRat q}"
  | .str s => s!"s {showStr s}"
  | .list xs => String.intercalate " " (s!"l {xs.length}" :: xs.map showY)
  | .dict kvs => String.intercalate " " (s!"d {kvs.length}" :: kvs.map fun kv => showStr kv.1 ++ " " ++ showY kv.2)

def showPos (p : PolarPos) : String := s!"{showRat p.az} {showRat p.el} {showRat p.r}"

def showScreen : Option Screen → String
  | none => "N"
  | some (.polar a c w) => s!"P {showRat a} {showPos c} {showRat w}"
  | some (.cart a c w) => s!"C {showRat a} {showRat c.X} {showRat c.Y} {showRat c.Z} {showRat w}"

def showSpeaker (s : RSpeaker) : String :=
  String.intercalate " " ([showY s.channel, toString s.names.length] ++ s.names.map showY ++
    [match s.pos with | none => "N" | some p => showPos p, showY s.gain])

def showWarn : Warn → String
  | .az n => s!"az {showStr n}"
  | .el n => s!"el {showStr n}"
  | .notMapped n => s!"nm {showStr n}"
  | .multiOut n outs => String.intercalate " " ([s!"mo {showStr n} {outs.length}"] ++ outs.map toString)
  | .rowMulti o names => String.intercalate " " ([s!"rm {o} {names.length}"] ++ names.map showStr)

def showWarns (ws : List Warn) : String :=
  String.intercalate " " (toString ws.length :: ws.map showWarn)

def showErr : Err → String
  | .reject _ => "reject"
  | .unsupported _ => "unsupported"

def showMatrix (U : List (List Rat)) (cols : Nat) : String :=
  String.intercalate " " ([toString U.length, toString cols] ++ (U.flatten.map showRat))

def pKind : P Kind
  | "p" :: rest => some (.programme, rest)
  | "o" :: rest => some (.object, rest)
  | "x" :: rest => some (.other, rest)
  | _ => none

def pOptStr : P (Option String)
  | "-" :: rest => some (none, rest)
  | ts => do let (s, ts) ← pStr ts; some (some s, ts)

def pAdm : P (List Elem) := fun ts => do
  let (k, ts) ← pNat ts
  pMany (fun ts => do
    let (i, ts) ← pOptStr ts
    let (kd, ts) ← pKind ts
    some (⟨i, kd⟩, ts)) k ts

def showLErr : LErr → String
  | .keyError _ => "key"
  | .valueError _ => "value"
  | .assertion => "assert"
  | .inner m => "inner " ++ m

def indexOf (adm : List Elem) (e : Elem) : String :=
  match adm.findIdx? (· == e) with
  | some i => toString i
  | none => "?"

def answerAt (ts : List String) : Option String :=
  match ts with
  | "@load" :: rest => do
    let (dflt, rest) ← pScreen rest
    let dflt ← dflt
    let (y, rest) ← pY rest
    if rest ≠ [] then none else
    match loadRealLayout dflt y with
    | .error e => some (showErr e)
    | .ok rl =>
      let sp := match rl.speakers with
        | none => "N"
        | some sp => String.intercalate " " (toString sp.length :: sp.map showSpeaker)
      some s!"ok speakers={sp} screen={showScreen rl.screen}"
  | "@out" :: rest => do
    let (dflt, rest) ← pScreen rest
    let dflt ← dflt
    let (ls, rest) ← pScreen rest
    let (chans, rest) ← pChannels rest
    let (file, rest) ← (match rest with
      | "N" :: rest => some (none, rest)
      | "F" :: rest => do let (y, rest) ← pY rest; some (some y, rest)
      | _ => none)
    if rest ≠ [] then none else
    match loadOutputLayout dflt ls chans file with
    | .error e => some (showErr e)
    | .ok o =>
      let up := match o.upmix with
        | none => "N"
        | some U => showMatrix U chans.length
      let pos := String.intercalate " " (o.chans.map fun c => showPos c.pos)
      some s!"ok n={o.nChannels} upmix={up} pos={pos} screen={showScreen o.screen} warn={showWarns o.warnings}"
  | "@check" :: rest => do
    let (k, rest) ← pNat rest
    let (names, rest) ← pMany pStr k rest
    let (r, rest) ← pNat rest
    let (c, rest) ← pNat rest
    let (es, rest) ← pMany pRat (r * c) rest
    if rest ≠ [] then none else
    if c ≠ k then none else
    let U := (List.range r).map fun o => (es.drop (o * c)).take c
    some (showWarns (checkUpmix names U))
  | ["@inside", x, s, e] => do
    some (if insideAngleRange (← parseRat? x) (← parseRat? s) (← parseRat? e) then "1" else "0")
  | "@lookup" :: rest => do
    let (adm, rest) ← pAdm rest
    let (kd, rest) ← pKind rest
    let (i, rest) ← pOptStr rest
    if rest ≠ [] then none else
    match lookupAdmElement adm i kd with
    | .error e => some (showLErr e)
    | .ok none => some "none"
    | .ok (some e) => some s!"elem {indexOf adm e}"
  | "@items" :: rest => do
    let (adm, rest) ← pAdm rest
    let (prog, rest) ← pOptStr rest
    let (m, rest) ← pNat rest
    let (comps, rest) ← pMany pStr m rest
    let (mode, rest) ← pOptStr rest
    if rest ≠ [] then none else
    -- recording parameters: the "items" are the trace of calls made so far
    let select := fun (p : Option Elem) (cs : List Elem) =>
      (Except.ok (String.intercalate " " (["select", (match p with | none => "none" | some e => indexOf adm e),
        toString cs.length] ++ cs.map (indexOf adm))) : Except LErr String)
    match getRenderingItems select (fun t => .ok (t ++ " pre")) (fun t => .ok (t ++ " to_cartesian"))
        (fun t => .ok (t ++ " to_polar")) adm prog comps mode with
    | .error e => some (showLErr e)
    | .ok t => some (if mode.isNone then t ++ " none" else t)
  | ["@parts", bs, n] => do
    let bs ← bs.toNat?
    let n ← n.toNat?
    if bs = 0 then none else
    let parts := fileParts bs (List.replicate n ())
    some (String.intercalate " " (toString parts.length :: parts.map fun p => toString p.length))
  | _ => none

def answer (line : String) : String :=
  if line.startsWith "@" then (answerAt (words line)).getD "bad-op" else
  match line.splitOn "|" with
  | [chans, sp, gain, fail, m, blocks] =>
    match parseSpeakers? sp, parseRat? (String.join (words gain)), (words fail), (String.join (words m)).toInt?,
          (blocks.splitOn "#").mapM parseBlock? with
    | some speakers, some g, [f], some M, some bs =>
      if f ≠ "0" && f ≠ "1" then "bad-op" else
      let r := run (words chans) speakers g (f == "1") M bs
      let frames := r.frames.map fun fr => String.intercalate " " (fr.map toString)
      s!"n={r.nChannels} failed={if r.failed then 1 else 0} over={if hasOverloaded r.peak then 1 else 0} | " ++
        String.intercalate " ; " frames
    | _, _, _, _, _ => "bad-op"
  | _ => "bad-op"

def main : IO Unit := lineLoop answer
