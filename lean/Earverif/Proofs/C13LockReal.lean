/-
C13 — the channel-lock selection over ℝ, attached to `lockHandle` (what `renderCartLock` and
`renderPolarLock` execute): the locked index is a candidate loudspeaker (in the layout, not
excluded, within `maxDistance + 1e-5` when a limit is given), its weighted distance is within
`1e-5` of the minimum over all candidates, and it has the best priority among the candidates
within `1e-5` of that minimum; `.unchanged` exactly when there is no candidate; never `.error`.
-/
import Earverif.Proofs.C13Real
import Earverif.Proofs.C13Lock
import Mathlib.Tactic.Linarith
import Mathlib.Tactic.NormNum

namespace Earverif.C13
open Earverif.Zone Earverif.Zone.Scalar Earverif.Zone.ScalarSqrt Earverif.Lock

@[simp] theorem real_eps5 : (Scalar.eps5 : ℝ) = 1e-5 := rfl
@[simp] theorem real_eps6 : (Scalar.eps6 : ℝ) = 1e-6 := rfl

theorem eps5_pos : (0 : ℝ) < 1e-5 := by norm_num

/-- `np.min` over ℝ: the result is one of the values and a lower bound of all of them. -/
theorem minList_spec_real (l : List ℝ) (m : ℝ) :
    (minList m l = m ∨ minList m l ∈ l) ∧ minList m l ≤ m ∧ ∀ x ∈ l, minList m l ≤ x := by
  induction l generalizing m with
  | nil => simp [minList]
  | cons x xs ih =>
    simp only [minList, real_lt]
    by_cases hx : x < m
    · simp only [hx, decide_true, ↓reduceIte]
      obtain ⟨h1, h2, h3⟩ := ih x
      refine ⟨?_, by linarith, ?_⟩
      · rcases h1 with h | h
        · right; simp [h]
        · right; simp [h]
      · intro y hy
        simp only [List.mem_cons] at hy
        rcases hy with rfl | hy
        · exact h2
        · exact h3 y hy
    · simp only [hx, decide_false, Bool.false_eq_true, ↓reduceIte]
      obtain ⟨h1, h2, h3⟩ := ih m
      refine ⟨?_, h2, ?_⟩
      · rcases h1 with h | h
        · left; exact h
        · right; simp [h]
      · intro y hy
        simp only [List.mem_cons] at hy
        rcases hy with rfl | hy
        · linarith
        · exact h3 y hy

/-- The selection without `maxDistance` on a non-empty candidate list, over ℝ (the statement of
`lockSelect_none_spec`, which is over ℚ). -/
theorem lockSelect_none_spec_real (tol : ℝ) (htol : 0 < tol) (cands : List (Cand ℝ)) (hne : cands ≠ []) :
    ∃ c ∈ cands, lockSelect tol none cands = .locked c.idx ∧
      ∃ m ∈ cands, (∀ c' ∈ cands, m.dw ≤ c'.dw) ∧ c.dw < m.dw + tol ∧
        ∀ c' ∈ cands, c'.dw < m.dw + tol → c.prio ≤ c'.prio := by
  cases cands with
  | nil => exact absurd rfl hne
  | cons c0 cs =>
    obtain ⟨h1, h2, h3⟩ := minList_spec_real (cs.map Cand.dw) c0.dw
    have hm : ∃ m ∈ c0 :: cs, m.dw = minList c0.dw (cs.map Cand.dw) := by
      rcases h1 with h | h
      · exact ⟨c0, by simp, h.symm⟩
      · simp only [List.mem_map] at h
        obtain ⟨m, hm, hmd⟩ := h
        exact ⟨m, by simp [hm], hmd⟩
    obtain ⟨m, hmmem, hmd⟩ := hm
    have hlow : ∀ c' ∈ c0 :: cs, m.dw ≤ c'.dw := by
      intro c' hc'
      rw [hmd]
      simp only [List.mem_cons] at hc'
      rcases hc' with rfl | hc'
      · exact h2
      · exact h3 _ (List.mem_map.mpr ⟨c', hc', rfl⟩)
    unfold lockSelect
    simp only [real_lt, real_add]
    have hmf : m ∈ (c0 :: cs).filter fun (c : Cand ℝ) => decide (c.dw < minList c0.dw (cs.map Cand.dw) + tol) := by
      rw [List.mem_filter]
      refine ⟨hmmem, ?_⟩
      rw [← hmd]
      simp only [decide_eq_true_eq]
      linarith
    split
    · rename_i hf
      rw [hf] at hmf
      simp at hmf
    · rename_i a as hf
      have hspec := argminPrio_spec as a
      have hmem : argminPrio a as ∈ a :: as := by
        rcases hspec.1 with h | h
        · simp [h]
        · simp [h]
      have hfm : ∀ c', c' ∈ a :: as ↔ (c' ∈ c0 :: cs ∧ c'.dw < minList c0.dw (cs.map Cand.dw) + tol) := by
        intro c'
        rw [← hf, List.mem_filter]
        simp
      refine ⟨argminPrio a as, ((hfm _).mp hmem).1, rfl, m, hmmem, hlow, ?_, ?_⟩
      · rw [hmd]; exact ((hfm _).mp hmem).2
      · intro c' hc' hlt
        have : c' ∈ a :: as := (hfm c').mpr ⟨hc', by rw [← hmd]; exact hlt⟩
        simp only [List.mem_cons] at this
        rcases this with rfl | h
        · exact hspec.2.1
        · exact hspec.2.2 c' h

/-- `lockSelect` over ℝ with an optional limit: `.unchanged` iff no candidate is within the
limit, otherwise the specification of `lockSelect_none_spec_real` on the candidates within it. -/
theorem lockSelect_spec_real (tol : ℝ) (htol : 0 < tol) (maxD : Option ℝ) (cands : List (Cand ℝ)) :
    let ok : Cand ℝ → Prop := fun c => ∀ md, maxD = some md → c.d < md + tol
    ((∀ c ∈ cands, ¬ ok c) ∧ lockSelect tol maxD cands = .unchanged) ∨
    (∃ c ∈ cands, ok c ∧ lockSelect tol maxD cands = .locked c.idx ∧
      ∃ m ∈ cands, ok m ∧ (∀ c' ∈ cands, ok c' → m.dw ≤ c'.dw) ∧ c.dw < m.dw + tol ∧
        ∀ c' ∈ cands, ok c' → c'.dw < m.dw + tol → c.prio ≤ c'.prio) := by
  intro ok
  cases maxD with
  | none =>
    have hok : ∀ c, ok c := fun c md h => by simp at h
    by_cases hne : cands = []
    · left; subst hne; exact ⟨by simp, rfl⟩
    · right
      obtain ⟨c, hc, hsel, m, hm, h1, h2, h3⟩ := lockSelect_none_spec_real tol htol cands hne
      exact ⟨c, hc, hok c, hsel, m, hm, hok m, fun c' hc' _ => h1 c' hc', h2, fun c' hc' _ => h3 c' hc'⟩
  | some md =>
    have hok : ∀ c, ok c ↔ c.d < md + tol := by
      intro c
      constructor
      · intro h; exact h md rfl
      · intro h md' e; simp only [Option.some.injEq] at e; subst e; exact h
    rw [lockSelect_some_eq]
    have hmem : ∀ c, c ∈ cands.filter (fun (c : Cand ℝ) => lt c.d (add md tol)) ↔ c ∈ cands ∧ ok c := by
      intro c
      rw [List.mem_filter, hok]
      simp
    by_cases hp : cands.filter (fun (c : Cand ℝ) => lt c.d (add md tol)) = []
    · left
      refine ⟨fun c hc hokc => ?_, by rw [hp]; rfl⟩
      have := (hmem c).mpr ⟨hc, hokc⟩
      rw [hp] at this; simp at this
    · right
      obtain ⟨c, hc, hsel, m, hm, h1, h2, h3⟩ := lockSelect_none_spec_real tol htol _ hp
      refine ⟨c, ((hmem c).mp hc).1, ((hmem c).mp hc).2, hsel, m, ((hmem m).mp hm).1, ((hmem m).mp hm).2, ?_, h2, ?_⟩
      · intro c' hc' hokc'; exact h1 c' ((hmem c').mpr ⟨hc', hokc'⟩)
      · intro c' hc' hokc'; exact h3 c' ((hmem c').mpr ⟨hc', hokc'⟩)

/-! ### the candidate list of `handle`, by loudspeaker index -/

/-- `distances[j]` of `handle`: `np.linalg.norm(position - channel_positions[j])` (0 outside the layout). -/
noncomputable def spkDist (pos : List (P3 ℝ)) (p : P3 ℝ) (j : Nat) : ℝ :=
  match pos[j]? with
  | some c => dist p c
  | none => 0

/-- `distances_w[j]` of `handle`: the weighted distance (allocentric handler) or the plain one. -/
noncomputable def spkDistW (allo : Bool) (pos : List (P3 ℝ)) (p : P3 ℝ) (j : Nat) : ℝ :=
  match pos[j]? with
  | some c => if allo then distW p c else dist p c
  | none => 0

/-- Loudspeaker `j` takes part in the lock: it is a loudspeaker of the layout, it is not
excluded, and — when `maxDistance` is given — its (unweighted) distance is below
`maxDistance + 1e-5`.  (The property's "within maxDistance" is this strict comparison with
the tolerance added.) -/
def LockCandidate (pos : List (P3 ℝ)) (excluded : List Bool) (p : P3 ℝ) (maxD : Option ℝ) (j : Nat) : Prop :=
  j < pos.length ∧ isExcl excluded j = false ∧ ∀ md, maxD = some md → spkDist pos p j < md + 1e-5

/-- the list `handle` works on -/
noncomputable def lockCands (allo : Bool) (pos : List (P3 ℝ)) (prio : List Nat) (excluded : List Bool) (p : P3 ℝ) :
    List (Cand ℝ) :=
  ((List.range pos.length).filter fun i => !isExcl excluded i).filterMap fun i =>
    match pos[i]? with
    | none => none
    | some c => some ⟨i, dist p c, if allo then distW p c else dist p c, prio.getD i 0⟩

theorem lockHandle_eq (allo : Bool) (pos : List (P3 ℝ)) (prio : List Nat) (excluded : List Bool) (p : P3 ℝ)
    (maxD : Option ℝ) :
    lockHandle allo pos prio excluded p (some maxD) = lockSelect 1e-5 maxD (lockCands allo pos prio excluded p) := by
  simp only [lockHandle, lockCands, real_eps5]
  congr
  funext i
  cases pos[i]? <;> rfl

theorem mem_lockCands (allo : Bool) (pos : List (P3 ℝ)) (prio : List Nat) (excluded : List Bool) (p : P3 ℝ)
    (c : Cand ℝ) :
    c ∈ lockCands allo pos prio excluded p ↔
      ∃ j, j < pos.length ∧ isExcl excluded j = false ∧
        c = ⟨j, spkDist pos p j, spkDistW allo pos p j, prio.getD j 0⟩ := by
  unfold lockCands
  simp only [List.mem_filterMap, List.mem_filter, List.mem_range, Bool.not_eq_true']
  constructor
  · rintro ⟨j, ⟨hj, hex⟩, hc⟩
    refine ⟨j, hj, hex, ?_⟩
    rw [List.getElem?_eq_getElem hj] at hc
    simp only [Option.some.injEq] at hc
    rw [← hc]
    simp [spkDist, spkDistW, List.getElem?_eq_getElem hj]
  · rintro ⟨j, hj, hex, rfl⟩
    refine ⟨j, ⟨hj, hex⟩, ?_⟩
    rw [List.getElem?_eq_getElem hj]
    simp [spkDist, spkDistW, List.getElem?_eq_getElem hj]

/-- **`ChannelLockHandlerBase.handle` over ℝ, by loudspeaker index.**  With `channelLock` set:

* the answer is never the `ValueError` of the empty `argmin`;
* it is `position` unchanged exactly when no loudspeaker is a candidate (in the layout, not
  excluded, and — with a `maxDistance` — at distance `< maxDistance + 1e-5`);
* otherwise it is a candidate loudspeaker `i` that is **nearest** in the handler's weighted
  distance up to the tolerance (`W i < W m + 1e-5` for a candidate `m` minimising `W` over all
  candidates) and has the **best priority** among all candidates within `1e-5` of that minimum. -/
theorem lockHandle_spec (allo : Bool) (pos : List (P3 ℝ)) (prio : List Nat) (excluded : List Bool) (p : P3 ℝ)
    (maxD : Option ℝ) :
    ((∀ j, ¬ LockCandidate pos excluded p maxD j) ∧
      lockHandle allo pos prio excluded p (some maxD) = .unchanged) ∨
    (∃ i, LockCandidate pos excluded p maxD i ∧
      lockHandle allo pos prio excluded p (some maxD) = .locked i ∧
      ∃ m, LockCandidate pos excluded p maxD m ∧
        (∀ j, LockCandidate pos excluded p maxD j → spkDistW allo pos p m ≤ spkDistW allo pos p j) ∧
        spkDistW allo pos p i < spkDistW allo pos p m + 1e-5 ∧
        ∀ j, LockCandidate pos excluded p maxD j → spkDistW allo pos p j < spkDistW allo pos p m + 1e-5 →
          prio.getD i 0 ≤ prio.getD j 0) := by
  rw [lockHandle_eq]
  have hcand : ∀ j, LockCandidate pos excluded p maxD j ↔
      ∃ c ∈ lockCands allo pos prio excluded p, c.idx = j ∧ ∀ md, maxD = some md → c.d < md + 1e-5 := by
    intro j
    constructor
    · rintro ⟨hj, hex, hd⟩
      exact ⟨_, (mem_lockCands allo pos prio excluded p _).mpr ⟨j, hj, hex, rfl⟩, rfl, hd⟩
    · rintro ⟨c, hc, rfl, hd⟩
      obtain ⟨j, hj, hex, rfl⟩ := (mem_lockCands allo pos prio excluded p _).mp hc
      exact ⟨hj, hex, hd⟩
  rcases lockSelect_spec_real 1e-5 eps5_pos maxD (lockCands allo pos prio excluded p) with ⟨hno, hsel⟩ | h
  · left
    refine ⟨fun j hj => ?_, hsel⟩
    obtain ⟨c, hc, _, hd⟩ := (hcand j).mp hj
    exact hno c hc hd
  · right
    obtain ⟨c, hc, hokc, hsel, m, hm, hokm, hmin, hnear, hprio⟩ := h
    obtain ⟨i, hi, hiex, rfl⟩ := (mem_lockCands allo pos prio excluded p _).mp hc
    obtain ⟨mi, hmi, hmiex, rfl⟩ := (mem_lockCands allo pos prio excluded p _).mp hm
    refine ⟨i, ⟨hi, hiex, hokc⟩, hsel, mi, ⟨hmi, hmiex, hokm⟩, ?_, hnear, ?_⟩
    · rintro j ⟨hj, hjex, hjd⟩
      exact hmin _ ((mem_lockCands allo pos prio excluded p _).mpr ⟨j, hj, hjex, rfl⟩) hjd
    · rintro j ⟨hj, hjex, hjd⟩ hlt
      exact hprio _ ((mem_lockCands allo pos prio excluded p _).mpr ⟨j, hj, hjex, rfl⟩) hjd hlt

/-- **The documented rule, by loudspeaker index**: `i` is a candidate (in the layout, not excluded,
at distance `< maxDistance + 1e-5` when a limit is given); its weighted distance is within `1e-5`
of the minimum over all candidates (attained at `m`); and no candidate within `1e-5` of that
minimum has a better (lower) priority value. -/
def NearestByRule (allo : Bool) (pos : List (P3 ℝ)) (prio : List Nat) (excluded : List Bool) (p : P3 ℝ)
    (maxD : Option ℝ) (i : Nat) : Prop :=
  LockCandidate pos excluded p maxD i ∧
  ∃ m, LockCandidate pos excluded p maxD m ∧
    (∀ j, LockCandidate pos excluded p maxD j → spkDistW allo pos p m ≤ spkDistW allo pos p j) ∧
    spkDistW allo pos p i < spkDistW allo pos p m + 1e-5 ∧
    ∀ j, LockCandidate pos excluded p maxD j → spkDistW allo pos p j < spkDistW allo pos p m + 1e-5 →
      prio.getD i 0 ≤ prio.getD j 0

/-- With pairwise different priorities (they are a permutation of `0..n-1` in the real handlers)
the rule determines the loudspeaker. -/
theorem nearestByRule_unique (allo : Bool) (pos : List (P3 ℝ)) (prio : List Nat) (excluded : List Bool) (p : P3 ℝ)
    (maxD : Option ℝ) (i i' : Nat)
    (hinj : ∀ a b, a < pos.length → b < pos.length → prio.getD a 0 = prio.getD b 0 → a = b)
    (h : NearestByRule allo pos prio excluded p maxD i) (h' : NearestByRule allo pos prio excluded p maxD i') :
    i = i' := by
  obtain ⟨hc, m, hm, hmin, hnear, hprio⟩ := h
  obtain ⟨hc', m', hm', hmin', hnear', hprio'⟩ := h'
  have e1 := hmin m' hm'
  have e2 := hmin' m hm
  have hmm : spkDistW allo pos p m = spkDistW allo pos p m' := le_antisymm e1 e2
  have p1 := hprio i' hc' (by rw [hmm]; exact hnear')
  have p2 := hprio' i hc (by rw [← hmm]; exact hnear)
  exact hinj i i' hc.1 hc'.1 (Nat.le_antisymm p1 p2)

end Earverif.C13
