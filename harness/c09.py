"""C09 — files written by Bw64Writer are read back identically by Bw64Reader.

Correspondence: the real writer/reader on BytesIO vs the Lean byte models (Earverif.Bw64), byte-for-byte on the
written file and field-for-field on the parse.  Search: the round-trip predicate on the real code alone.
(The helpers here are shared with harness/c17.py.)
"""
import io
import struct
import warnings

import numpy as np

from .common import Spec, Driver

RATES = [8000, 44100, 48000, 96000, 1, 192000]

# ------------------------------------------------------------------------------------------------
# case generation
#
# case = dict(bits, ch, rate, force, open=dict(chna, axml, bext), ops=[("w", frames) | ("sa"|"sb"|"sc", value)],
#             samples=np.ndarray (frames, ch))      values: None | bytes | list of AudioID tuples for chna


def mk_audio_ids(rng, ch, n):
    """n AudioID field tuples, v1 (AT_ track format) and v2 (AC_ channel format) references mixed."""
    out = []
    for i in range(n):
        ti = rng.randint(1, max(1, ch)) if rng.random() < 0.5 else (i % max(1, ch)) + 1
        uid = "ATU_%08x" % rng.randint(1, 0xFFFFFFFF)
        if rng.random() < 0.5:
            tf = "AT_%04x%04x_%02x" % (rng.randint(1, 0xFFFF), rng.randint(1, 0xFFFF), rng.randint(1, 0xFF))
        else:
            tf = "AC_%04x%04x" % (rng.randint(1, 0xFFFF), rng.randint(1, 0xFFFF))
        pf = None if rng.random() < 0.3 else "AP_%04x%04x" % (rng.randint(1, 0xFFFF), rng.randint(1, 0xFFFF))
        out.append((ti, uid, tf, pf))
    return out


def mk_chna(ids):
    from ear.fileio.bw64.chunks import ChnaChunk, AudioID

    if ids is None:
        return None
    return ChnaChunk([AudioID(*t) for t in ids])


def rand_bytes(rng, n, kind):
    if kind == "axml":
        base = b'<?xml version="1.0"?><ebuCoreMain><format/></ebuCoreMain>'
        s = (base * (n // len(base) + 1))[:n]
        return s
    return bytes(rng.randrange(256) for _ in range(n))


def chunk_len(rng, parity):
    """parity 'odd'/'even' -> a length >= 1"""
    n = rng.choice([1, 3, 5, 17, 59, 121]) if parity == "odd" else rng.choice([2, 4, 6, 16, 60, 120])
    if rng.random() < 0.3:
        n = rng.randrange(1, 140) | 1 if parity == "odd" else (rng.randrange(1, 140) * 2)
    return n


CHUNK_OPTS = [("absent", None), ("open", "odd"), ("open", "even"), ("late", "odd"), ("late", "even")]
CHNA_OPTS = [("absent", None), ("open", 0), ("open", "n"), ("late", 0), ("late", "n")]
FRAME_OPTS = [0, 1, 2, 3, "odd", "even"]


def mk_samples(rng, frames, ch, bits, f32exact=False):
    """floats: a mix of exactly representable values k/scale, boundary values, values needing quantisation and
    values outside [-1, 1] (clipped by the encoder). f32exact: multiples of 1/256 in [-1.2, 1.2] (exact in float32,
    and their product with the 16-bit scale is exact in float32 too)."""
    scale = float(2 ** (bits - 1) - 1)
    a = np.empty((frames, ch))
    if f32exact:
        for i in range(frames):
            for j in range(ch):
                a[i, j] = rng.randint(-300, 300) / 256.0
        return a
    for i in range(frames):
        for j in range(ch):
            k = rng.random()
            if k < 0.5:
                a[i, j] = rng.randint(-int(scale), int(scale)) / scale
            elif k < 0.6:
                a[i, j] = rng.choice([0.0, 1.0, -1.0, 1 / scale, -1 / scale])
            elif k < 0.9:
                a[i, j] = rng.uniform(-1, 1)
            else:
                a[i, j] = rng.uniform(-1.3, 1.3)
    return a


def mk_case(rng, bits, ch, frames_opt, chna_opt, axml_opt, bext_opt, force, rate=None, small=False):
    frames = frames_opt
    if frames_opt == "odd":
        frames = rng.choice([5, 7, 9]) if small else rng.choice([5, 7, 9, 21, 33])
    elif frames_opt == "even":
        frames = rng.choice([4, 6, 8]) if small else rng.choice([4, 6, 8, 20, 32])
    case = dict(bits=bits, ch=ch, rate=rate or rng.choice(RATES), force=force, open={}, frames=frames)
    late = []
    where, n = chna_opt
    ids = None if where == "absent" else mk_audio_ids(rng, ch, 0 if n == 0 else rng.randint(1, 2 if small else 4))
    case["open"]["chna"] = ids if where == "open" else None
    if where == "late":
        late.append(("sc", ids))
    for key, opt, op in (("axml", axml_opt, "sa"), ("bext", bext_opt, "sb")):
        where, parity = opt
        v = None if where == "absent" else rand_bytes(rng, min(chunk_len(rng, parity), 30 if small else 10**6), key)
        if where == "absent" and rng.random() < 0.2:
            v = b""  # falsy: treated as absent by the writer
        case["open"][key] = v if where != "late" else None
        if where == "late":
            late.append((op, v))
    # partition of the frames into write calls (empty writes allowed), setters interleaved anywhere
    mode = rng.random()
    parts, left = [], frames
    if mode < 0.2:
        # one-frame blocks only (interleave has a shortcut for single rows/columns)
        parts = [1] * frames
    else:
        while left > 0:
            n = rng.randint(0, left) if rng.random() < 0.7 else left
            if rng.random() < 0.25:
                n = min(left, 1)
            parts.append(n)
            left -= n
    if mode < 0.35 or (0.5 < mode < 0.6):
        # a zero-frame block in every position of the partition: first, between all blocks, last
        z = [0]
        for n in parts:
            z += [n, 0]
        parts = z
    elif rng.random() < 0.3:
        parts.insert(rng.randint(0, len(parts)), 0)
    ops = [("w", n) for n in parts]
    for l in late:
        ops.insert(rng.randint(0, len(ops)), l)
    case["ops"] = ops
    f32 = rng.random() < 0.25
    case["samples"] = mk_samples(rng, frames, ch, bits, f32exact=f32)
    # the memory layout in which each write() call receives its (frames x channels) block
    case["layouts"] = [pick_layout(rng, n, ch, bits, f32) for n in parts]
    return case


LAYOUTS = ["C", "F", "stackT", "T", "every-other-frame", "column-subset", "neg-rows", "neg-cols", "readonly",
           "list", "float32"]


def pick_layout(rng, n, ch, bits, f32exact):
    if rng.random() < 0.3:
        return "C"
    l = rng.choice(LAYOUTS[1:])
    if l == "list" and n == 0:
        return "C"  # np.array([]) has no channel axis: write() asserts on shape[1]
    if l == "float32" and not (f32exact and (ch > 1 or bits == 16)):
        # mono blocks stay float32 through interleave and are scaled in float32: only 16 bit is exact there
        return "F"
    return l


def make_block(layout, blk):
    """the logical block `blk` (C-contiguous float64, frames x channels) in the given memory layout; returns
    (object passed to write(), [(array that must stay unchanged, pristine copy)])"""
    blk = np.array(blk, dtype=float)
    n, ch = blk.shape
    if layout == "C":
        a = blk.copy()
    elif layout == "F":
        a = np.asfortranarray(blk)
    elif layout == "stackT":
        a = np.stack([blk[:, j].copy() for j in range(ch)]).T if ch else blk.copy()
    elif layout == "T":
        a = np.ascontiguousarray(blk.T).T
    elif layout == "every-other-frame":
        big = np.full((2 * n + 1, ch), 0.8125)
        big[1::2] = blk
        a = big[1::2]
        return a, [(big, big.copy())]
    elif layout == "column-subset":
        big = np.full((n, 2 * ch + 1), -0.4375)
        big[:, 1::2] = blk
        a = big[:, 1::2]
        return a, [(big, big.copy())]
    elif layout == "neg-rows":
        base = np.ascontiguousarray(blk[::-1])
        a = base[::-1]
        return a, [(base, base.copy())]
    elif layout == "neg-cols":
        base = np.ascontiguousarray(blk[:, ::-1])
        a = base[:, ::-1]
        return a, [(base, base.copy())]
    elif layout == "readonly":
        a = blk.copy()
        a.flags.writeable = False
    elif layout == "list":
        a = blk.tolist()
        return a, [(a, blk.tolist())]
    elif layout == "float32":
        a = blk.astype(np.float32)
        assert np.array_equal(a.astype(float), blk)
    else:
        raise AssertionError(layout)
    return a, [(a, a.copy())]


def _same(a, b):
    if isinstance(a, list):
        return a == b
    return a.dtype == b.dtype and a.shape == b.shape and np.array_equal(a, b)


def case_features(case):
    f = ["bits:%d" % case["bits"], "channels:%d" % case["ch"], "force:%d" % int(case["force"])]
    total = case["frames"] * case["ch"] * case["bits"] // 8
    f.append("data:" + ("empty" if total == 0 else "odd" if total & 1 else "even"))
    late = {op: v for op, v in case["ops"] if op != "w"}
    for key, op in (("chna", "sc"), ("axml", "sa"), ("bext", "sb")):
        v, where = case["open"][key], "open"
        if op in late:
            v, where = late[op], "late"
        if v is None or (key != "chna" and len(v) == 0):
            f.append("%s:absent" % key)
        elif key == "chna":
            f.append("chna:%s:%s" % (where, "empty" if not v else "entries"))
        else:
            f.append("%s:%s:%s" % (key, where, "odd" if len(v) & 1 else "even"))
    f.append("writes:%d" % min(4, sum(1 for op, _ in case["ops"] if op == "w")))
    ws = [v for op, v in case["ops"] if op == "w"]
    for l in sorted(set(case.get("layouts", []))):
        f.append("layout:" + l)
    if case["ch"] > 1 and 1 in ws:
        f.append("block:one-frame-multichannel")
    if ws and ws[0] == 0:
        f.append("block:zero-frame-first")
    if len(ws) > 1 and ws[-1] == 0:
        f.append("block:zero-frame-last")
    if 0 in ws[1:-1]:
        f.append("block:zero-frame-middle")
    return f


def case_repr(case):
    """JSON-able, replayable description."""
    return dict(bits=case["bits"], channels=case["ch"], rate=case["rate"], forceBw64=case["force"],
                at_open={k: _vrepr(v) for k, v in case["open"].items()},
                ops=[(op, _vrepr(v)) for op, v in case["ops"]],
                write_layouts=list(case.get("layouts", [])),
                samples=case["samples"].tolist())


def _vrepr(v):
    if isinstance(v, bytes):
        return "hex:" + v.hex()
    return v


# ------------------------------------------------------------------------------------------------
# the real code


def real_write(case, close=True, snapshots=False, layouts=None):
    """Run the real writer, handing each write() call its block in the case's memory layout (or `layouts`).
    Returns (final bytes, [unclosed buffer after __init__ and after each op]); write() calls that modified their
    argument are listed in case["arg_modified"]."""
    from ear.fileio.bw64 import Bw64Writer
    from ear.fileio.bw64.chunks import FormatInfoChunk

    f = io.BytesIO()
    fmt = FormatInfoChunk(formatTag=1, channelCount=case["ch"], sampleRate=case["rate"], bitsPerSample=case["bits"])
    o = case["open"]
    w = Bw64Writer(f, fmt, chna=mk_chna(o["chna"]), axml=o["axml"], bext=o["bext"], forceBw64=case["force"])
    snaps = [f.getvalue()] if snapshots else []
    pos, wi = 0, 0
    if layouts is None:
        layouts = case.get("layouts")
    case["arg_modified"] = []
    for op, v in case["ops"]:
        if op == "w":
            layout = layouts[wi] if layouts else "C"
            arg, keep = make_block(layout, case["samples"][pos:pos + v])
            w.write(arg)
            if not all(_same(a, b) for a, b in keep):
                case["arg_modified"].append(dict(write_index=wi, layout=layout, frames=v))
            pos += v
            wi += 1
        elif op == "sa":
            w.axml = v
        elif op == "sb":
            w.bext = v
        elif op == "sc":
            w.chna = mk_chna(v)
        if snapshots:
            snaps.append(f.getvalue())
    if close:
        w.close()
    return f.getvalue(), snaps


def layout_predicate(case, data):
    """None if the file does not depend on the memory layout of the blocks and write() left its arguments alone,
    else (what, detail, tags) naming a concrete block and layout."""
    if case.get("arg_modified"):
        return ("write() modified its argument", case["arg_modified"][0], ["write-modifies-argument"])
    layouts = case.get("layouts") or []
    if all(l == "C" for l in layouts):
        return None
    ref, _ = real_write(case, layouts=["C"] * len(layouts))
    if ref == data:
        return None
    # which block? give each non-C block its layout on its own
    ws = [v for op, v in case["ops"] if op == "w"]
    pos = 0
    for i, l in enumerate(layouts):
        if l != "C":
            one = ["C"] * len(layouts)
            one[i] = l
            try:
                d, _ = real_write(case, layouts=one)
            except Exception as e:
                d = repr(e)
            if d != ref:
                blk = case["samples"][pos:pos + ws[i]]
                return ("written bytes depend on the memory layout of the block passed to write()",
                        dict(write_index=i, layout=l, block=blk.tolist(), bits=case["bits"],
                             first_difference=_first_diff(ref, d)), ["layout-dependent"])
        pos += ws[i]
    return ("written bytes depend on the memory layouts of the blocks passed to write()",
            dict(layouts=layouts, first_difference=_first_diff(ref, data)), ["layout-dependent"])


def predicates(case, data):
    """round-trip predicate, then the layout predicate; when both fail the layout report (which names the block and
    its layout) is given, with the round-trip failure attached"""
    rt = roundtrip_predicate(case, data)
    try:
        lay = layout_predicate(case, data)
    except Exception as e:
        lay = ("writer raised", "%s: %s" % (type(e).__name__, e), ["writer-exception"])
    if rt and lay and isinstance(lay[1], dict):
        d = dict(lay[1])
        d["round_trip"] = "%s: %s" % (rt[0], str(rt[1])[:200])
        return (lay[0], d, list(lay[2]) + list(rt[2]))
    return rt or lay


def _first_diff(a, b):
    if not isinstance(b, bytes):
        return b
    n = next((i for i in range(min(len(a), len(b))) if a[i] != b[i]), min(len(a), len(b)))
    return dict(offset=n, c_contiguous=a[n:n + 8].hex(), this_layout=b[n:n + 8].hex(), lengths=(len(a), len(b)))


ERR_PATTERNS = [
    ("RuntimeError", "not a riff", "notRiff"),
    ("RuntimeError", "not a wave", "notWave"),
    ("RuntimeError", "missing ds64", "missingDs64"),
    ("RuntimeError", "missing extra data", "fmtInvalid"),
    ("ValueError", "invalid ID", "badId"),
    ("ValueError", "ends after the end of the file", "chunkEnd"),
    ("ValueError", "data chunk size has not been set", "dataPlaceholder"),
    ("ValueError", "required chunk", "missingChunk"),
    ("ValueError", "illegal format chunk size", "fmtSize"),
    ("ValueError", "cbSize", "cbSize"),
    ("ValueError", "format not supported", "fmtInvalid"),
    ("ValueError", "channelCount < 1", "fmtInvalid"),
    ("ValueError", "sampleRate < 1", "fmtInvalid"),
    ("ValueError", "bit depth not supported", "fmtInvalid"),
    ("ValueError", "sanity check failed", "fmtInvalid"),
    ("ValueError", "numTracks in CHNA", "chnaTracks"),
]


def err_kind(e):
    if isinstance(e, struct.error):
        return "struct"
    name, msg = type(e).__name__, str(e)
    for n, pat, kind in ERR_PATTERNS:
        if name == n and pat in msg:
            return kind
    return "other:%s:%s" % (name, msg[:60])


def warn_kind(w):
    msg = str(w.message)
    if "data chunk is missing padding byte" in msg:
        return "dataPad"
    if "CHNA trackRef is expected" in msg:
        return "chnaRef"
    return "other:" + msg[:60]


def codes_of_bytes(data, bits):
    n = bits // 8
    return tuple(int.from_bytes(data[i:i + n], "little", signed=True) for i in range(0, len(data) - n + 1, n))


def real_read(data):
    """Open the real reader and observe it through its public API. Returns ('err', kind) or
    ('ok', dict(ff, tag, ch, rate, bits, frames, codes, chna, axml, bext, warns), samples)."""
    from ear.fileio.bw64 import Bw64Reader

    with warnings.catch_warnings(record=True) as ws:
        warnings.simplefilter("always")
        try:
            r = Bw64Reader(io.BytesIO(data))
        except Exception as e:
            return ("err", err_kind(e))
        try:
            fi = r.formatInfo
            frames = len(r)
            samples = r.read(frames)
            scale = float(2 ** (fi.bitsPerSample - 1) - 1)
            codes = tuple(int(x) for x in np.rint(np.asarray(samples) * scale).astype(np.int64).reshape(-1))
            chna = None
            if r.chna is not None:
                chna = b"".join(a.asByteArray() for a in r.chna.audioIDs).hex()
            res = dict(ff=bytes(r.fileFormat).hex(), tag=int(fi.formatTag), ch=fi.channelCount, rate=fi.sampleRate,
                       bits=fi.bitsPerSample, frames=frames, codes=codes, nsamples=tuple(np.asarray(samples).shape),
                       chna=chna, axml=r.axml, bext=r.bext)
        except Exception as e:
            return ("err", "after-open:%s:%s" % (type(e).__name__, str(e)[:60]))
    res["warns"] = sorted(warn_kind(w) for w in ws)
    return ("ok", res, samples, r.chna)


# ------------------------------------------------------------------------------------------------
# the Lean model (driver protocol)


def val(v):
    if v is None:
        return "-"
    if len(v) == 0:
        return "e"
    return v.hex()


def chna_val(ids):
    if ids is None:
        return "-"
    return "c" + b"".join(a.asByteArray() for a in mk_chna(ids).audioIDs).hex()


def f64_hex(x):
    return struct.pack(">d", float(x)).hex()


def write_line(case, closed, nops=None, mode="samples"):
    """mode 'samples': every write call travels as the float64 bit patterns of its logical frames x channels block
    (row-major) and the Lean model runs interleave + encode_pcm_samples itself (Model/Pcm.lean inside
    Model/Bw64Writer.lean); mode 'bytes': the block is encoded by the real encoder here and the model gets the bytes
    (the byte-level WOp.write the C09/C17 layout theorems are stated for)."""
    from ear.fileio.bw64.utils import encode_pcm_samples

    o = case["open"]
    parts = ["write %d %d %d %d %d %s %s %s" % (int(closed), int(case["force"]), case["ch"], case["rate"], case["bits"],
                                              chna_val(o["chna"]), val(o["axml"]), val(o["bext"]))]
    pos = 0
    ops = case["ops"] if nops is None else case["ops"][:nops]
    for op, v in ops:
        if op == "w":
            blk = case["samples"][pos:pos + v]
            pos += v
            # the interleaved order is the row-major flattening of the logical frames x channels block; the Lean
            # writer has no notion of memory layout
            flat = np.ascontiguousarray(blk, dtype=float).reshape(-1)
            if mode == "samples":
                parts.append("ws " + (",".join(f64_hex(x) for x in flat) if v else "-"))
            else:
                enc = bytes(encode_pcm_samples(flat, case["bits"])) if v else b""
                parts.append("w " + val(enc))
        elif op == "sc":
            parts.append("sc " + chna_val(v))
        else:
            parts.append("%s %s" % (op, val(v)))
    return " ; ".join(parts)


def split_write_answer(ans):
    """('H'|'N'|None, hex): H = the history satisfies the hypotheses of the Lean theorem, N = packable but outside"""
    if ans[:2] in ("H:", "N:"):
        return ans[0], ans[2:]
    return None, ans


def parse_reads_extras(ans):
    """cfg, pos, samples of a `reads` answer (None if the file was rejected)"""
    if not ans.startswith("ok "):
        return None
    d = dict(kv.split("=", 1) for kv in ans[3:].split(" "))
    if "cfg" not in d:
        return None
    smp = d["samples"]
    return dict(cfg=tuple(int(x) for x in d["cfg"].split(",")), pos=int(d["pos"]),
                samples=smp if smp in ("raises",) else tuple(x for x in smp.split(",") if x != "-"))


def real_reads_extras(data):
    """the same observations on the real reader: the constants its cursor methods use (as the opened reader holds
    them), and read(len(reader)) as float64 bit patterns, buffer position afterwards"""
    from ear.fileio.bw64 import Bw64Reader

    with warnings.catch_warnings():
        warnings.simplefilter("ignore")
        r = Bw64Reader(io.BytesIO(data))
        ci = r._chunks[b"data"]
        cfg = (int(ci.position.data), int(r._formatInfo.blockAlignment), int(ci.size), int(r._file_len))
        try:
            smp = np.ascontiguousarray(r.read(len(r)), dtype="<f8").reshape(-1)
            bits = tuple("%016x" % int(w) for w in smp.view("<u8"))
        except Exception as e:
            bits = "raises"
        return dict(cfg=cfg, pos=int(r._buffer.tell()), samples=bits)


def parse_read_answer(ans):
    """model answer -> same canonical shape as real_read (without samples)."""
    if ans.startswith("err "):
        return ("err", ans[4:])
    if not ans.startswith("ok "):
        return ("bad", ans)
    d = dict(kv.split("=", 1) for kv in ans[3:].split(" "))
    bits = int(d["bits"])

    def unval(s):
        return None if s == "-" else b"" if s == "e" else bytes.fromhex(s)

    data = unval(d["data"]) or b""
    return ("ok", dict(ff=d["ff"], tag=int(d["tag"]), ch=int(d["ch"]), rate=int(d["rate"]), bits=bits,
                       frames=int(d["frames"]), codes=codes_of_bytes(data, bits),
                       nsamples=(int(d["frames"]), int(d["ch"])),
                       chna=None if d["chna"] == "-" else d["chna"][1:], axml=unval(d["axml"]), bext=unval(d["bext"]),
                       warns=sorted(x for x in d["warns"].split(",") if x)))


def canon_real(r):
    return r[:2]


# ------------------------------------------------------------------------------------------------
# the round-trip property, evaluated on the real code alone (written from the property text)


def effective_chunks(case):
    """what the client supplied: (chna ids | None, axml | None, bext | None); empty bytes count as not supplied.
    Generated cases supply each chunk at most one way."""
    out = dict(case["open"])
    for op, v in case["ops"]:
        if op == "sc":
            out["chna"] = v
        elif op == "sa":
            out["axml"] = v
        elif op == "sb":
            out["bext"] = v
    for k in ("axml", "bext"):
        if out[k] is not None and len(out[k]) == 0:
            out[k] = None
    return out


def roundtrip_predicate(case, data=None):
    """None if the property holds for this case, else (what, detail, tags)."""
    if data is None:
        try:
            data, _ = real_write(case)
        except Exception as e:
            return ("writer raised", "%s: %s" % (type(e).__name__, e), ["writer-exception"])
    want = effective_chunks(case)
    r = real_read(data)
    if r[0] == "err":
        tags = ["reader-rejects-written-file"]
        b = want["bext"]
        if b is not None and len(b) & 1:
            # classifier for the defect fixed in 028deee: odd-length bext body followed directly by the next
            # chunk id (or the end of the file) instead of a pad byte
            i = data.find(b"bext" + struct.pack("<I", len(b)) + b)
            after = data[i + 8 + len(b): i + 12 + len(b)] if i >= 0 else None
            if after is not None and (after == b"" or after in (b"data", b"chna", b"axml")):
                tags.append("odd-bext-no-pad")
        return ("reader rejects a file written by the writer", r[1], tags)
    _, res, samples, chna = r
    if res["warns"]:
        return ("reader warns on a file written by the writer", res["warns"], ["reader-warns"])
    if (res["tag"], res["ch"], res["rate"], res["bits"]) != (1, case["ch"], case["rate"], case["bits"]):
        return ("format differs", (res["tag"], res["ch"], res["rate"], res["bits"]), ["format-differs"])
    if res["ff"] != (b"BW64" if case["force"] else b"RIFF").hex():
        return ("file format id differs", res["ff"], ["format-id"])
    x = np.clip(case["samples"], -1.0, 1.0)
    got = np.asarray(samples)
    if got.shape != x.shape:
        return ("sample array shape differs", (got.shape, x.shape), ["frames-differ"])
    scale = float(2 ** (case["bits"] - 1) - 1)
    step = 1.0 / scale
    if x.size:
        err = np.abs(got - x)
        if float(err.max()) > step * (1 + 1e-9):
            i = int(np.argmax(err))
            return ("sample differs by more than one quantisation step",
                    dict(index=i, wrote=float(x.reshape(-1)[i]), read=float(got.reshape(-1)[i])), ["samples-differ"])
        # exactly representable values (k / scale) come back exactly
        k = np.rint(x * scale)
        rep = (k / scale) == x
        if np.any(got[rep] != x[rep]):
            i = int(np.argmax(rep & (got != x)))
            return ("representable sample not returned exactly",
                    dict(index=i, wrote=float(x.reshape(-1)[i]), read=float(got.reshape(-1)[i])), ["samples-differ"])
    for k in ("axml", "bext"):
        if res[k] != want[k]:
            return ("%s chunk content differs" % k, dict(wrote=_vrepr(want[k]), read=_vrepr(res[k])), ["chunk-differs"])
    if chna != mk_chna(want["chna"]):
        return ("chna chunk content differs", dict(wrote=want["chna"], read=repr(chna)), ["chunk-differs"])
    return None


# ------------------------------------------------------------------------------------------------


def data_header_at(data):
    """offset of the `data` chunk id in a file laid out by Bw64Writer (12-byte header, then ds64/JUNK, fmt, chunks):
    a plain walk over the 32-bit size fields up to the first `data` id (the chunks before it have true sizes)"""
    pos = 12
    while pos + 8 <= len(data):
        cid, size = data[pos:pos + 4], struct.unpack("<I", data[pos + 4:pos + 8])[0]
        if cid == b"data":
            return pos
        pos += 8 + size + (size & 1)
    return None


def placeholder_field_variants(data):
    """Reader-side inputs derived from one finalised BW64 file (forceBw64): in BW64 mode close() leaves 0xFFFFFFFF in
    the 32-bit size field of the `data` header (the size is in ds64).  The reader's "data chunk size has not been set"
    test (commit 61d37f4) must not fire there, nor for the same bytes relabelled RF64 (relabelled RIFF it does fire:
    that variant belongs to C17's crafted family, harness/c17.py).
    [(label, bytes, expected verdict kind: 'ok' | error kind)]"""
    assert data[:4] == b"BW64"
    dpos = data_header_at(data)
    out = [("bw64-as-written", data, "ok"), ("relabelled-RF64", b"RF64" + data[4:], "ok")]
    if dpos is not None:
        # the true size in the 32-bit field of the BW64 file changes nothing (ds64 wins)
        n = struct.unpack("<Q", data[28:36])[0]
        if n < 0xFFFFFFFF:
            out.append(("bw64-true-size-in-field", data[:dpos + 4] + struct.pack("<I", n) + data[dpos + 8:], "ok"))
    return dpos, out


def grid_cases(rng, n_random, small=False):
    """every chunk presence/parity/placement x force combination once (format parameters cycling through bit
    depth x channels x frame-count class), then random combinations."""
    cases, i = [], 0
    for chna_opt in CHNA_OPTS:
        for axml_opt in CHUNK_OPTS:
            for bext_opt in CHUNK_OPTS:
                for force in (False, True):
                    bits = [16, 24, 32][i % 3]
                    ch = 1 + (i // 3) % 4
                    fr = FRAME_OPTS[(i // 12 + i) % 6]
                    cases.append(mk_case(rng, bits, ch, fr, chna_opt, axml_opt, bext_opt, force, small=small))
                    i += 1
    # every bit depth x channels x frame class at least once, chunks random
    for bits in (16, 24, 32):
        for ch in (1, 2, 3, 4):
            for fr in FRAME_OPTS:
                cases.append(mk_case(rng, bits, ch, fr, rng.choice(CHNA_OPTS), rng.choice(CHUNK_OPTS),
                                     rng.choice(CHUNK_OPTS), rng.random() < 0.5, small=small))
    for _ in range(n_random):
        cases.append(mk_case(rng, rng.choice([16, 24, 32]), rng.randint(1, 4), rng.choice(FRAME_OPTS),
                             rng.choice(CHNA_OPTS), rng.choice(CHUNK_OPTS), rng.choice(CHUNK_OPTS),
                             rng.random() < 0.5, small=small))
    return cases


THEOREMS = (
    "fromLE_le2", "fromLE_le4", "fromLE_le8",
    "unclosedFile_layout", "closeW_layout", "walk_chunks", "walk_chunks_then", "chunkData_found",
    "readFmt_spec", "readChna_spec", "finishRead_written", "C09_open", "C09_roundtrip",
    # the driver's gates vs the theorem hypotheses
    "fmtOK_iff_packable", "fmtOkB_iff", "chnaOK_iff_packable", "chnaOkB_iff", "bytesOK_iff_packable", "wop_packable",
    # sample level: write(samples) = append (encode . interleave), read = deinterleave . decode of the cursor slice
    "runS_eq", "closedFileS_eq", "unclosedFileS_eq", "encodeBlock_eq", "encOps_spec", "readAt_slice", "framesAt_written",
    "C09_samples_roundtrip", "C09_samples_read_all",
)
PCM_THEOREMS = ("interleave_eq_flatten", "pack_eq", "decodeBytes_pack", "decode_slice",
                "encode_isCode", "encode_within_step", "encode_clipped", "decode_encode_representable")


class C09(Spec):
    pid = "C09"
    lean_targets = ("Earverif.Props.C09", "c09driver")
    props_module = "Earverif.Props.C09"
    theorems = tuple("Earverif.Bw64." + t for t in THEOREMS) + tuple("Earverif.Pcm." + t for t in PCM_THEOREMS)
    trusted_base = (
        "models Earverif/Model/Bw64Bytes.lean, Bw64Writer.lean, Bw64Reader.lean are hand transliterations of "
        "Bw64Writer.__init__/write/close and Bw64Reader.__init__ + accessors on a BytesIO; BytesIO seek/read/write "
        "semantics as modelled by readAt/patchAt",
        "sample values: the model's sample-level write (SOp.write / closedFileS) takes the float64 samples as exact "
        "rationals and runs Model/Pcm.lean's interleave + encode_pcm_samples (rn53 rounding model of Model/Ieee.lean, "
        "C16's trusted base) itself; the model's readSamples runs decode_pcm_samples + deinterleave on the cursor slice; "
        "three of four generated histories are sent as float bit patterns and the samples read back are compared bit "
        "for bit; every fourth history is sent at byte level (WOp.write, bytes from the real encoder)",
        "one chna entry is a track index plus 38 opaque bytes (AudioID.asByteArray layout); the string-level AudioID "
        "codec (AC_..._00 suffix, None pack format, utf-8) is covered by the correspondence and the direct predicate, "
        "not by the theorem",
    )
    assumptions = (
        "values within struct.pack field widths (channels, block alignment, chna counts and track indices < 2^16; "
        "rate, bytes per second, each metadata chunk < 2^32; data and file size < 2^64), otherwise the real writer "
        "raises struct.error",
        "each metadata chunk is supplied one way (at construction or by the setter); None and b'' count as not supplied; "
        "a ChnaChunk with no AudioIDs is written (the object is truthy)",
        "format is PCM (formatTag 1) without extra data: the only format the writer's write() supports",
        "every block passed to write() is a frames x channels array (rows of exactly `channels` samples, zero rows "
        "allowed): BlocksOK; anything else fails the writer's shape assertion",
        "samples are float64 values other than NaN (+-inf are clipped like any value outside [-1, 1])",
        "chna entries are what AudioID.asByteArray produces: an AC_ reference carries the _00 suffix (otherwise the "
        "reader warns: ChnaOK = chnaPackable + no such entry, theorem chnaOK_iff_packable)",
    )
    rule = (
        "a case is one writer history (format, at-open chunks, sequence of write/setter calls, forceBw64); all 250 "
        "combinations of chna {absent, open/late x no/some AudioIDs} x axml,bext {absent, open/late x odd/even} x force, "
        "all 72 of bit depth x channels 1..4 x frame class {0,1,2,3,odd,even}, then random combinations with random "
        "write partitions and setter positions; non-trivial = at least one metadata chunk or one non-empty write; "
        "distinct by the written bytes"
    )

    def _run(self, ctx, cases, driver):
        lines, reals = [], []
        for n, case in enumerate(cases):
            try:
                data, _ = real_write(case)
            except Exception as e:
                ctx.hit("writer raised", case_repr(case), "%s: %s" % (type(e).__name__, e), ["writer-exception"])
                continue
            # three of four histories at sample level (floats in, the model encodes), one at byte level
            mode = "bytes" if n % 4 == 3 else "samples"
            reals.append((case, data, mode))
            lines.append(write_line(case, True, mode=mode))
            lines.append("reads " + val(data))
        outs = driver.run(lines) if driver else [None] * len(lines)
        for i, (case, data, mode) in enumerate(reals):
            feats = case_features(case)
            for f in feats:
                ctx.count(f)
            r = real_read(data)
            ctx.count("file:" + ("BW64" if data[:4] == b"BW64" else "RIFF"))
            nontriv = any(not f.endswith("absent") for f in feats if f[:4] in ("chna", "axml", "bext")) or case["frames"] > 0
            ctx.case(data, nontriv, sample=dict(features=feats, file_len=len(data), read=str(canon_real(r))[:300]))
            if driver:
                flag, wout = split_write_answer(outs[2 * i])
                rout = outs[2 * i + 1]
                ctx.count("model-write:" + mode)
                ctx.count("theorem-hypotheses:" + {"H": "inside", "N": "OUTSIDE", None: "no-answer"}[flag])
                ok = True
                if flag == "N":
                    # the generator is meant to stay inside the quantifier of C09_roundtrip / C09_samples_roundtrip
                    ok = False
                    ctx.disagree("generated history outside the hypotheses of the Lean theorem (generator drifted)",
                                 case_repr(case), "N", "H expected")
                if wout != data.hex():
                    ok = False
                    ctx.disagree("Bw64Writer bytes vs Earverif.Bw64.%s" % ("closedFileS" if mode == "samples" else "closedFile"),
                                 case_repr(case), wout, data.hex())
                m = parse_read_answer(rout)
                if m != canon_real(r):
                    ok = False
                    ctx.disagree("Bw64Reader parse vs Earverif.Bw64.readFile", dict(file=data.hex()), m, canon_real(r))
                if r[0] == "ok":
                    # the opened reader's constants and read(len) through decode + deinterleave, bit for bit
                    mx, rx = parse_reads_extras(rout), real_reads_extras(data)
                    ctx.count("reads:samples-compared", len(rx["samples"]) if rx["samples"] != "raises" else 0)
                    if mx != rx:
                        ok = False
                        what = next((k for k in ("cfg", "pos", "samples") if mx is None or mx[k] != rx[k]), "?")
                        ctx.disagree("Bw64Reader.read(len) / reader constants vs Earverif.Bw64.openReader+readSamples (%s)" % what,
                                     dict(file=data.hex()), None if mx is None else str(mx[what])[:300], str(rx[what])[:300])
                if ok:
                    ctx.validated()
            bad = predicates(case, data)
            if bad:
                ctx.hit(bad[0], case_repr(case), bad[1], bad[2])
        self._placeholder_field(ctx, [d for _, d, _ in reals if d[:4] == b"BW64"], driver)

    def _placeholder_field(self, ctx, bw64_files, driver):
        """reader side: the 32-bit size field of the data header of every finalised BW64 file holds 0xFFFFFFFF and the
        reader accepts it (size from ds64); for every 6th file the relabelled variants go through model and code"""
        todo = []
        for i, data in enumerate(bw64_files):
            dpos, variants = placeholder_field_variants(data)
            if dpos is None or data[dpos + 4:dpos + 8] != b"\xff\xff\xff\xff":
                ctx.count("bw64-data-size-field:other")
                continue
            ctx.count("bw64-data-size-field:0xFFFFFFFF")
            if i % 6 == 0:
                todo += [(label, v, want) for label, v, want in variants]
        outs = driver.run(["read " + val(v) for _, v, _ in todo]) if driver else [None] * len(todo)
        for (label, v, want), out in zip(todo, outs):
            r = real_read(v)
            got = "ok" if r[0] == "ok" else r[1]
            ctx.count("placeholder-variant:%s:%s" % (label, got))
            ctx.case(("variant", v), True,
                     sample=dict(kind="reader-side variant of a finalised BW64 file", variant=label, verdict=got)
                     if label != "bw64-as-written" else None)
            if driver:
                m = parse_read_answer(out)
                if m != canon_real(r):
                    ctx.disagree("Bw64Reader on %s file vs Earverif.Bw64.readFile" % label, dict(file=v.hex()), m, canon_real(r))
                else:
                    ctx.validated()
            if got != want:
                ctx.count("placeholder-variant:UNEXPECTED:%s" % label)
            # only the file as written is inside C09's quantifier (and the round-trip predicate has already run on it);
            # the relabelled files are reader-side observations compared with the model

    def correspond(self, ctx):
        driver = Driver("c09driver", "Earverif.Driver.C09")
        cases = grid_cases(ctx.rng, 1200 if ctx.quick else 10000)
        self._run(ctx, cases, driver)

    def search(self, ctx, deep):
        if not deep:
            return
        # the predicate already ran on every correspondence case; a further stream on the real code alone,
        # directed at the boundaries (odd sizes everywhere, many tiny writes)
        rng = ctx.rng
        for _ in range(3000):
            case = mk_case(rng, rng.choice([16, 24, 32]), rng.randint(1, 4), rng.choice([1, 3, "odd", "odd", "even"]),
                           rng.choice(CHNA_OPTS), rng.choice(CHUNK_OPTS[1:]), rng.choice(CHUNK_OPTS[1:]),
                           rng.random() < 0.5)
            ctx.case(("search", repr(case_repr(case))), True)
            ctx.count("search:roundtrip")
            try:
                bad = predicates(case, real_write(case)[0])
            except Exception as e:
                bad = ("writer raised", "%s: %s" % (type(e).__name__, e), ["writer-exception"])
            for l in set(case["layouts"]):
                ctx.count("search:layout:" + l)
            if bad:
                ctx.hit(bad[0], case_repr(case), bad[1], bad[2])


SPEC = C09()

REGISTRY = dict(
    text="FULL: Lean theorems about the models of Bw64Writer (__init__/write/setters/close as append and patch-at-offset "
    "operations, write(samples) = append(encode_pcm_samples(interleave(samples)))) and Bw64Reader (__init__ + accessors + "
    "read = deinterleave(decode_pcm_samples(cursor slice))). Earverif.Bw64.C09_roundtrip: for every PCM format (16/24/32 "
    "bit, channels >= 1, rate >= 1, fields within struct widths), every history of write calls (any partition, empty "
    "blocks) and chunk setter calls, axml/chna/bext each absent, empty or of any length < 2^32, given at construction or "
    "pending at close, forceBw64 either way, whole frames and < 2^63 data bytes: readFile (closedFile ...) = ok with the "
    "same format, frame count, data bytes and chunk contents and an EMPTY warning list (container id BW64 iff forced or "
    "RIFF size >= 2^32). Earverif.Bw64.C09_samples_roundtrip (sample level, composed with C16 and C18): for every history "
    "of write(samples) calls with frames x channels float blocks, no call raises, the reader opens the file with frame "
    "count = frames written and well-formed cursor constants (Cursor.WF, the hypothesis of C18's ops_refine), and "
    "read(n) at any cursor c returns exactly frames [c, min(c+n, N)) of the written audio mapped through decode(encode(x)) "
    "-- whatever the partition into write calls; C09_samples_read_all: read(len) returns all of them. What decode(encode(x)) "
    "is: Earverif.Pcm.encode_within_step (|x| <= 1: |decode(encode x) - x| < 1/(2^(b-1)-1) + 2^-54), encode_clipped "
    "(|x| > 1: exactly +-1), decode_encode_representable (x = decode(c), c not the most negative code: exactly x). "
    "Supporting: closeW_layout, walk_chunks, finishRead_written, runS_eq / closedFileS_eq (sample-level run = byte-level run "
    "on the encoded blocks), encOps_spec (data bytes = encoder output on all frames concatenated, for any partition), "
    "decode_slice / framesAt_written (a slice of written bytes decodes and de-interleaves to the slice of frames). "
    "fmtOK_iff_packable, chnaOK_iff_packable, bytesOK_iff_packable relate the driver's struct.pack gates to the theorem "
    "hypotheses; the driver evaluates the hypotheses (fmtOkB_iff, chnaOkB_iff) on every case and the check fails if a "
    "generated history is outside them. The models are tied to the code on every run byte-for-byte (written files; three of "
    "four histories enter the model as float64 bit patterns, so interleave/encode run inside the model), field-for-field "
    "(parses, warnings as multiset, the reader's data position / block alignment / data size / file length) and bit-for-bit "
    "(samples returned by read(len)) over all 250 chunk presence/parity/placement/force combinations x bit depth x channels "
    "x frame classes + random histories; the round-trip predicate (format, samples exact for representable values / within "
    "one step otherwise, chunk bytes, chna objects, no warnings) runs on the real code for every case. The reader's "
    "'data chunk size has not been set' test (0xFFFFFFFF in the data header of a plain RIFF file, commit 61d37f4) is in the "
    "model (isPlaceholder); a finalised file never trips it: in RIFF mode the data size is at least 72 below the RIFF size, "
    "which is < 2^32 (Chunk.OK.noPlaceholder in closedFile's layout), in BW64 mode the field does hold 0xFFFFFFFF (checked on "
    "every generated BW64 file) and the branch is not reached; every 6th BW64 file is also read as written / relabelled "
    "RF64 / with the true size in the field, model vs code (all accepted).",
    note="Trusted: Lean kernel; hand transliteration of writer/reader/PCM utils + correspondence harness; BytesIO semantics as "
    "modelled (readAt/patchAt); numpy float64 * and / being IEEE round-to-nearest-even (C16's rn53 model, checked bit for "
    "bit on every run); a chna entry is track index + 38 opaque bytes in the theorem (string-level AudioID codec covered by "
    "correspondence and predicate). 'Within one quantisation step' is proved as < step + 2^-54 (the decoded value is itself a "
    "rounded quotient; the bare bound <= step is not a theorem), the direct predicate uses step*(1+1e-9). Memory layout / "
    "dtype of the array passed to write() (float32, strided views) is outside the model: covered by the layout predicate on "
    "the real code. Chunks supplied both at construction and later are outside the property (the theorem states what the "
    "file then contains: the constructor's value). NaN samples are outside.",
    technique="Lean 4 proofs about byte- and sample-level writer/reader models (composition of C16's PCM model and C18's "
    "cursor model) + differential correspondence with the real Bw64Writer/Bw64Reader + round-trip search on the real code",
    design_ref="DESIGN.md section 4, C09",
)
