/- C01: the hypotheses "`renderConcreteCart … = some r`" / "`renderConcretePolarPoint … = some r`" of the headline theorems are
   satisfiable on the regenerated tables (non-vacuity), by partial TOTALITY results:
   * `polarEdges_front`: a polar screen centred straight ahead (azimuth = elevation = 0, distance > 0, 0 < width < 180
     — the default reference screen and the screen of every BS.2051 layout) has edges (no ValueError);
   * `renderConcreteCart_noZone_total`: a Cartesian point block without positionOffset, screenRef, screenEdgeLock, zones and
     channelLock (any position, any divergence, gains, diffuse) is rendered — no `none` — on every environment with pairwise
     distinct allocentric positions;
   * `pspHandle_some_at_vertex`: at the first loudspeaker of every Triplet of a checked table the C05 panner returns a
     result;  `renderConcretePolarPoint_front_total`: a polar point block straight ahead at distance 1 is rendered on a
     layout whose table has a Triplet starting with the front loudspeaker (0, 1, 0). -/
import Earverif.Proofs.C01Glue
import Earverif.Proofs.C01PspNz
import Earverif.Proofs.C01Tables

namespace Earverif.GainCalc
open Earverif.PointSource (RawLayout RawRegion Region Vec3 Mat3 F2 P3)

/-! ### `PolarEdges.from_screen` for a screen straight ahead -/

theorem atan2_real (y x : ℝ) : Scalar.atan2 y x = Complex.arg ⟨x, y⟩ := rfl

theorem degrees_pos_iff (x : ℝ) : 0 < degrees x ↔ 0 < x := by
  have h180 : ((180 : ℚ) : ℝ) = 180 := by norm_num
  simp only [degrees, k_real, pi_real, h180]
  have : (0 : ℝ) < 180 / Real.pi := div_pos (by norm_num) Real.pi_pos
  constructor
  · intro h; by_contra hx; exact absurd h (not_lt.mpr (mul_nonpos_of_nonpos_of_nonneg (not_lt.mp hx) this.le))
  · intro h; exact mul_pos h this

/-- a position strictly to the right (x > 0) has a negative azimuth, one strictly to the left a positive one,
    and x = 0 in front (y > 0) has azimuth 0 -/
theorem azimuthOf_of_x_neg (x y z : ℝ) (hx : x < 0) : 0 < azimuthOf (x, y, z) := by
  simp only [azimuthOf, atan2_real]
  have : Complex.arg ⟨y, x⟩ < 0 := Complex.arg_neg_iff.mpr hx
  have h2 : degrees (Complex.arg ⟨y, x⟩) < 0 := by
    by_contra hc
    rcases lt_or_eq_of_le (not_lt.mp hc) with h | h
    · exact absurd ((degrees_pos_iff _).mp h) (by linarith)
    · have h180 : ((180 : ℚ) : ℝ) = 180 := by norm_num
      simp only [degrees, k_real, pi_real, h180] at h
      have hc' : (0 : ℝ) < 180 / Real.pi := div_pos (by norm_num) Real.pi_pos
      rcases mul_eq_zero.mp h.symm with h0 | h0
      · linarith
      · linarith
  linarith

theorem azimuthOf_of_x_nonneg (x y z : ℝ) (hx : 0 ≤ x) : azimuthOf (x, y, z) ≤ 0 := by
  simp only [azimuthOf, atan2_real]
  have : 0 ≤ Complex.arg ⟨y, x⟩ := Complex.arg_nonneg_iff.mpr hx
  have h180 : ((180 : ℚ) : ℝ) = 180 := by norm_num
  simp only [degrees, k_real, pi_real, h180]
  have hc' : (0 : ℝ) < 180 / Real.pi := div_pos (by norm_num) Real.pi_pos
  have := mul_nonneg this hc'.le
  linarith

theorem radians_90 : radians (90 : ℝ) = Real.pi / 2 := by
  have h180 : ((180 : ℚ) : ℝ) = 180 := by norm_num
  simp only [radians, k_real, pi_real, h180]; ring

/-- **`PolarEdges.from_screen` does not raise for a polar screen straight ahead** -/
theorem polarEdges_front (s : ScreenSpec ℝ) (hp : s.polar = true) (d : ℝ) (hc : s.centre = (0, 0, d)) (hd : 0 < d)
    (hw0 : 0 < s.width) (hw1 : s.width < 180) : ∃ e, polarEdges s = some e := by
  have h90 : ((90 : ℚ) : ℝ) = 90 := by norm_num
  have h2 : ((2 : ℚ) : ℝ) = 2 := by norm_num
  have h180 : ((180 : ℚ) : ℝ) = 180 := by norm_num
  -- the half width of the screen in the plane at distance d
  have hang0 : 0 < radians (s.width / 2) := by
    simp only [radians, k_real, pi_real, h180]
    exact mul_pos (by linarith) (div_pos Real.pi_pos (by norm_num))
  have hang1 : radians (s.width / 2) < Real.pi / 2 := by
    simp only [radians, k_real, pi_real, h180]
    have : s.width / 2 * (Real.pi / 180) = s.width * Real.pi / 360 := by ring
    rw [this, div_lt_div_iff₀ (by norm_num) (by norm_num)]
    nlinarith [Real.pi_pos]
  have hW : 0 < d * Real.tan (radians (s.width / 2)) := mul_pos hd (Real.tan_pos_of_pos_of_lt_pi_div_two hang0 hang1)
  have e1 : radians (- -90 : ℝ) = Real.pi / 2 := by rw [neg_neg]; exact radians_90
  have e2 : radians (90 : ℝ) = Real.pi / 2 := radians_90
  have htan : ∀ x : ℝ, Scalar.tan x = Real.tan x := fun _ => rfl
  have e0 : radians (0 : ℝ) = 0 := by simp [radians]
  have en0 : radians (-0 : ℝ) = 0 := by simp [radians]
  simp only [polarEdges, hp, if_true, hc, k_real, h90, h2, zero_real, one_real, cart, e1, e2, e0, en0, sin_real, cos_real,
    Real.sin_pi_div_two, Real.cos_pi_div_two, Real.sin_zero, Real.cos_zero, htan, vscale, vsub, vaddv, mul_one, one_mul, zero_mul,
    mul_zero, sub_zero, add_zero, zero_add, zero_sub]
  split
  · rename_i hlt
    exfalso
    have hl := azimuthOf_of_x_neg (-(d * Real.tan (radians (s.width / 2)))) d 0 (by simpa using hW)
    have hr := azimuthOf_of_x_nonneg (d * Real.tan (radians (s.width / 2))) d 0 hW.le
    linarith
  · split
    · rename_i hlt
      exfalso
      simp only [azimuthOf, sub_self] at hlt
      norm_num at hlt
    · exact ⟨_, rfl⟩

/-! ### the Cartesian point path without zones and lock is total -/

open Earverif.C13 (TreeS PlaneS RowS leaves Distinct) in
theorem treeNonempty_of_TreeS (st : Tree ℝ) (h : TreeS st) (hne : st ≠ []) : treeNonempty st = true := by
  simp only [treeNonempty, Bool.and_eq_true, Bool.not_eq_true', List.isEmpty_eq_false_iff, List.all_eq_true, ne_eq]
  refine ⟨hne, fun pl hpl => ⟨(h.planes pl hpl).1, fun row hrow => ((h.planes pl hpl).2.rows row hrow).ne⟩⟩

theorem alloExtendFrom_allFalse (pos : List (Zone.P3 ℝ)) [Zone.Scalar ℝ] : ∀ (cs : List (Zone.P3 ℝ)) (i : Nat) (m : List Bool),
    (∀ b ∈ m, b = false) → Zone.alloExtendFrom pos cs i m = m
  | [], _, _, _ => rfl
  | c :: cs, i, m, hm => by
    have hex : Zone.isExcl m i = false := by
      simp only [Zone.isExcl, List.getD_eq_getElem?_getD]
      cases hg : m[i]? with
      | none => rfl
      | some b => simpa using hm b (List.mem_of_getElem? hg)
    simp only [Zone.alloExtendFrom, Zone.extendStep, hex, Bool.false_and, Bool.false_eq_true, if_false]
    exact alloExtendFrom_allFalse pos cs (i + 1) m hm

theorem alloExcluded_allFalse [Zone.Scalar ℝ] (pos : List (Zone.P3 ℝ)) (m : List Bool) (hm : ∀ b ∈ m, b = false) :
    Zone.alloExcluded pos m = m := by
  simp only [Zone.alloExcluded, Zone.alloExtend, alloExtendFrom_allFalse pos pos 0 m hm]
  split
  · exact List.map_congr_left (fun b hb => (hm b hb).symm) |>.trans (List.map_id' m) |> fun h => by
      simpa using (List.map_congr_left (f := fun _ => false) (g := id) (fun b hb => (hm b hb).symm)).trans (List.map_id m)
  · rfl

theorem keep_allFalse {β : Type} : ∀ (m : List Bool) (l : List β), (∀ b ∈ m, b = false) → m.length = l.length →
    CartLock.keep m l = l
  | [], [], _, _ => rfl
  | [], _ :: _, _, h => by simp at h
  | _ :: _, [], _, h => by simp at h
  | b :: m, a :: l, hm, h => by
    have hb : b = false := hm b (by simp)
    subst hb
    simp only [CartLock.keep]
    rw [keep_allFalse m l (fun b hb => hm b (by simp [hb])) (by simpa using h)]

/-- the layout's screen, if any, has edges (`GainCalc.__init__` does not raise) -/
def ScreenOk (E : LayoutEnv ℝ) : Prop := ∀ rep, E.screen = some rep → ∃ e, polarEdges rep = some e

/-- a block that uses none of positionOffset, screenRef, screenEdgeLock, zoneExclusion, channelLock -/
structure PlainBlock (b : CBlock ℝ) : Prop where
  offset : b.base.offset = none
  screenRef : b.screenRef = false
  edge : b.edge = ⟨none, none⟩
  zones : b.zones = []
  lock : b.lock = none

theorem positionBeforeLock_plain (E : LayoutEnv ℝ) (P : Conv.Params ℝ) (b : CBlock ℝ) (hs : ScreenOk E) (hb : PlainBlock b) :
    positionBeforeLock E P b = some (coordTrans b.base.cartesian b.base.coords) := by
  simp only [positionBeforeLock, hb.offset, applyOffset_none, Option.bind_some, screenScaleHandle_noRef E P _ b _ hb.screenRef]
  cases hsc : E.screen with
  | none => exact edgeLockHandle_noScreen E P _ b _ hsc
  | some rep =>
    obtain ⟨e, he⟩ := hs rep hsc
    exact edgeLockHandle_noEdge E P _ b _ rep e hsc he hb.edge

open Earverif.C13 (TreeS leaves Distinct) in
/-- **The Cartesian point path is total on plain blocks**: every Cartesian block with zero extent and without
    positionOffset, screenRef, screenEdgeLock, zones and channelLock — any position, divergence, gains, diffuse, mute — is
    rendered (`renderConcreteCart` returns gains; the Python does not raise), on every environment with at least one
    loudspeaker, pairwise distinct allocentric positions and a screen with edges. -/
theorem renderConcreteCart_plain_total (E : LayoutEnv ℝ) (P : Conv.Params ℝ) (b : CBlock ℝ) (hE : E.spks.length = E.allo.length)
    (hd : Distinct E.allo) (hne : E.allo ≠ []) (hs : ScreenOk E) (hb : PlainBlock b) :
    ∃ r, renderConcreteCart E P b = some r := by
  have hmask : ∀ x ∈ E.spks.map (fun _ => false), x = false := by
    intro x hx; simp only [List.mem_map] at hx; obtain ⟨_, _, rfl⟩ := hx; rfl
  have hfin : Zone.alloExcluded E.allo (E.spks.map fun _ => false) = E.spks.map fun _ => false :=
    alloExcluded_allFalse _ _ hmask
  have hkeep : CartLock.keep (E.spks.map fun _ => false) E.allo = E.allo := keep_allFalse _ _ hmask (by simp [hE])
  obtain ⟨st, hst, hts, hleaves⟩ := C13.speakerTree_spec E.allo hd
  have hstne : st ≠ [] := by
    intro h0
    obtain ⟨c, cs, hc⟩ := List.exists_cons_of_ne_nil hne
    have := (hleaves ⟨0, c.x, c.y, c.z⟩).mpr ⟨0, c, by simp [hc], rfl⟩
    simp [h0, leaves] at this
  have htot : ∀ ps : List (V3 ℝ), ∃ g, (ps.mapM fun pos => alloHandle E.allo.length st pos.1 pos.2.1 pos.2.2) = some g := by
    intro ps
    exact mapM_some_of_forall _ ps (fun pos _ => alloHandle_total _ st _ _ _ (treeNonempty_of_TreeS st hts hstne))
  simp only [renderConcreteCart, positionBeforeLock_plain E P b hs hb, Option.bind_some, hb.zones, Zone.getExcluded, hfin, hkeep,
    hb.lock, Lock.lockHandle, CartLock.lockedPosition, hst]
  obtain ⟨g, hg⟩ := htot (divergePositions true (ofP3 (toP3 (coordTrans b.base.cartesian b.base.coords))) b.base.divValue
    b.base.azimuthRange b.base.positionRange b.base.v2)
  rw [hg]
  exact ⟨_, rfl⟩

/-! ### the C05 panner returns a result at the first loudspeaker of every Triplet -/

theorem mapM_getElem {β γ : Type} (f : β → Option γ) : ∀ (l : List β) (out : List γ), l.mapM f = some out →
    ∀ (k : Nat) (b : β), l[k]? = some b → ∃ c, out[k]? = some c ∧ f b = some c
  | [], out, h, k, b, hk => by simp at hk
  | a :: l, out, h, k, b, hk => by
    rw [List.mapM_cons] at h
    cases ha : f a with
    | none => simp [ha] at h
    | some c0 =>
      cases hl : l.mapM f with
      | none => simp [ha, hl] at h
      | some cs =>
        simp only [ha, hl, Option.bind_eq_bind, Option.bind_some, Option.pure_def, Option.some.injEq] at h
        subst h
        cases k with
        | zero =>
          simp only [List.getElem?_cons_zero, Option.some.injEq] at hk
          subst hk
          exact ⟨c0, by simp, ha⟩
        | succ k =>
          simp only [List.getElem?_cons_succ] at hk
          obtain ⟨c, hc, hf⟩ := mapM_getElem f l cs hl k b hk
          exact ⟨c, by simpa using hc, hf⟩

theorem toRegion_total (n : Nat) (r : RawRegion) (h : r.wellFormed n = true) :
    ∃ reg : Region ℝ, r.toRegion = some reg := by
  obtain ⟨kind, ch, posl, centre, cdm, order⟩ := r
  simp only [RawRegion.wellFormed, Bool.and_eq_true, beq_iff_eq] at h
  obtain ⟨⟨_, hpl⟩, hk⟩ := h
  rcases kind with _ | _ | _ | kind
  · have h3 : posl.length = 3 := by simp only [beq_iff_eq] at hk; omega
    match posl, h3 with
    | [a, b, c], _ => exact ⟨_, rfl⟩
  · exact ⟨_, rfl⟩
  · exact ⟨_, rfl⟩
  · simp at hk

/-- **at the first loudspeaker of a Triplet of a checked table the panner returns a result** (layouts without the stereo
    wrapper): the Triplet itself accepts its own vertex (`triplet_exact_at_vertex`; invertible by `pspNzOk`), so the
    first-accepting scan cannot come back empty -/
theorem pspHandle_some_at_vertex (L : RawLayout) (hwf : L.wellFormed = true) (hst : L.stereo = none) (hz : pspNzOk L = true)
    (r : RawRegion) (hr : r ∈ L.regions) (hk : r.kind = 0) (a b c : P3) (hp : r.pos = [a, b, c]) :
    ∃ p, pspHandle L (PointSource.p3 a : Vec3 ℝ) = some p := by
  have hw := hwf
  simp only [RawLayout.wellFormed, Bool.and_eq_true, List.all_eq_true] at hw
  obtain ⟨⟨⟨hregs, _⟩, _⟩, _⟩ := hw
  obtain ⟨regions, hmap⟩ := mapM_some_of_forall (RawRegion.toRegion (α := ℝ)) L.regions
    (fun r' hr' => toRegion_total L.nInner r' (hregs r' hr'))
  obtain ⟨k, hkl, hkr⟩ := List.getElem_of_mem hr
  obtain ⟨reg, hreg, htr⟩ := mapM_getElem _ L.regions regions hmap k r (by rw [List.getElem?_eq_getElem hkl, hkr])
  have hregEq : reg = .triplet r.ch (PointSource.p3 a, PointSource.p3 b, PointSource.p3 c) := by
    obtain ⟨kind, ch, posl, centre, cdm, order⟩ := r
    simp only at hk hp
    subst hk; subst hp
    simp only [RawRegion.toRegion, Option.some.injEq] at htr
    exact htr.symm
  have hdet : PointSource.det3 ((PointSource.p3 a : Vec3 ℝ), PointSource.p3 b, PointSource.p3 c) ≠ 0 := by
    simp only [pspNzOk, List.all_eq_true] at hz
    have := hz r hr
    obtain ⟨kind, ch, posl, centre, cdm, order⟩ := r
    simp only at hk hp
    subst hk; subst hp
    simp only [regionNzOk] at this
    exact (tripOk_sound a b c this).1
  have hklt : k < regions.length := by
    by_contra hcon
    rw [List.getElem?_eq_none (not_lt.mp hcon)] at hreg
    exact absurd hreg (by simp)
  have hrk : regions[k] = reg := by
    have := List.getElem?_eq_getElem hklt
    rw [hreg] at this
    exact (Option.some.inj this).symm
  -- the inner panner has a result
  have hne : ∀ roots, PointSource.PointSourcePanner.handle regions L.nInner roots (PointSource.p3 a : Vec3 ℝ) ≠ none := by
    intro roots hnone
    have := (PointSource.panner_none_iff regions L.nInner roots _).mp hnone k hklt
    rw [hrk, hregEq] at this
    simp only [Region.handle, (PointSource.triplet_exact_at_vertex _ hdet).1, Option.map_some] at this
    exact absurd this (by simp)
  simp only [pspHandle, hmap, RawLayout.handle, hst]
  cases hv : PointSource.PointSourcePanner.handle regions L.nInner _ (PointSource.p3 a : Vec3 ℝ) with
  | none => exact absurd hv (hne _)
  | some v => exact ⟨_, rfl⟩

/-! ### a polar point block straight ahead at distance 1 -/

theorem extentMod_zero_one : extentMod (0 : ℝ) 1 = 0 := by
  simp only [extentMod, one_real]
  generalize (k 4 * degrees (Scalar.atan2 (interp (0 : ℝ) [zero, k 360] [k (1 / 5), 1]) 1) : ℝ) = e1
  simp only [interp, zero_real]
  split
  · rfl
  · simp only [interp.go, (eqS_real e1 e1).mpr rfl, if_true]

theorem amountSpread_zero : amountSpread (0 : ℝ) 0 = 0 := by
  simp [amountSpread, maxS, interp]

theorem p3_front : (PointSource.p3 (((0, 0), (1, 0), (0, 0)) : P3) : Vec3 ℝ) = (0, 1, 0) := by
  simp [PointSource.p3, PointSource.OfF2.ofF2, PointSource.f2Rat]

/-- a polar point block whose position is mapped by `coord_trans` onto a point `pos0` at distance 1 where the C05 panner has
    a result is rendered — no positionOffset, screenRef, screenEdgeLock, zones, channelLock, divergence -/
theorem renderConcretePolarPoint_at_total (E : LayoutEnv ℝ) (P : Conv.Params ℝ) (L : RawLayout)
    (hspk : E.spks.length = E.groups.length) (hs : ScreenOk E) (blk : CBlock ℝ) (hb : PlainBlock blk)
    (hpolar : blk.base.cartesian = false) (hdiv : blk.base.divValue = none) (pos0 : V3 ℝ)
    (hcart : cart blk.base.coords.1 blk.base.coords.2.1 blk.base.coords.2.2 = pos0) (hn : norm3 pos0 = 1)
    (hpv : ∃ pv, pspHandle L pos0 = some pv) :
    ∃ out, renderConcretePolarPoint E P L blk = some out := by
  obtain ⟨pv, hpv⟩ := hpv
  have hpos : positionBeforeLock E P blk = some pos0 := by
    rw [positionBeforeLock_plain E P blk hs hb, hpolar]
    simp only [coordTrans, Bool.false_eq_true, if_false, hcart]
  have hpan : polarPointPan E L pos0 = some (polarHandle E.n pv (fun _ _ => []) pos0 zero zero zero) := by
    have hext : polarExtents (1 : ℝ) (zero : ℝ) zero zero = [(0, 0)] := by
      have hpd : polarDistances (1 : ℝ) (0 : ℝ) = [1] := by
        simp only [polarDistances, zero_real]; rw [if_pos ((eqS_real _ _).mpr rfl)]
      simp only [polarExtents, zero_real, hpd, List.map_cons, List.map_nil, extentMod_zero_one]
    simp only [polarPointPan, hn, hext, amountSpread_zero, hpv, Option.map_some]
    rw [if_neg]
    simp only [k_real]; norm_num
  have hmaskall : (E.spks.map fun _ => false).all (fun b => !b) = true := by simp
  have hdm : downmixForExcluded E.groups (E.spks.map fun _ => false) = some (eye E.groups.length : List (List ℝ)) := by
    simp only [downmixForExcluded, List.length_map, hspk, bne_self_eq_false, Bool.false_eq_true, if_false, hmaskall,
      Bool.or_true, if_true]
  simp only [renderConcretePolarPoint, hpos, Option.bind_some, hb.lock, Lock.lockHandle, CartLock.lockedPosition, hdiv,
    divergePositions, ofP3, toP3, List.mapM_cons, List.mapM_nil, hpan, hb.zones, Zone.getExcluded, hdm]
  exact ⟨_, rfl⟩

/-- **A polar point block straight ahead (azimuth 0, elevation 0, distance 1) is rendered** — no positionOffset, screenRef,
    screenEdgeLock, zones, channelLock, divergence; any gains, diffuse, mute — on every layout whose C05 table passes
    `wellFormed` / `pspNzOk`, has no stereo wrapper and contains a Triplet whose first loudspeaker is the front
    loudspeaker (0, 1, 0). -/
theorem renderConcretePolarPoint_front_total (E : LayoutEnv ℝ) (P : Conv.Params ℝ) (L : RawLayout)
    (hspk : E.spks.length = E.groups.length) (hwf : L.wellFormed = true) (hst : L.stereo = none) (hz : pspNzOk L = true)
    (hs : ScreenOk E) (r : RawRegion) (hr : r ∈ L.regions) (hk : r.kind = 0) (b c : P3)
    (hp : r.pos = [((0, 0), (1, 0), (0, 0)), b, c]) (blk : CBlock ℝ) (hb : PlainBlock blk)
    (hpolar : blk.base.cartesian = false) (hcoords : blk.base.coords = (0, 0, 1)) (hdiv : blk.base.divValue = none) :
    ∃ out, renderConcretePolarPoint E P L blk = some out := by
  have hpv := pspHandle_some_at_vertex L hwf hst hz r hr hk _ b c hp
  rw [p3_front] at hpv
  refine renderConcretePolarPoint_at_total E P L hspk hs blk hb hpolar hdiv (0, 1, 0) ?_ (by simp [norm3]) hpv
  rw [hcoords]; exact cart_front 1

/-! ### straight up: the virtual centre of a VirtualNgon (also through the 0+2+0 stereo wrapper) -/

theorem cart_up : cart (0 : ℝ) 90 1 = (0, 0, 1) := by
  have e : radians (90 : ℝ) = Real.pi / 2 := radians_90
  simp only [cart, e, sin_real, cos_real, Real.sin_pi_div_two, Real.cos_pi_div_two]
  simp [radians]

theorem p3_up : (PointSource.p3 (((0, 0), (0, 0), (1, 0)) : P3) : Vec3 ℝ) = (0, 0, 1) := by
  simp [PointSource.p3, PointSource.OfF2.ofF2, PointSource.f2Rat]

/-- a VirtualNgon of a checked table accepts its own virtual centre (the first fan triangle already does) -/
theorem ngon_some_at_centre (n : Nat) (r : RawRegion) (hw : r.wellFormed n = true) (hz : regionNzOk r = true)
    (hk : r.kind = 1) (reg : Region ℝ) (hreg : r.toRegion = some reg) (roots : Option ℝ × Option ℝ) :
    reg.handle roots (PointSource.p3 r.centre : Vec3 ℝ) ≠ none := by
  obtain ⟨kind, ch, posl, centre, cdm, order⟩ := r
  simp only at hk
  subst hk
  simp only [RawRegion.toRegion, Option.some.injEq] at hreg
  subst hreg
  simp only [RawRegion.wellFormed, Bool.and_eq_true, decide_eq_true_eq, beq_iff_eq] at hw
  obtain ⟨⟨_, hpl⟩, ⟨⟨⟨hk3, _⟩, _⟩, _⟩⟩ := hw
  have hpos0 : 0 < posl.length := by omega
  simp only [regionNzOk, List.all_eq_true, List.mem_range, Bool.and_eq_true, decide_eq_true_eq, bne_iff_ne, ne_eq] at hz
  obtain ⟨⟨⟨hoi, hoj⟩, _⟩, htri⟩ := hz 0 hpos0
  obtain ⟨hd, _⟩ := tripOk_sound _ _ _ htri
  rw [← getD_map_p3 posl _ hoi, ← getD_map_p3 posl _ hoj] at hd
  simp only [Region.handle, PointSource.VirtualNgon.handle]
  intro hnone
  have hall := PointSource.firstAccept_eq_none.mp hnone
  have hmem : (([order.getD 0 0, order.getD ((0 + 1) % posl.length) 0, posl.length],
      ((posl.map (PointSource.p3 (α := ℝ))).getD (order.getD 0 0) PointSource.zero3,
       (posl.map (PointSource.p3 (α := ℝ))).getD (order.getD ((0 + 1) % posl.length) 0) PointSource.zero3,
       (PointSource.p3 centre : Vec3 ℝ))) : List Nat × Mat3 ℝ) ∈
      (PointSource.VirtualNgon.regions ⟨posl.map PointSource.p3, PointSource.p3 centre, cdm.map PointSource.OfF2.ofF2, order⟩) := by
    simp only [PointSource.VirtualNgon.regions, List.mem_map, List.mem_range, List.length_map]
    exact ⟨0, hpos0, rfl⟩
  have := hall _ (List.mem_map.mpr ⟨_, hmem, rfl⟩)
  simp only [(PointSource.triplet_exact_at_vertex _ hd).2.2, Option.map_some, PointSource.remap] at this
  exact absurd this (by simp)

/-- **straight up (the virtual centre of a VirtualNgon) the panner returns a result**, with or without the 0+2+0 stereo
    wrapper -/
theorem pspHandle_some_at_centre (L : RawLayout) (hwf : L.wellFormed = true) (hz : pspNzOk L = true)
    (r : RawRegion) (hr : r ∈ L.regions) (hk : r.kind = 1) (hc : r.centre = ((0, 0), (0, 0), (1, 0))) :
    ∃ p, pspHandle L ((0, 0, 1) : V3 ℝ) = some p := by
  have hw := hwf
  simp only [RawLayout.wellFormed, Bool.and_eq_true, List.all_eq_true] at hw
  obtain ⟨⟨⟨hregs, _⟩, hdm⟩, hstw⟩ := hw
  obtain ⟨regions, hmap⟩ := mapM_some_of_forall (RawRegion.toRegion (α := ℝ)) L.regions
    (fun r' hr' => toRegion_total L.nInner r' (hregs r' hr'))
  obtain ⟨k, hkl, hkr⟩ := List.getElem_of_mem hr
  obtain ⟨reg, hreg, htr⟩ := mapM_getElem _ L.regions regions hmap k r (by rw [List.getElem?_eq_getElem hkl, hkr])
  have hklt : k < regions.length := by
    by_contra hcon
    rw [List.getElem?_eq_none (not_lt.mp hcon)] at hreg
    exact absurd hreg (by simp)
  have hrk : regions[k] = reg := by
    have := List.getElem?_eq_getElem hklt
    rw [hreg] at this
    exact (Option.some.inj this).symm
  simp only [pspNzOk, List.all_eq_true] at hz
  have hup : (PointSource.p3 r.centre : Vec3 ℝ) = (0, 0, 1) := by rw [hc]; exact p3_up
  have hne : ∀ roots, PointSource.PointSourcePanner.handle regions L.nInner roots ((0, 0, 1) : Vec3 ℝ) ≠ none := by
    intro roots hnone
    have := (PointSource.panner_none_iff regions L.nInner roots _).mp hnone k hklt
    rw [hrk, ← hup] at this
    exact ngon_some_at_centre L.nInner r (hregs r hr) (hz r hr) hk reg htr _ this
  have hz' : pspNzOk L = true := by simpa [pspNzOk, List.all_eq_true] using hz
  simp only [pspHandle, hmap, RawLayout.handle]
  generalize hin : PointSource.PointSourcePanner.handle regions L.nInner _ ((0, 0, 1) : Vec3 ℝ) = inner
  cases inner with
  | none => exact absurd hin (hne _)
  | some v =>
    cases hst : L.stereo with
    | none => exact ⟨_, rfl⟩
    | some lr =>
      obtain ⟨l, r2⟩ := lr
      have hQ : (∀ x ∈ v, 0 ≤ x) ∧ HasPos v ∧ v.length = L.nInner := by
        refine panner_inner_spec L hwf hz' regions hmap _ ?_ ?_ (0, 0, 1) (by norm_num) v hin
        · intro k xv hxv
          split at hxv
          · exact quadRoot_range _ xv (by simpa using hxv)
          · simp at hxv
        · intro k yv hyv
          split at hyv
          · exact quadRoot_range _ yv (by simpa using hyv)
          · simp at hyv
      obtain ⟨hwn, hwu, _, hwl⟩ := downmixed_spec L hdm v hQ.1 hQ.2.1 hQ.2.2
      simp only [hst, decide_eq_true_eq, Bool.and_eq_true, beq_iff_eq] at hstw
      simp only [PointSource.PointSourcePannerDownmix.handle, Option.map_some]
      generalize PointSource.normalise (PointSource.matVec (L.downmixRows : List (List ℝ)) v) = w at hwn hwu hwl
      rw [hstw.2] at hwl
      match w, hwl with
      | [g0, g1, g2, g3, g4], _ =>
        obtain ⟨out', ho', _⟩ := PointSource.stereo_level g0 g1 g2 g3 g4 (hwn g0 (by simp))
          (hwn g1 (by simp)) (hwn g2 (by simp)) (hwn g3 (by simp)) (hwn g4 (by simp)) hwu
        rw [ho']
        exact ⟨_, rfl⟩

/-- **A polar point block straight up (azimuth 0, elevation 90, distance 1) is rendered** on every layout (0+2+0 included)
    whose C05 table passes `wellFormed` / `pspNzOk` and has a VirtualNgon with the virtual centre (0, 0, 1) -/
theorem renderConcretePolarPoint_up_total (E : LayoutEnv ℝ) (P : Conv.Params ℝ) (L : RawLayout)
    (hspk : E.spks.length = E.groups.length) (hwf : L.wellFormed = true) (hz : pspNzOk L = true)
    (hs : ScreenOk E) (r : RawRegion) (hr : r ∈ L.regions) (hk : r.kind = 1) (hc : r.centre = ((0, 0), (0, 0), (1, 0)))
    (blk : CBlock ℝ) (hb : PlainBlock blk) (hpolar : blk.base.cartesian = false) (hcoords : blk.base.coords = (0, 90, 1))
    (hdiv : blk.base.divValue = none) :
    ∃ out, renderConcretePolarPoint E P L blk = some out := by
  refine renderConcretePolarPoint_at_total E P L hspk hs blk hb hpolar hdiv (0, 0, 1) ?_ (by simp [norm3])
    (pspHandle_some_at_centre L hwf hz r hr hk hc)
  rw [hcoords]; exact cart_up

end Earverif.GainCalc
